"""C10 — symbolic parameters behave exactly like the values they stand for.

(a) correspondence of SFV.Model.Param with par_evaluate / par_regref_deps / par_is_symbolic /
    _eval_evalf (param.info), Program.params / bind_params (param.free), Operation.decompose of the
    template gates (param.decompose), and the engine's measured-value bookkeeping end to end with a
    recording backend whose outcomes are scripted (param.engine);
(b) property oracle on the real code: symbolic program vs the program with the values substituted,
    through compile (gaussian / bosonic / fock / gaussian_unitary), optimize, decomposition and engine
    runs over several segments with post-selected outcomes; unbound / unknown / unmeasured parameters
    must raise ParameterError; histories with decoy programs, stale RegRefs, failed first attempts;
(c) replay of any failing input.
"""
import copy
import itertools
import json
from fractions import Fraction
from pathlib import Path

import numpy as np

from lib import parexpr as px

RULE = ("expressions of depth <= 4 over free / measured atoms (sums, products, negation, powers, division, 14 "
        "elementary functions, atan2), scalars, literals and arrays; environments with bound / default / unbound "
        "free parameters and measured / unmeasured subsystems; decoy programs re-using subsystem indices; "
        "free-parameter scripts over 3 programs; template gates with symbolic arguments and inverse flag; "
        "histories of 1-4 segments (measure / re-prepare / use / re-measure) built before or between runs, run "
        "as a list or successively, re-run on fresh or reset engines, with failed first attempts; programs of "
        "3-8 operations with symbolic arguments vs their substituted twin through 4 compilers, optimize on/off, "
        "split into segments.  Non-trivial = the parameter / program contains at least one symbolic atom; "
        "distinct by canonical case.")
ASSUMPTIONS = ["values are compared at 1e-9 relative on well-conditioned expressions (all intermediates < 1e3)",
               "SymPy's automatic simplification at construction is trusted to preserve the value (cross-checked "
               "numerically against an independent NumPy evaluation of the generated tree on every case)",
               "post-selected homodyne outcomes (select=) stand for the measurement results on the real backends"]
TRUSTED = ["modelled: parameters.par_evaluate / par_regref_deps / par_is_symbolic / _eval_evalf, Program.params / "
           "bind_params, Gate.decompose + the _decompose templates of 10 operations, Gate.merge (first parameter), "
           "Measurement.apply + BaseEngine._run hand-over; SymPy lambdify and NumPy elementary functions are "
           "trusted (validated numerically against an independent evaluator each run)"]

HERE = Path(__file__).resolve().parent
CORPUS = HERE.parents[1] / "corpus" / "C10"
_uid = itertools.count()


def rat(v):
    f = Fraction(float(v))
    return [f.numerator, f.denominator]


def dy(rng, lo=-16, hi=16, den=8, nonzero=True):
    while True:
        v = rng.randint(lo, hi) / den
        if v != 0 or not nonzero:
            return v


def perr(sf):
    from strawberryfields.parameters import ParameterError
    return ParameterError


# =============================================================== B1: param.info

def gen_info_case(rng):
    u = next(_uid)
    names = [f"a{u}", f"b{u}"]
    n = 12   # indices with two digits: every place that prints or parses "q<i>" must cope
    kind = rng.choice(["sym", "sym", "sym", "sym", "arr", "arr2", "cplx", "cfun", "cfun", "cfun", "carr", "lit", "litarr"])
    cval = (lambda: complex(dy(rng), dy(rng))) if kind in CPLX_KINDS else (lambda: dy(rng, nonzero=rng.random() < 0.8))
    meas = {m: cval() for m in INFO_MODES if rng.random() < 0.7}
    free = {}
    for nm in names:
        st = rng.choice(["val", "val", "val", "default", "both", "none"])
        free[nm] = dict(val=dy(rng, nonzero=rng.random() < 0.8) if st in ("val", "both") else None,
                        default=dy(rng, nonzero=rng.random() < 0.8) if st in ("default", "both") else None)
    depth = rng.randint(1, 4)
    mk = lambda: px.gen_expr(rng, depth, names, INFO_MODES)
    if kind == "sym":
        p = {"one": mk()}
    elif kind == "cplx":
        p = {"one": px.gen_poly(rng, min(depth, 3), names, INFO_MODES)}
    elif kind == "cfun":
        # re / im / conjugate / Abs / arg / exp(I x) of heterodyne (complex) outcomes
        p = {"one": px.gen_cexpr(rng, rng.randint(0, 3), INFO_MODES, (), names, real=rng.random() < 0.7)}
    elif kind == "carr":
        p = {"arr": [px.gen_cexpr(rng, rng.randint(0, 2), INFO_MODES, (), names, real=rng.random() < 0.7)
                     for _ in range(rng.randint(2, 3))]}
    elif kind == "arr":
        p = {"arr": [mk() if rng.random() < 0.7 else px.num(dy(rng)) for _ in range(rng.randint(2, 3))]}
    elif kind == "arr2":
        mk2 = lambda: px.gen_expr(rng, min(depth, 2), names, INFO_MODES)
        p = {"arr2": [[mk2() if rng.random() < 0.5 else px.num(dy(rng)) for _ in range(2)] for _ in range(rng.randint(1, 2))]}
    elif kind == "lit":
        p = {"one": px.num(dy(rng))}
    else:
        p = {"arr": [px.num(dy(rng)) for _ in range(rng.randint(1, 3))]}
    meas = {m: ([v.real, v.imag] if isinstance(v, complex) else v) for m, v in meas.items()}   # JSON-serialisable
    return dict(kind=kind, n=n, names=names, meas=meas, free=free, p=p, decoy=rng.random() < 0.5,
                valform=rng.choice(["arr1", "arr1", "float", "arr11"]),
                dtype="f32" if kind == "sym" and rng.random() < 0.15 else None)


INFO_MODES = [0, 1, 2, 9, 10, 11]
CPLX_KINDS = ("cplx", "cfun", "carr")


def meas_env(case):
    return {int(k): (complex(*v) if isinstance(v, list) else v) for k, v in case["meas"].items()}


def trees_of(p):
    if "one" in p:
        return [p["one"]]
    if "arr" in p:
        return list(p["arr"])
    return [t for row in p["arr2"] for t in row]


def scalars_of(pj):
    if "one" in pj:
        return [pj["one"]]
    if "arr" in pj:
        return list(pj["arr"])
    return [t for row in pj["arr2"] for t in row]


def effective_free(free):
    return {k: (v["val"] if v["val"] is not None else v["default"]) for k, v in free.items()}


def build_info(sf, case):
    """returns (prog, real parameter object)"""
    prog = sf.Program(case["n"])
    fobj = {nm: prog.params(nm) for nm in case["names"]}
    q = prog.register
    lit = case["kind"] in ("lit", "litarr")
    import sympy
    if "one" in case["p"]:
        obj = px.numval(case["p"]["one"]) if lit else px.to_sympy(case["p"]["one"], fobj, q)
    elif "arr2" in case["p"]:
        rows = [[px.numval(t) if "n" in t else px.to_sympy(t, fobj, q) for t in row] for row in case["p"]["arr2"]]
        symb = any(isinstance(x, sympy.Basic) for row in rows for x in row)
        obj = np.empty((len(rows), 2), dtype=object if symb else float)
        for i, row in enumerate(rows):
            for j, x in enumerate(row):
                obj[i, j] = x
    else:
        items = [px.numval(t) if "n" in t else px.to_sympy(t, fobj, q) for t in case["p"]["arr"]]
        import sympy
        obj = np.array(items, dtype=object) if any(isinstance(x, sympy.Basic) for x in items) else np.array(items, dtype=float)
    if case["decoy"]:
        decoy = sf.Program(case["n"])
        with decoy.context as dq:
            for r in dq:
                r.par  # noqa: B018  (another program touches the same subsystem indices)
        decoy.reg_refs[0].val = np.array([123.0])
    for m, v in meas_env(case).items():
        prog.reg_refs[m].val = {"arr1": np.array([v]), "float": v, "arr11": np.array([[v]])}[case["valform"]]
    for nm, st in case["free"].items():
        fobj[nm].val = st["val"]
        fobj[nm].default = st["default"]
    return prog, obj


def info_one(ctx, sf, case, reqs, pend):
    from strawberryfields.parameters import par_evaluate, par_regref_deps, par_is_symbolic
    PE = perr(sf)
    prog, obj = build_info(sf, case)
    try:
        pj = px.param_to_json(obj)
    except px.Unsupported as e:
        ctx.tally("info_unsupported_sympy_node")
        return
    env_f = effective_free(case["free"])
    env_m = meas_env(case)
    cplx = case["kind"] in CPLX_KINDS
    f32 = case.get("dtype") == "f32"
    rp = dict(kind="info", case=case)
    try:
        val = par_evaluate(obj, dtype=np.float32) if f32 else par_evaluate(obj)
        real = ("ok", val)
        # history independence: evaluating another parameter in between and evaluating again gives the same
        try:
            par_evaluate(prog.reg_refs[0].par * 2 + 1)
        except PE:
            pass
        again = par_evaluate(obj, dtype=np.float32) if f32 else par_evaluate(obj)
        if not (np.shape(again) == np.shape(val) and np.all(np.asarray(again) == np.asarray(val))):
            ctx.fail("evaluate-not-repeatable", f"par_evaluate gave {val}, then {again} for the same parameter", rp)
    except PE as e:
        real = ("err", "ParameterError")
    except Exception as e:  # any other exception class is not what the property allows
        real = ("exc", f"{type(e).__name__}: {e}")
    deps = par_regref_deps(obj)
    foreign = [r.ind for r in deps if prog.reg_refs.get(r.ind) is not r]
    sym = bool(par_is_symbolic(obj))
    # --- oracle against the independent evaluator on the generated tree
    trees = trees_of(case["p"])
    walked = [s.get("sym") for s in scalars_of(pj)]
    ctx.oracle_cases += 1
    nontriv = any(px.atoms(t, "f") or px.atoms(t, "m") for t in trees)
    ctx.count("info_" + case["kind"] + ("_f32" if f32 else ""), case, nontriv, sample=case)
    # par_str prints measured parameters as q<index> and free parameters as {name}: the printed atoms are the atoms
    if "one" in pj and "sym" in pj["one"]:
        import re
        from strawberryfields.parameters import par_str
        txt = par_str(obj)
        want_m = {f"q{m}" for m in px.atoms(pj["one"]["sym"], "m")}
        want_f = set(px.atoms(pj["one"]["sym"], "f"))
        if set(re.findall(r"q\d+", txt)) != want_m or set(re.findall(r"\{(\w+)\}", txt)) != want_f:
            ctx.fail("par-str-atoms", f"par_str gives {txt!r}, the parameter has measured atoms {sorted(want_m)} and "
                     f"free atoms {sorted(want_f)}", rp)
    # (only for sums and products of atoms: a constant subexpression such as cosh(2) is evaluated in float64)
    if f32 and real[0] == "ok" and any(w is not None and (px.atoms(w, "f") or px.atoms(w, "m")) and
                                       '"fn"' not in json.dumps(w) and '"pow"' not in json.dumps(w) for w in walked):
        if np.asarray(real[1]).dtype != np.float32:
            ctx.fail("dtype-ignored", f"par_evaluate(p, dtype=float32) returns {np.asarray(real[1]).dtype}", rp)
    # dependency extraction, judged by an independent walk over the stored SymPy trees: every subsystem whose
    # measured parameter occurs ANYWHERE in the parameter (array element, nested expression) must be reported,
    # by par_regref_deps, by Operation.measurement_deps and by Command.get_dependencies
    want_deps = sorted({m for w in walked if w is not None for m in px.atoms(w, "m")})
    got_deps = sorted({r.ind for r in deps})
    if got_deps != want_deps:
        ctx.fail("regref-deps-wrong", f"par_regref_deps({obj}) reports subsystems {got_deps}; measured parameters of "
                 f"{want_deps} occur in it", rp)
    else:
        try:
            from strawberryfields import ops as O
            op = O.Dgate(obj, 0.0)
            with prog.context:
                op | prog.reg_refs[5]
            cdeps = sorted({r.ind for r in prog.circuit[-1].get_dependencies()})
            odeps = sorted({r.ind for r in op.measurement_deps})
            if odeps != want_deps or cdeps != sorted(set(want_deps) | {5}):
                ctx.fail("command-deps-wrong", f"Dgate({obj}) | q[5]: measurement_deps {odeps}, get_dependencies {cdeps}; "
                         f"measured parameters of {want_deps} occur in the parameter", rp)
        except Exception as e:
            ctx.fail("command-deps-raises", f"Dgate({obj}) | q[5] raises {type(e).__name__}: {str(e)[:160]}", rp)
    if foreign:
        ctx.fail("regref-of-another-program", f"par_regref_deps returns RegRefs {foreign} that are not the "
                 f"RegRefs of the Program the parameter was built in (another Program touched q[i].par)", rp)
    try:
        ref = [px.fold(t, env_f, env_m) for t in trees]
        ok_cond = all(px.well_conditioned(t, env_f, env_m, cplx=cplx) for t in trees)
        if ok_cond:
            ref = ref[0] if "one" in case["p"] else np.array(ref)
            if "arr2" in case["p"]:
                ref = ref.reshape(len(case["p"]["arr2"]), -1)
            if real[0] != "ok":
                ctx.fail("evaluate-raises-though-bound", f"all atoms have values but par_evaluate gives {real}", rp)
            elif np.shape(ref) != np.shape(real[1]):
                ctx.fail("evaluate-wrong-shape", f"par_evaluate returns shape {np.shape(real[1])} for a parameter of "
                         f"shape {np.shape(ref)}", rp)
            elif not px.close(ref, np.asarray(real[1]), 2e-4 if f32 else 1e-9):
                ctx.fail("evaluate-wrong-value", f"the parameter is stored as {obj}; par_evaluate={real[1]}, independent "
                         f"evaluation of the expression as written={ref} (outcomes {env_m}, free {env_f})", rp)
        ctx.tally("info_bound")
    except px.Unsupported:
        ctx.tally("info_reference_refused")      # e.g. arg() on its branch cut
    except px.Unbound as ub:
        # the atom must still be in the stored expression (SymPy may have cancelled it)
        still = any(w is not None and ((ub.kind == "unbound" and ub.what in px.atoms(w, "f")) or
                                       (ub.kind == "unmeasured" and ub.what in px.atoms(w, "m"))) for w in walked)
        ctx.tally("info_" + ub.kind)
        if still and real[0] != "err":
            ctx.fail("no-parameter-error", f"atom {ub.what} has no value but par_evaluate gives {real}", rp)
    # --- correspondence request
    if ctx.proof_ok:
        rq = {"op": "param.info", "p": pj,
              "free": [[k, px.val_tree(v)] for k, v in env_f.items() if v is not None],
              "meas": [[m, px.val_tree(v)] for m, v in env_m.items()]}
        if f32:
            rq["dtype"] = "f32"
        reqs.append(rq)
        pend.append(("info", case, dict(real=real, deps=sorted({r.ind for r in deps}), sym=sym)))


def info_compare(ctx, case, got, model):
    ctx.corr_cases += 1
    if "__error__" in model:
        ctx.disagree("param.info", case, model, "driver error")
        return
    if model["sym"] != got["sym"]:
        ctx.disagree("par_is_symbolic", case, model["sym"], got["sym"])
    if model["deps"] != got["deps"]:
        ctx.disagree("par_regref_deps", case, model["deps"], got["deps"])
    real = got["real"]
    if "err" in model["eval"]:
        if real[0] != "err":
            ctx.disagree("par_evaluate", case, model["eval"], str(real))
    else:
        if real[0] != "ok":
            ctx.disagree("par_evaluate", case, "ok", str(real))
            return
        env_f = effective_free(case["free"])
        env_m = meas_env(case)
        trees = trees_of(case["p"])
        if not all(px.well_conditioned(t, env_f, env_m, cplx=case["kind"] in CPLX_KINDS) for t in trees):
            ctx.tally("info_illconditioned_skipped")
            return
        mv = px.pval_fold(model["eval"]["ok"])
        rv = np.asarray(real[1])
        if np.shape(rv) != np.shape(mv) or not px.close(mv, rv, 2e-4 if case.get("dtype") else 1e-9):
            ctx.disagree("par_evaluate", case, np.asarray(mv).tolist(), rv.tolist())


# =============================================================== B2: param.free

def gen_free_script(rng):
    u = next(_uid)
    names = [f"x{u}", f"y{u}"]
    steps = []
    for _ in range(rng.randint(5, 11)):
        k = rng.choice(["params", "params", "bind", "bind", "lookup", "lookup", "lock", "default"])
        i = rng.randrange(3)
        nm = rng.choice(names)
        if k == "params":
            steps.append(dict(do="params", prog=i, name=nm))
        elif k == "bind":
            b = [[rng.choice(names + [f"z{u}"] if rng.random() < 0.2 else names), dy(rng)] for _ in range(rng.randint(1, 2))]
            steps.append(dict(do="bind", prog=i, binding=b, byobj=rng.random() < 0.4))
        elif k == "lookup":
            steps.append(dict(do="lookup", name=nm))
        elif k == "lock":
            steps.append(dict(do="lock", prog=i))
        else:
            steps.append(dict(do="default", name=nm, val=dy(rng)))
    steps += [dict(do="lookup", name=nm) for nm in names]
    return dict(steps=steps)


def run_free_script(sf, script):
    """execute on real Programs; returns (outputs, executed steps for the model)"""
    from strawberryfields.parameters import par_evaluate
    from strawberryfields.program_utils import CircuitError
    PE = perr(sf)
    progs = [sf.Program(1) for _ in range(3)]
    out, msteps = [], []

    def obj(name):
        for p in progs:
            if name in p.free_params:
                return p.free_params[name]
        return None
    for st in script["steps"]:
        k = st["do"]
        if k == "params":
            try:
                progs[st["prog"]].params(st["name"])
                out.append("ok")
            except CircuitError:
                out.append("locked:" + st["name"])
            msteps.append(dict(do="params", prog=st["prog"], name=st["name"]))
        elif k == "lock":
            progs[st["prog"]].lock()
            out.append("ok")
            msteps.append(dict(do="lock", prog=st["prog"]))
        elif k == "bind":
            binding = {}
            for nm, v in st["binding"]:
                o = obj(nm)
                binding[o if (st.get("byobj") and o is not None) else nm] = v
            try:
                progs[st["prog"]].bind_params(binding)
                out.append("ok")
            except PE as e:
                unknown = [nm for nm, _ in st["binding"] if nm not in progs[st["prog"]].free_params]
                out.append("unknown:" + (unknown[0] if unknown else "?"))
            # dict semantics: a repeated key keeps its first position with the last value
            d = {}
            for nm, v in st["binding"]:
                d[nm] = v
            msteps.append(dict(do="bind", prog=st["prog"], binding=[[nm, rat(v)] for nm, v in d.items()]))
        elif k == "default":
            o = obj(st["name"])
            if o is None:
                continue
            o.default = st["val"]
            out.append("ok")
            msteps.append(dict(do="default", name=st["name"], val=rat(st["val"])))
        else:
            o = obj(st["name"])
            if o is None:
                continue
            try:
                out.append(rat(par_evaluate(o)))
            except PE:
                out.append(None)
            msteps.append(dict(do="lookup", name=st["name"]))
    return out, msteps


def assumptions_oracle(ctx, sf):
    """documented behaviour pinned: a measured or free parameter may stand for any number (real, negative, complex
    heterodyne outcome, array, tensor); its symbol therefore carries NO SymPy assumption that would license a
    rewriting at construction (re/im/conjugate/Abs/sign/sqrt(x**2)/sin(pi x) …) — only commutativity"""
    prog = sf.Program(12)
    for what, x in (("MeasuredParameter", prog.reg_refs[10].par), ("FreeParameter", prog.params("asm%d" % next(_uid)))):
        ctx.oracle_cases += 1
        bad = {a: getattr(x, "is_" + a) for a in ("real", "extended_real", "complex", "imaginary", "positive", "negative",
                                                  "nonnegative", "nonzero", "zero", "integer", "rational", "finite",
                                                  "even", "odd", "algebraic", "hermitian")
               if getattr(x, "is_" + a) is not None}
        if x.is_commutative is not True:
            bad["commutative"] = x.is_commutative
        if bad:
            ctx.fail("symbol-assumptions", f"{what} symbols carry SymPy assumptions {bad}: expressions of them are "
                     f"rewritten at construction as if the value had these properties", dict(kind="assumptions"))


def free_isolation_oracle(ctx, sf, variant):
    """the property itself: a Program's binding is not disturbed by another Program"""
    from strawberryfields.parameters import par_evaluate
    PE = perr(sf)
    u = next(_uid)
    nm = f"iso{u}"
    p1, p2 = sf.Program(1), sf.Program(1)
    a1 = p1.params(nm)
    p1.bind_params({nm: 0.25})
    if variant == "create":
        p2.params(nm)
    else:
        p2.params(nm)
        p1.bind_params({nm: 0.25})
        p2.bind_params({nm: 0.75})
    ctx.oracle_cases += 1
    try:
        v = par_evaluate(a1)
    except PE:
        v = None
    if v != 0.25:
        ctx.fail("free-parameter-shared-by-name",
                 f"Program 1 bound {nm}=0.25; after Program 2 {'created' if variant == 'create' else 'bound'} its own "
                 f"parameter of the same name, Program 1's parameter evaluates to {v}",
                 dict(kind="free_isolation", variant=variant))
        return True
    return False


# =============================================================== B3: param.decompose

TEMPLATES = {"Xgate": 1, "Zgate": 1, "Pgate": 1, "CXgate": 1, "CZgate": 1, "S2gate": 2, "MZgate": 2, "sMZgate": 2,
             "Fouriergate": 0, "DisplacedSqueezed": 4}
TWO = {"CXgate", "CZgate", "S2gate", "MZgate", "sMZgate"}


def consts(sf):
    """values of the holes the generated templates keep symbolic"""
    return {"#pi": float(np.pi), "#hbar": float(sf.hbar)}


def gen_decomp_case(rng):
    u = next(_uid)
    cls = rng.choice(list(TEMPLATES))
    names = [f"c{u}"]
    n = 12
    meas = {m: dy(rng, -8, 8) for m in INFO_MODES}
    free = {names[0]: dy(rng, -8, 8)}
    ps = []
    for _ in range(TEMPLATES[cls]):
        if rng.random() < 0.25:
            ps.append(px.num(dy(rng, -8, 8)))
        else:
            for _try in range(50):
                t = px.gen_expr(rng, rng.randint(0, 2), names, INFO_MODES, p_atom=0.5)
                if px.well_conditioned(t, free, meas, 50) and abs(px.fold(t, free, meas)) > 1e-3:
                    break
            else:
                t = {"m": 0}
            ps.append(t)
    regs = rng.sample([0, 3, 10, 11, 5], 2 if cls in TWO else 1)
    return dict(cls=cls, names=names, n=n, meas=meas, free=free, ps=ps, regs=regs,
                dagger=cls != "DisplacedSqueezed" and rng.random() < 0.4)


def decomp_real(sf, case, numeric=False):
    """returns list of (cls, positions, dagger, [evaluated pars], [walked trees or None])"""
    from strawberryfields import ops
    from strawberryfields.parameters import par_evaluate
    prog = sf.Program(case["n"])
    fobj = {nm: prog.params(nm) for nm in case["names"]}
    q = prog.register
    for m, v in case["meas"].items():
        prog.reg_refs[int(m)].val = np.array([v])
    for nm, v in case["free"].items():
        fobj[nm].val = v
    env_m = {int(k): v for k, v in case["meas"].items()}
    if numeric:
        pars = [px.fold(t, case["free"], env_m) for t in case["ps"]]
    else:
        pars = [px.numval(t) if "n" in t else px.to_sympy(t, fobj, q) for t in case["ps"]]
    op = getattr(ops, case["cls"])(*pars)
    if case["dagger"]:
        op = op.H
    regs = [q[i] for i in case["regs"]]
    cmds = op.decompose(regs)
    out = []
    for c in cmds:
        pos = [case["regs"].index(r.ind) for r in c.reg]
        vals = [float(x) for x in par_evaluate(c.op.p)]
        trees = None
        if not numeric:
            try:
                trees = [px._scalar_json(x) for x in c.op.p]
            except px.Unsupported:
                trees = None
        out.append((type(c.op).__name__, pos, bool(getattr(c.op, "dagger", False)), vals, trees))
    return out


def decomp_one(ctx, sf, case, reqs, pend):
    rp = dict(kind="decomp", case=case)
    nontriv = any("n" not in t for t in case["ps"])
    ctx.count("decomp_" + case["cls"], case, nontriv, sample=case)
    try:
        sym = decomp_real(sf, case)
    except Exception as e:
        ctx.fail("decompose-symbolic-raises", f"{case['cls']} with symbolic arguments: {type(e).__name__}: {e}", rp)
        return
    numc = decomp_real(sf, case, numeric=True)
    ctx.oracle_cases += 1
    same = len(sym) == len(numc) and all(a[:3] == b[:3] and px.close(a[3], b[3]) for a, b in zip(sym, numc))
    if not same:
        ctx.fail("decompose-symbolic-vs-substituted",
                 f"{case['cls']}{'.H' if case['dagger'] else ''}: decomposition of the symbolic gate evaluates to "
                 f"{[(a[0], a[1], a[2], a[3]) for a in sym]} but the substituted gate decomposes to "
                 f"{[(a[0], a[1], a[2], a[3]) for a in numc]}", rp)
    if ctx.proof_ok:
        reqs.append({"op": "param.decompose", "cls": case["cls"], "ps": case["ps"], "dagger": case["dagger"]})
        pend.append(("decomp", case, sym))


def decomp_compare(ctx, sf, case, sym, model):
    ctx.corr_cases += 1
    if model is None or "__error__" in (model if isinstance(model, dict) else {}):
        ctx.disagree("decompose", case, model, "no template")
        return
    env_f = dict(case["free"])
    env_f.update(consts(sf))
    env_m = {int(k): v for k, v in case["meas"].items()}
    shape_m = [(c["cls"], c["regs"], c["dagger"]) for c in model]
    shape_r = [(a[0], a[1], a[2]) for a in sym]
    if shape_m != shape_r:
        ctx.disagree("decompose.shape", case, shape_m, shape_r)
        return
    for c, a in zip(model, sym):
        mv = [px.fold(t, env_f, env_m) for t in c["pars"]]
        if len(mv) != len(a[3]) or not px.close(mv, a[3]):
            ctx.disagree("decompose.pars", case, mv, a[3])
            return


# =============================================================== B3b: param.expand (Compiler.decompose)

PRIMS = {"Dgate": 2, "Sgate": 2, "Rgate": 1, "BSgate": 2}


def gen_expand_case(rng):
    u = next(_uid)
    names = [f"e{u}"]
    meas = {m: dy(rng, -8, 8) for m in INFO_MODES}
    free = {names[0]: dy(rng, -8, 8)}
    cmds = []
    for _ in range(rng.randint(2, 5)):
        cls = rng.choice(list(TEMPLATES) + list(PRIMS))
        npar = TEMPLATES.get(cls, PRIMS.get(cls))
        ps = []
        for _k in range(npar):
            if rng.random() < 0.3:
                ps.append(px.num(dy(rng, -8, 8)))
                continue
            for _try in range(50):
                t = px.gen_expr(rng, rng.randint(0, 2), names, INFO_MODES, p_atom=0.5)
                if px.well_conditioned(t, free, meas, 50) and abs(px.fold(t, free, meas)) > 1e-3:
                    break
            else:
                t = {"m": 10}
            ps.append(t)
        two = cls in TWO or cls == "BSgate"
        cmds.append(dict(cls=cls, pars=ps, regs=rng.sample([0, 3, 5, 10, 11], 2 if two else 1),
                         dagger=cls != "DisplacedSqueezed" and rng.random() < 0.4))
    return dict(n=12, names=names, meas=meas, free=free, cmds=cmds, compiler=rng.choice(["fock", "gaussian", "bosonic"]))


def expand_real(sf, case, numeric):
    from strawberryfields import ops
    from strawberryfields.compilers import compiler_db
    from strawberryfields.parameters import par_evaluate
    prog = sf.Program(case["n"])
    fobj = {nm: prog.params(nm) for nm in case["names"]}
    env_m = {int(k): v for k, v in case["meas"].items()}
    for m, v in env_m.items():
        prog.reg_refs[m].val = np.array([v])
    for nm, v in case["free"].items():
        fobj[nm].val = v
    with prog.context:
        q = prog.reg_refs
        for c in case["cmds"]:
            pars = [px.numval(t) if "n" in t else (float(px.fold(t, case["free"], env_m)) if numeric else px.to_sympy(t, fobj, q))
                    for t in c["pars"]]
            o = getattr(ops, c["cls"])(*pars)
            if c["dagger"]:
                o = o.H
            regs = [q[i] for i in c["regs"]]
            o | (regs if len(regs) > 1 else regs[0])
    comp = compiler_db[case["compiler"]]()
    out = comp.decompose(prog.circuit)
    return [(type(c.op).__name__, [r.ind for r in c.reg], bool(getattr(c.op, "dagger", False)),
             [float(x) for x in par_evaluate(c.op.p)]) for c in out], sorted(comp.decompositions)


def expand_one(ctx, sf, case, reqs, pend):
    from strawberryfields.program_utils import CircuitError
    rp = dict(kind="expand", case=case)
    ctx.count("expand_" + case["compiler"], case, True, sample=case)
    try:
        numc, dec = expand_real(sf, case, True)
    except CircuitError:
        ctx.tally("expand_rejected_by_compiler")
        return
    ctx.oracle_cases += 1
    try:
        sym, dec = expand_real(sf, case, False)
    except Exception as e:
        ctx.fail("compile-symbolic-raises", f"{case['compiler']}.decompose runs on the substituted circuit but raises "
                 f"{type(e).__name__}: {str(e)[:160]} on the symbolic one", rp)
        return
    if len(sym) != len(numc) or not all(a[:3] == b[:3] and px.close(a[3], b[3]) for a, b in zip(sym, numc)):
        ctx.fail("compile-symbolic-vs-substituted", f"{case['compiler']}.decompose: symbolic circuit evaluates to {sym}, "
                 f"substituted circuit decomposes to {numc}", rp)
    if ctx.proof_ok:
        reqs.append({"op": "param.expand", "cmds": case["cmds"], "dec": dec, "fuel": 4})
        pend.append(("expand", case, sym))


def expand_compare(ctx, sf, case, sym, model):
    ctx.corr_cases += 1
    if isinstance(model, dict) and "__error__" in model:
        ctx.disagree("Compiler.decompose", case, model, "driver error")
        return
    env_f = dict(case["free"])
    env_f.update(consts(sf))
    env_m = {int(k): v for k, v in case["meas"].items()}
    shape_m = [(c["cls"], c["regs"], c["dagger"]) for c in model]
    shape_r = [(a[0], a[1], a[2]) for a in sym]
    if shape_m != shape_r:
        ctx.disagree("Compiler.decompose.shape", case, shape_m, shape_r)
        return
    for c, a in zip(model, sym):
        mv = [px.fold(t, env_f, env_m) for t in c["pars"]]
        if len(mv) != len(a[3]) or not px.close(mv, a[3]):
            ctx.disagree("Compiler.decompose.pars", case, mv, a[3])
            return


# =============================================================== B4: param.engine (histories)

USE_OPS = ["Dgate", "Rgate", "Sgate", "Kgate"]


def cv(v):
    """a scripted outcome: a number, or {"re":…, "im":…} for a heterodyne (complex) outcome"""
    return complex(v["re"], v["im"]) if isinstance(v, dict) else v


def gen_history(rng, shots_variant=False):
    """(regenerates until every operation of the history is applied with a real number — a complex gate parameter is
    refused by the operations — and the independent evaluator accepts it, e.g. no arg() on its branch cut)"""
    for _ in range(12):
        h = _gen_history(rng, shots_variant)
        try:
            tr, _err = history_reference(None, h, strict=True)
            return h
        except (px.Unsupported, ValueError, TypeError):
            continue
    return _gen_history(rng, shots_variant, cx=False)


def _gen_history(rng, shots_variant=False, cx=None):
    u = next(_uid)
    n = rng.choice([2, 3, 4, 4, 11, 12])
    modes_all = list(range(n)) if n <= 4 else [0, 1, n - 3, n - 2, n - 1]   # two-digit indices on large registers
    name = f"h{u}"
    free = {name: dy(rng)}
    opt = rng.choice(["compile", "method"]) if (not shots_variant) and rng.random() < 0.35 else False
    cx = ((not shots_variant) and rng.random() < 0.35) if cx is None else cx     # heterodyne (complex) outcomes
    if cx and opt == "compile":
        opt = "method"       # (the fock compiler used for the recording backend refuses MeasureHeterodyne)
    segs, measured, kindm = [], [], {}
    for s in range(rng.randint(1, 4)):
        cmds = []
        for _ in range(rng.randint(1, 4)):
            k = rng.choice(["measure", "measure", "use", "use", "use", "prepare"])
            if shots_variant and s == 0:
                k = rng.choice(["measure", "prepare"])
            if k == "measure":
                modes = rng.sample(modes_all, rng.choice([1, 1, 2]) if n > 1 else 1)
                cmds.append(dict(k="measure", modes=modes, vals=[dy(rng) for _ in modes],
                                 how="homodyne" if len(modes) == 1 and rng.random() < 0.7 else "fock"))
                for m in modes:
                    kindm[m] = "r"
                if cx and len(modes) == 1 and rng.random() < 0.65:
                    cmds[-1].update(how="heterodyne", vals=[{"re": dy(rng), "im": dy(rng)}])
                    kindm[modes[0]] = "c"
                measured += [m for m in modes if m not in measured]
            elif k == "prepare":
                cmds.append(dict(k="prepare", mode=rng.choice(modes_all), how=rng.choice(["Vacuum", "Coherent"])))
            else:
                prev_use = [c for sg in segs + [cmds] for c in sg if c["k"] == "use"]
                if prev_use and rng.random() < 0.3 and not cx:
                    # the same operation (same class, same expression) applied again, elsewhere
                    c0 = rng.choice(prev_use)
                    cmds.append(dict(c0, target=rng.choice(modes_all)))
                    continue
                pool = measured if (measured and rng.random() < 0.88) else modes_all
                cpool = [m for m in pool if kindm.get(m) == "c"]
                rpool = [m for m in pool if kindm.get(m) != "c"]
                if cpool and rng.random() < 0.8:
                    # feed-forward of a complex outcome through re / im / conjugate / Abs / arg
                    t = px.gen_cexpr(rng, rng.randint(0, 2), cpool, [m for m in rpool if m in measured],
                                     [name] if rng.random() < 0.3 else [], real=True)
                    pool = [m for m in rpool if m in measured] or modes_all
                else:
                    pool = rpool or [m for m in modes_all if kindm.get(m) != "c"] or modes_all
                    t = px.gen_expr(rng, rng.randint(0, 2), [name] if rng.random() < 0.3 else [], pool, p_atom=0.5)
                if not px.atoms(t, "m") and (opt or not px.atoms(t, "f")):
                    t = {"add": [t, {"m": rng.choice(pool)}]}
                cmds.append(dict(k="use", e=t, op=rng.choice(USE_OPS), dagger=rng.random() < 0.4,
                                 target=rng.choice(modes_all)))
                if rng.random() < 0.3 and not shots_variant:
                    # array-valued parameter: [e, e2] (an object array of expressions)
                    cmds[-1]["e2"] = px.gen_expr(rng, rng.randint(0, 2), [], pool, p_atom=0.5) if rng.random() < 0.7 \
                        else px.num(dy(rng))
                if measured and rng.random() < 0.25:
                    # a mode just read is measured again right behind (feed-forward must not slip behind it)
                    rd = [m for m in px.atoms(t, "m") if m in measured]
                    if rd:
                        cmds.append(dict(k="measure", modes=[rd[0]], vals=[dy(rng)], how="homodyne"))
                        kindm[rd[0]] = "r"
        segs.append(cmds)
    if shots_variant:
        for c in segs[0]:
            if c["k"] == "measure":
                c["vals"] = [[dy(rng) for _ in range(3)] for _ in c["modes"]]  # per mode: 3 shots
    # registers with holes: delete a mode nobody uses, create a mode late and act on it
    flat = [c for sg in segs for c in sg]
    used = {m for c in flat for m in (c.get("modes", []) + [c.get("mode"), c.get("target")] + (px.atoms(c["e"], "m") if "e" in c else []) + (px.atoms(c["e2"], "m") if "e2" in c else []))}
    idle = [m for m in range(n) if m not in used]
    if idle and not shots_variant and rng.random() < 0.4:
        sg = rng.choice(segs)
        sg.insert(rng.randint(0, len(sg)), dict(k="del", mode=rng.choice(idle)))
    if not shots_variant and rng.random() < 0.3:
        si = rng.randrange(len(segs))
        pos = rng.randint(0, len(segs[si]))
        segs[si].insert(pos, dict(k="new"))
        later = segs[si][pos + 1:] + [c for sg in segs[si + 1:] for c in sg]
        for c in later:
            if c["k"] == "use" and rng.random() < 0.5:
                c["target"] = n          # the new mode has the next free index
    build = rng.choice(["before", "before", "lazy"])
    return dict(n=n, free=free, segs=segs, build=build, shots=3 if shots_variant else 1, opt=opt, cx=cx,
                share=rng.random() < 0.6,
                run=rng.choice(["list", "successive"]) if build == "before" and not shots_variant else "successive",
                decoy=rng.random() < 0.5, rerun=rng.choice([None, None, "fresh", "reset"]) if build == "before" else None,
                premature=build == "before" and rng.random() < 0.35, suffix=rng.random() < 0.4)


def history_reference(sf, h, strict=False):
    """flat semantics: every use sees the latest outcome of its own modes; first missing atom aborts.
    returns (trace of (target, applied first argument), error or None)"""
    latest, trace = {}, []
    for cmds in h["segs"]:
        for c in cmds:
            if c["k"] == "measure":
                for m, v in zip(c["modes"], c["vals"]):
                    latest[m] = np.array(v, dtype=float) if isinstance(v, list) else cv(v)
            elif c["k"] == "use":
                try:
                    v = px.fold(c["e"], h["free"], latest)
                    if "e2" in c:
                        v = [v, px.fold(c["e2"], h["free"], latest)]
                except px.Unbound as ub:
                    return trace, f"{ub.kind}:{ub.what}"
                if strict and np.any(np.abs(np.imag(v)) > 1e-12):
                    raise ValueError("complex gate parameter")
                v = np.asarray(np.real(v), dtype=float)
                trace.append((c["target"], (-v if c["dagger"] else v).tolist()))
    return trace, None


def _fill(sf, prog, cmds, free_name, cache=None):
    """append the commands to `prog`; with `cache` (a dict) equal expressions are ONE SymPy object and equal
    operations ONE Operation instance within the program (users build `g = Dgate(q[0].par)` once)"""
    from strawberryfields import ops
    fobj = {free_name: prog.params(free_name)}
    with prog.context:
        R = prog.reg_refs
        for c in cmds:
            if c["k"] == "measure":
                regs = [R[m] for m in c["modes"]]
                if c["how"] == "homodyne":
                    ops.MeasureHomodyne(0.0) | regs[0]
                elif c["how"] == "heterodyne":
                    ops.MeasureHeterodyne() | regs[0]
                else:
                    ops.MeasureFock() | regs
            elif c["k"] == "prepare":
                (ops.Vacuum() if c["how"] == "Vacuum" else ops.Coherent(0.5, 0.25)) | R[c["mode"]]
            elif c["k"] == "del":
                ops.Del | R[c["mode"]]
            elif c["k"] == "new":
                ops.New(1)
            else:
                ek = json.dumps([c["e"], c.get("e2")], sort_keys=True)
                if cache is not None and ("e", ek) in cache:
                    e = cache[("e", ek)]
                else:
                    e = px.to_sympy(c["e"], fobj, R)
                    if "e2" in c:
                        arr = np.empty(2, dtype=object)
                        arr[0], arr[1] = e, px.to_sympy(c["e2"], fobj, R)
                        e = arr
                    if cache is not None:
                        cache[("e", ek)] = e
                ok = ("o", c["op"], ek)
                if cache is not None and ok in cache:
                    o = cache[ok]
                else:
                    o = getattr(ops, c["op"])(e, 0.0) if c["op"] in ("Dgate", "Sgate") else getattr(ops, c["op"])(e)
                    if cache is not None:
                        cache[ok] = o
                if c["dagger"]:
                    o = o.H
                o | R[c["target"]]


def _outcomes(h, segs=None):
    """scripted outcomes, keyed by the measured modes"""
    out = []
    for cmds in (segs if segs is not None else h["segs"]):
        for c in cmds:
            if c["k"] == "measure":
                v = np.array([cv(x) for x in c["vals"]])
                out.append((tuple(c["modes"]), v.T if v.ndim == 2 else v.reshape(1, -1)))
    return out


def _trace(backend):
    key = {"displacement", "rotation", "squeeze", "kerr"}
    return [(c[1][0], c[2][0]) for c in backend.calls if c[0] in key]


def _same_trace(h, tr, ref):
    """exact order when nothing reorders; per target mode when the optimizer may reorder independent commands"""
    if len(tr) != len(ref):
        return False
    if not h.get("opt"):
        return all(a[0] == b[0] and px.close(a[1], b[1]) for a, b in zip(tr, ref))
    for t in {a[0] for a in tr} | {b[0] for b in ref}:
        x = [a[1] for a in tr if a[0] == t]
        y = [b[1] for b in ref if b[0] == t]
        if len(x) != len(y) or not all(px.close(a, b) for a, b in zip(x, y)):
            return False
    return True


def _run_kw(h):
    if h.get("opt") in (True, "compile"):
        return dict(compile_options=dict(compiler="fock", optimize=True, warn_connected=False))
    return {}


def _opt(h, p):
    """Program.optimize() rebuilds the command order from the dependency graph"""
    if h.get("opt") == "method":
        return [x.optimize() for x in p] if isinstance(p, list) else p.optimize()
    return p


def history_real(sf, h):
    """returns (trace, error string or None, rerun result, suffix result)"""
    PE = perr(sf)
    fname = next(iter(h["free"]))
    progs = []

    def build(k):
        p = sf.Program(h["n"]) if k == 0 else sf.Program(progs[k - 1])
        _fill(sf, p, h["segs"][k], fname, {} if h.get("share") else None)
        progs.append(p)
    if h["build"] == "before":
        for k in range(len(h["segs"])):
            build(k)
    if h["decoy"]:
        d = sf.Program(h["n"])
        with d.context as dq:
            for r in dq:
                r.par  # noqa: B018
        d.reg_refs[0].val = np.array([77.0])
    if h.get("premature") and len(progs) > 1:
        # a first attempt to run the last segment alone (legitimately fails when it needs earlier outcomes)
        b0 = px.make_backend(_outcomes(h, h["segs"][-1:]) * 2)
        try:
            sf.Engine(b0).run(_opt(h, progs[-1]), args=dict(h["free"]), **_run_kw(h))
        except PE:
            pass
        except RuntimeError as e:   # a successor whose register starts with deleted / created modes is refused
            if "Register mismatch" not in str(e):
                raise
        except (ValueError, TypeError) as e:     # run out of context a stale COMPLEX outcome may reach a gate / a real-only
            if not h.get("cx"):                   # function (atan2) that refuses it
                raise

    def attempt(eng, backend):
        try:
            if h["run"] == "list":
                kw = dict(shots=h["shots"]) if h["shots"] > 1 else {}
                eng.run(_opt(h, progs), args=dict(h["free"]), **kw, **_run_kw(h))
            else:
                for k in range(len(h["segs"])):
                    if h["build"] == "lazy" and len(progs) <= k:
                        build(k)
                    kw = dict(shots=h["shots"]) if (h["shots"] > 1 and k == 0) else {}
                    eng.run(_opt(h, progs[k]), args=dict(h["free"]), **kw, **_run_kw(h))
            return None
        except PE as e:
            return "ParameterError"
    backend = px.make_backend(_outcomes(h))
    eng = sf.Engine(backend)
    err = attempt(eng, backend)
    tr = _trace(backend)
    suffix = None
    if h.get("suffix") and err is None and len(h["segs"]) > 1 and h["shots"] == 1:
        # the last segment alone on a fresh engine: its Program's RegRefs still hold the outcomes of the full run
        b3 = px.make_backend(_outcomes(h, h["segs"][-1:]))
        try:
            sf.Engine(b3).run(_opt(h, progs[-1]), args=dict(h["free"]), **_run_kw(h))
            suffix = (_trace(b3), None)
        except PE:
            suffix = (_trace(b3), "ParameterError")
        except RuntimeError as e:
            if "Register mismatch" not in str(e):
                raise
        except (ValueError, TypeError) as e:
            if not h.get("cx"):
                raise
    if h.get("rerun") and h["build"] == "before":
        # the same programs again: their RegRefs still hold the values of the first run
        if h["rerun"] == "fresh":
            backend2 = px.make_backend(_outcomes(h))
            eng2 = sf.Engine(backend2)
        else:
            eng.reset()
            backend.calls.clear()
            backend.outcomes = _outcomes(h)
            backend2, eng2 = backend, eng
        err2 = attempt(eng2, backend2)
        tr2 = _trace(backend2)
        return tr, err, (tr2, err2), suffix
    return tr, err, None, suffix


def final_latest(h):
    latest = {}
    for cmds in h["segs"]:
        for c in cmds:
            if c["k"] == "measure":
                latest.update(dict(zip(c["modes"], [cv(v) for v in c["vals"]])))
    return latest


def history_model_req(sf, h, own0=None):
    segs = []
    sc = {}
    for cmds in h["segs"]:
        ms = []
        for c in cmds:
            if c["k"] == "measure":
                ms.append({"measure": c["modes"], "vals": [px.val_tree(cv(v)) for v in c["vals"]]})
            elif c["k"] == "prepare":
                ms.append({"prepare": c["mode"]})
            elif c["k"] in ("del", "new"):
                ms.append({"prepare": c.get("mode", 0)})   # register bookkeeping does not touch RegRef.val
            else:
                es = [({"neg": e} if c["dagger"] else e) for e in [c["e"]] + ([c["e2"]] if "e2" in c else [])]
                ms.append({"useArr": es} if "e2" in c else {"use": es[0]})
        segs.append(ms)
    return {"op": "param.engine", "free": [[k, rat(v)] for k, v in h["free"].items()], "segs": segs,
            "query": list(range(h["n"])), "own0": [[m, px.val_tree(v)] for m, v in (own0 or {}).items()]}


def canon_tree(sf, t, n, names):
    """the tree SymPy actually stores for `t` (automatic simplification may cancel atoms)"""
    import sympy
    prog = sf.Program(n)
    fobj = {nm: prog.params(nm) for nm in names}
    try:
        obj = px.to_sympy(t, fobj, prog.register)
        return px.from_sympy(obj) if isinstance(obj, sympy.Basic) else px.num(obj)
    except px.Unsupported:
        return t


def _is_zero(t):
    return not px.atoms(t, "m") and not px.atoms(t, "f") and px.fold(t) == 0


def _conditioned(h):
    dummy = complex(0.75, 0.5) if h.get("cx") else 1.0
    return all(px.well_conditioned(t, h["free"], {m: dummy for m in range(h["n"] + 1)}, 1e4, cplx=True) for t in _use_trees(h))


def _use_trees(h):
    return [t for cmds in h["segs"] for c in cmds if c["k"] == "use" for t in [c["e"]] + ([c["e2"]] if "e2" in c else [])]


def history_one(ctx, sf, h, reqs, pend):
    h = copy.deepcopy(h)
    for cmds in h["segs"]:
        for c in cmds:
            if c["k"] == "use":
                c["e"] = canon_tree(sf, c["e"], h["n"], list(h["free"]))
                if "e2" in c:
                    c["e2"] = canon_tree(sf, c["e2"], h["n"], list(h["free"]))
        # a gate whose stored first parameter is the number 0 is the identity and is not sent to the backend
        cmds[:] = [c for c in cmds if not (c["k"] == "use" and _is_zero(c["e"]) and ("e2" not in c or _is_zero(c["e2"])))]
    rp = dict(kind="history", case=h)
    ref_tr, ref_err = history_reference(sf, h)
    conditioned = _conditioned(h)
    ctx.count("history_%dseg_%s_%s%s" % (len(h["segs"]), h["build"], h["run"], "_opt" + str(h["opt"]) if h.get("opt") else ""),
              h, True, sample=h)
    if h.get("cx"):
        ctx.tally("history_heterodyne")
    try:
        tr, err, again, suffix = history_real(sf, h)
    except Exception as e:
        ctx.oracle_cases += 1
        ctx.fail("history-crash", f"running the segments raises {type(e).__name__}: {str(e)[:200]} "
                 f"(expected {'ParameterError' if ref_err else 'a normal run'})", rp)
        return
    ctx.oracle_cases += 1
    ctx.tally("history_err_expected" if ref_err else "history_ok_expected")

    def judge(tr, err, label, ref_tr=ref_tr, ref_err=ref_err):
        if ref_err and err is None:
            ctx.fail("measured-parameter-used-before-measurement" + label,
                     f"expected ParameterError ({ref_err}) but the run completed; applied values {tr}", rp)
            return False
        if not ref_err and err is not None:
            ctx.fail("measured-parameter-not-available" + label,
                     f"every parameter had been measured/bound, but the run raised {err}; applied so far {tr}", rp)
            return False
        # (when the optimizer may reorder, the commands applied before an error are not determined)
        if conditioned and not (h.get("opt") and ref_err) and not _same_trace(h, tr, ref_tr):
            ctx.fail("measured-parameter-wrong-value" + label,
                     f"operations were applied with {tr}, the latest outcomes of their own modes give {ref_tr}", rp)
            return False
        return True
    ok = judge(tr, err, "")
    if ok and again is not None:
        judge(again[0], again[1], "-on-rerun")
    if ok and suffix is not None:
        s_tr, s_err = history_reference(sf, dict(h, segs=h["segs"][-1:]))
        judge(suffix[0], suffix[1], "-last-segment-on-fresh-engine", s_tr, s_err)
    if ctx.proof_ok and h["shots"] == 1:
        reqs.append(history_model_req(sf, h))
        pend.append(("history", h, dict(trace=tr, err=err, cond=conditioned)))
        if suffix is not None:
            # the model follows the code here: the first Program of a computation runs with what its RegRefs hold
            reqs.append(history_model_req(sf, dict(h, segs=h["segs"][-1:]), own0=final_latest(h)))
            pend.append(("history", dict(h, suffix_only=True), dict(trace=suffix[0], err=suffix[1], cond=conditioned)))


def history_compare(ctx, h, got, model):
    ctx.corr_cases += 1
    if "__error__" in model:
        ctx.disagree("param.engine", h, model, "driver error")
        return
    merr = None if model["err"] is None else "ParameterError"
    if merr != got["err"]:
        ctx.disagree("engine.error", h, model["err"], got["err"])
        return
    if got["cond"]:
        try:
            mt = [float(np.real(px.fold(t))) for t in model["trace"]]
        except px.Unsupported:
            ctx.tally("history_model_trace_refused")     # arg() on its branch cut
            return
        rt = [float(np.real(x)) for a in got["trace"] for x in np.ravel(a[1])]
        if h.get("opt"):
            # the optimizer may reorder independent commands; the model runs the written order
            if got["err"]:
                return
            mt, rt = sorted(mt), sorted(float(x) for x in rt)
        if len(mt) != len(rt) or not all(px.close(a, b) for a, b in zip(mt, rt)):
            ctx.disagree("engine.trace", h, mt, rt)


# =============================================================== B5: param.session (calls, failed calls, reset)

def gen_session(rng):
    h = gen_history(rng)
    for sg in h["segs"]:
        sg[:] = [c for c in sg if c["k"] not in ("del", "new")]
        for c in sg:
            if c.get("target", 0) >= h["n"]:
                c["target"] = 0
    h["segs"] = [sg for sg in h["segs"] if sg] or [[dict(k="prepare", mode=0, how="Vacuum")]]
    h.update(opt=False, shots=1, rerun=None, premature=False, suffix=False)
    if len(h["segs"]) >= 2 and rng.random() < 0.5:
        # a segment that measures and THEN fails, followed by a segment that reads the mode measured there
        i = rng.randrange(len(h["segs"]) - 1)
        m = rng.randrange(h["n"])
        never = [k for k in range(h["n"]) if k != m and not any(k in c.get("modes", []) for sg in h["segs"] for c in sg)]
        if never:
            if rng.random() < 0.6:
                h["segs"][max(i - 1, 0)].insert(0, dict(k="measure", modes=[m], vals=[dy(rng)], how="homodyne"))
            h["segs"][i].insert(0, dict(k="measure", modes=[m], vals=[dy(rng)], how="homodyne"))
            h["segs"][i].append(dict(k="use", e={"m": never[0]}, op="Rgate", dagger=False, target=0))
            h["segs"][i + 1].insert(0, dict(k="use", e={"mul": [px.num(2), {"m": m}]}, op="Dgate", dagger=False, target=0))
    # how the segments are grouped into eng.run calls, and where eng.reset() is called
    calls, k = [], 0
    while k < len(h["segs"]):
        g = rng.randint(1, 2) if h["build"] == "before" else 1
        calls.append(list(range(k, min(k + g, len(h["segs"])))))
        k += g
    h["calls"] = calls
    h["resets"] = [i for i in range(1, len(calls)) if rng.random() < 0.15]
    return h


def session_real(sf, h):
    """every call is made, also after a ParameterError; returns [(event for the model, trace, err)]"""
    PE = perr(sf)
    fname = next(iter(h["free"]))
    progs = []

    def build(k):
        p = sf.Program(h["n"]) if k == 0 else sf.Program(progs[k - 1])
        _fill(sf, p, h["segs"][k], fname, {} if h.get("share") else None)
        progs.append(p)
    if h["build"] == "before":
        for k in range(len(h["segs"])):
            build(k)
    backend = px.make_backend([])
    eng = sf.Engine(backend)
    out = []
    for ci, call in enumerate(h["calls"]):
        if ci in h["resets"]:
            eng.reset()
            out.append(({"reset": True}, None, None))
        for k in call:
            if len(progs) <= k:
                build(k)
        ps = [progs[k] for k in call]
        segs = []
        for p, k in zip(ps, call):
            own = [[int(i), px.val_tree(np.squeeze(r.val).item())] for i, r in p.reg_refs.items()
                   if r.val is not None and np.size(r.val) == 1]
            segs.append({"own": own, "cmds": history_model_req(sf, dict(h, segs=[h["segs"][k]]))["segs"][0]})
        backend.calls.clear()
        backend.outcomes = _outcomes(h, [h["segs"][k] for k in call])
        try:
            eng.run(ps if len(ps) > 1 else ps[0], args=dict(h["free"]))
            err = None
        except PE:
            err = "ParameterError"
        except RuntimeError as e:
            if "Register mismatch" not in str(e):
                raise
            return out   # a refused call ends the comparison (register bookkeeping is not this model's subject)
        except (ValueError, TypeError) as e:
            # after a rolled-back segment an older COMPLEX outcome can be handed to a gate / a real-only function that
            # refuses complex arguments: legitimate, ends the comparison
            if not h.get("cx"):
                raise
            return out
        out.append(({"run": segs}, [(complex(x) if np.imag(x) != 0 else float(np.real(x)))
                                     for a in _trace(backend) for x in np.ravel(a[1])], err))
    return out


def session_one(ctx, sf, h, reqs, pend):
    h = copy.deepcopy(h)
    for cmds in h["segs"]:
        for c in cmds:
            if c["k"] == "use":
                c["e"] = canon_tree(sf, c["e"], h["n"], list(h["free"]))
                if "e2" in c:
                    c["e2"] = canon_tree(sf, c["e2"], h["n"], list(h["free"]))
        cmds[:] = [c for c in cmds if not (c["k"] == "use" and _is_zero(c["e"]) and ("e2" not in c or _is_zero(c["e2"])))]
    ctx.count("session_%dcalls" % len(h["calls"]), h, True)
    try:
        res = session_real(sf, h)
    except Exception as e:
        ctx.fail("session-crash", f"a session of eng.run calls raises {type(e).__name__}: {str(e)[:200]}",
                 dict(kind="session", case=h))
        return
    conditioned = _conditioned(h)
    if ctx.proof_ok and res:
        reqs.append({"op": "param.session", "free": [[k, rat(v)] for k, v in h["free"].items()],
                     "events": [r[0] for r in res]})
        pend.append(("session", h, dict(res=[(r[1], r[2]) for r in res if r[1] is not None], cond=conditioned)))
        ctx.tally("session_with_failed_call" if any(r[2] for r in res) else "session_all_ok")


def session_compare(ctx, h, got, model):
    ctx.corr_cases += 1
    if isinstance(model, dict) and "__error__" in model:
        ctx.disagree("param.session", h, model, "driver error")
        return
    if len(model) != len(got["res"]):
        ctx.disagree("session.calls", h, len(model), len(got["res"]))
        return
    for i, (m, (tr, err)) in enumerate(zip(model, got["res"])):
        merr = None if m["err"] is None else "ParameterError"
        if merr != err:
            ctx.disagree("session.error", dict(h, call=i), m["err"], err)
            return
        if got["cond"]:
            try:
                mt = [px.fold(t) for t in m["trace"]]
            except px.Unsupported:
                ctx.tally("session_model_trace_refused")
                return
            if len(mt) != len(tr) or not all(px.close(a, b) for a, b in zip(mt, tr)):
                ctx.disagree("session.trace", dict(h, call=i), mt, tr)
                return


# =============================================================== B6: param.convert (par_convert)

CONV_MODES = [0, 1, 2, 9, 10, 11, 12, 20, 23]


def gen_convert_case(rng):
    u = next(_uid)
    names = [f"alpha{u}", f"w{u}"]
    t = px.gen_expr(rng, rng.randint(1, 3), names + [f"q{m}" for m in rng.sample(CONV_MODES, 3)], [], p_atom=0.4)
    meas = {m: dy(rng) for m in CONV_MODES}
    free = {nm: dy(rng) for nm in names}
    return dict(n=24, names=names, e=t, meas=meas, free=free, rrt=rng.random() < 0.3)


def convert_one(ctx, sf, case, reqs, pend):
    import sympy
    import blackbird
    from strawberryfields.parameters import par_convert, par_evaluate, par_regref_deps, MeasuredParameter, FreeParameter
    rp = dict(kind="convert", case=case)
    syms = {}

    class Plain(dict):
        def __missing__(self, k):
            self[k] = sympy.Symbol(k)
            return self[k]
    bb = px.to_sympy(case["e"], Plain(), None)
    if not isinstance(bb, sympy.Basic):
        return
    try:
        walked_in = px.from_sympy(bb)
    except px.Unsupported:
        ctx.tally("convert_unsupported_sympy_node")
        return
    prog = sf.Program(case["n"])
    ctx.count("convert", case, True, sample=case)
    ctx.oracle_cases += 1
    try:
        arg = blackbird.RegRefTransform(bb) if case["rrt"] and all(str(x).startswith("q") for x in bb.free_symbols) \
            and bb.free_symbols else bb
        out = par_convert([arg, 0.375], prog)
    except Exception as e:
        ctx.fail("par-convert-raises", f"par_convert raises {type(e).__name__}: {str(e)[:160]} on {bb}", rp)
        return
    conv = out[0]
    if out[1] != 0.375:
        ctx.fail("par-convert-number", f"a numeric argument came back as {out[1]}", rp)
    names_in = set(px.atoms(walked_in, "f"))
    want_m = sorted({int(nm[1:]) for nm in names_in if nm[0] == "q"})
    want_f = sorted(nm for nm in names_in if nm[0] != "q")
    try:
        walked_out = px.from_sympy(conv) if isinstance(conv, sympy.Basic) else px.num(conv)
    except px.Unsupported:
        ctx.tally("convert_unsupported_sympy_node")
        return
    got_m, got_f = sorted(set(px.atoms(walked_out, "m"))), sorted(set(px.atoms(walked_out, "f")))
    own = isinstance(conv, sympy.Basic) and all(prog.reg_refs[r.ind] is r for r in par_regref_deps(conv)) and \
        all(prog.free_params.get(a.name) is a for a in conv.atoms(FreeParameter))
    if got_m != want_m or got_f != want_f or not own:
        ctx.fail("par-convert-atoms", f"{bb} was converted to {conv}: measured subsystems {got_m} (expected {want_m}), "
                 f"free parameters {got_f} (expected {want_f}), atoms belong to the program: {own}", rp)
        return
    env_f = dict(case["free"])
    env_f.update({f"q{m}": v for m, v in case["meas"].items()})
    if px.well_conditioned(walked_in, env_f, {}):
        for m, v in case["meas"].items():
            prog.reg_refs[int(m)].val = np.array([v])
        prog.bind_params({k: v for k, v in case["free"].items() if k in prog.free_params})
        try:
            val = par_evaluate(conv)
            if not px.close(px.fold(walked_in, env_f, {}), val):
                ctx.fail("par-convert-value", f"{bb} converted to {conv}: value {val}, expected "
                         f"{px.fold(walked_in, env_f, {})}", rp)
        except Exception as e:
            ctx.fail("par-convert-value", f"converted parameter does not evaluate: {type(e).__name__}: {e}", rp)
    if ctx.proof_ok:
        reqs.append({"op": "param.convert", "e": walked_in})
        pend.append(("convert", case, dict(m=got_m, f=got_f, out=walked_out,
                                          env_f=case["free"], env_m={int(k): v for k, v in case["meas"].items()})))


def convert_compare(ctx, case, got, model):
    ctx.corr_cases += 1
    if model is None or (isinstance(model, dict) and "__error__" in model):
        ctx.disagree("par_convert", case, model, "converted")
        return
    if sorted(set(px.atoms(model, "m"))) != got["m"] or sorted(set(px.atoms(model, "f"))) != got["f"]:
        ctx.disagree("par_convert.atoms", case, [sorted(set(px.atoms(model, "m"))), sorted(set(px.atoms(model, "f")))],
                     [got["m"], got["f"]])
        return
    if px.well_conditioned(model, got["env_f"], got["env_m"]) and \
            not px.close(px.fold(model, got["env_f"], got["env_m"]), px.fold(got["out"], got["env_f"], got["env_m"])):
        ctx.disagree("par_convert.value", case, px.fold(model, got["env_f"], got["env_m"]),
                     px.fold(got["out"], got["env_f"], got["env_m"]))


# =============================================================== O2: independence of the order programs are built in

def cache_order_oracle(ctx, sf, rng):
    """many programs with equal-looking expressions (q10**2, 2*q10, …) built in one process, in random order,
    with SymPy's caches cleared or not in between and some programs deleted: every program keeps ITS RegRefs and
    is applied with ITS outcomes"""
    import gc
    from sympy.core.cache import clear_cache
    from sympy.core.symbol import Symbol
    from strawberryfields import ops
    from strawberryfields.parameters import par_regref_deps, par_funcs as pf
    forms = {0: lambda a, b: a ** 2, 1: lambda a, b: 2 * a, 2: lambda a, b: pf.sin(a) + 1, 3: lambda a, b: a,
             4: lambda a, b: a * b, 5: lambda a, b: a - b}
    ref = {0: lambda a, b: a ** 2, 1: lambda a, b: 2 * a, 2: lambda a, b: np.sin(a) + 1, 3: lambda a, b: a,
           4: lambda a, b: a * b, 5: lambda a, b: a - b}
    script = []
    live = []
    ctx.oracle_cases += 1
    ctx.count("cache_order", None, True)
    try:
        for it in range(rng.randint(6, 14)):
            f = rng.randrange(6)
            act = rng.choice(["none", "none", "clear", "symcache", "drop"])
            script.append((f, act))
            p = sf.Program(12)
            with p.context as q:
                ops.MeasureHomodyne(0.0) | q[10]
                ops.MeasureHomodyne(0.0) | q[1]
                ops.Dgate(forms[f](q[10].par, q[1].par), 0.0) | q[11]
            live.append((p, f, dy(rng), dy(rng)))
            if act == "clear":
                clear_cache()
            elif act == "symcache":
                c = getattr(Symbol, "_Symbol__xnew_cached_", None)
                if c is not None and hasattr(c, "cache_clear"):
                    c.cache_clear()
            elif act == "drop" and len(live) > 1:
                del live[rng.randrange(len(live) - 1)]
                gc.collect()
        rng.shuffle(live)
        for p, f, a, b in live:
            e = p.circuit[2].op.p[0]
            if any(p.reg_refs[r.ind] is not r for r in par_regref_deps(e)) or \
                    any(p.reg_refs[r.ind] is not r for r in p.circuit[2].op.measurement_deps):
                ctx.fail("cache-order-foreign-regref", f"after building programs {script} a parameter refers to the "
                         f"RegRef of another program", dict(kind="cache_order", seed=None))
                return
            be = px.make_backend([((10,), [[a]]), ((1,), [[b]])])
            sf.Engine(be).run(p)
            got = [c[2][0] for c in be.calls if c[0] == "displacement"]
            want = ref[f](a, b)
            if not ((want == 0 and got == []) or (len(got) == 1 and px.close(got[0], want))):
                ctx.fail("cache-order-wrong-value", f"after building programs {script}: applied {got}, own outcomes "
                         f"give {want}", dict(kind="cache_order", seed=None))
                return
    except Exception as e:
        ctx.fail("cache-order-raises", f"building/running equal-looking programs {script} raises "
                 f"{type(e).__name__}: {str(e)[:200]}", dict(kind="cache_order", seed=None))


# =============================================================== O1: symbolic vs substituted programs

G1 = {"Dgate": 2, "Xgate": 1, "Zgate": 1, "Rgate": 1, "Sgate": 2, "Pgate": 1}
G2 = {"BSgate": 2, "S2gate": 2, "CXgate": 1, "CZgate": 1, "MZgate": 2}
PREP = {"Coherent": 2, "Squeezed": 2, "DisplacedSqueezed": 4}
SQUEEZY = {"Sgate", "S2gate", "Squeezed", "Pgate", "CXgate", "CZgate"}


def gen_prog(rng, allow_meas=True, nmax=4):
    u = next(_uid)
    n = rng.choice([2, 3, 4, 4, 11]) if nmax >= 4 else rng.randint(2, nmax)
    modes_all = list(range(n)) if n <= 4 else [0, 1, 9, 10]     # two-digit subsystem indices
    names = [f"p{u}", f"r{u}"]
    free = {nm: dy(rng, -8, 8) for nm in names}
    ops, latest = [], {}
    L = rng.randint(3, 8)
    for i in range(L):
        k = rng.choice(["g1", "g1", "g1", "g2", "g2", "prep", "meas", "meas", "hd", "fourier", "loss"])
        if k in ("meas", "hd") and not allow_meas:
            k = "g1"
        if k == "hd":
            # heterodyne measurement: a COMPLEX outcome (post-selected), fed forward through re / im / conjugate / Abs / arg
            m = rng.choice(modes_all)
            c = complex(dy(rng, -8, 8), dy(rng, -8, 8))
            ops.append(dict(cls="MeasureHeterodyne", regs=[m], pars=[], select={"re": c.real, "im": c.imag}))
            latest[m] = c
            continue
        if k == "meas":
            m = rng.choice(modes_all)
            v = dy(rng, -8, 8)
            ops.append(dict(cls="MeasureHomodyne", regs=[m], pars=[px.num(rng.choice([0.0, 0.0, 0.5]))], select=v))
            latest[m] = v
            continue
        if k == "fourier":
            ops.append(dict(cls="Fouriergate", regs=[rng.choice(modes_all)], pars=[], dagger=rng.random() < 0.3))
            continue
        if k == "loss":
            ops.append(dict(cls="LossChannel", regs=[rng.choice(modes_all)], pars=[px.num(rng.choice([0.5, 0.75, 0.25]))]))
            continue
        table = {"g1": G1, "g2": G2, "prep": PREP}[k]
        cls = rng.choice(list(table))
        regs = rng.sample(modes_all, 2) if k == "g2" else [rng.choice(modes_all)]
        lim = 0.6 if cls in SQUEEZY else 1.5
        pars = []
        for j in range(table[cls]):
            first = j == 0 or (cls in ("MZgate",) and j == 1) or (cls == "DisplacedSqueezed" and j == 2)
            if not first or rng.random() < 0.3:
                pars.append(px.num(dy(rng, -4, 4, 8, nonzero=first) if not (cls in PREP and j in (0, 2))
                                   else abs(dy(rng, -4, 4, 8))))
                continue
            cm = [m for m, v in latest.items() if isinstance(v, complex)]
            rm = [m for m, v in latest.items() if not isinstance(v, complex)]
            for _try in range(60):
                if cm and rng.random() < 0.75:
                    t = px.gen_cexpr(rng, rng.randint(0, 2), cm, rm, names, real=True)
                else:
                    t = px.gen_expr(rng, rng.randint(0, 3), names, rm, p_atom=0.45)
                if not (px.atoms(t, "f") or px.atoms(t, "m")):
                    continue
                if px.well_conditioned(t, free, latest, 100, cplx=True):
                    v = px.fold(t, free, latest)
                    if abs(np.imag(v)) > 1e-12:
                        continue
                    v = float(np.real(v))
                    if 1e-3 < abs(v) <= lim and not (cls in PREP and v < 0):
                        break
            else:
                t = {"mul": [px.num(0.25), {"fn": "sin", "a": [{"f": names[0]}]}]}
                if cls in PREP:
                    t = {"fn": "Abs", "a": [t]}
            pars.append(t)
        op = dict(cls=cls, regs=regs, pars=pars)
        if k != "prep" and rng.random() < 0.3:
            op["dagger"] = True
        ops.append(op)
        if k in ("g1", "prep") and rng.random() < 0.3:
            # merge bait: a second operation of the same family on the same wire, right behind
            twin = copy.deepcopy(op)
            other = [o for o in ops[:-1] if o["cls"] == cls and len(o["pars"]) == len(pars)]
            if other and rng.random() < 0.6:
                twin["pars"] = [copy.deepcopy(other[-1]["pars"][0])] + twin["pars"][1:]
                ok = all(px.well_conditioned(t, free, latest, 100) and abs(px.fold(t, free, latest)) > 1e-3
                         for t in twin["pars"][:1])
                if not ok:
                    twin["pars"] = copy.deepcopy(op["pars"])
            if k != "prep":
                twin["dagger"] = rng.random() < 0.3
            ops.append(twin)
        rd = [m for t in pars for m in px.atoms(t, "m")]
        if rd and rng.random() < 0.35:
            # the mode whose outcome was just used is measured again (another outcome): the feed-forward operation
            # must not be moved behind this measurement by any compiler / optimizer
            v2 = dy(rng, -8, 8)
            ops.append(dict(cls="MeasureHomodyne", regs=[rd[0]], pars=[px.num(0.0)], select=v2))
            latest[rd[0]] = v2
    return dict(n=n, names=names, free=free, ops=ops)


def build_prog(sf, spec, numeric, cut=None, jitter=0.0, share=False):
    """returns the list of Programs (one, or two when `cut` splits the op list into segments)"""
    from strawberryfields import ops as O
    progs = []
    pieces = [spec["ops"]] if cut is None else [spec["ops"][:cut], spec["ops"][cut:]]
    latest = {}
    for k, piece in enumerate(pieces):
        prog = sf.Program(spec["n"]) if k == 0 else sf.Program(progs[-1])
        fobj = {nm: prog.params(nm) for nm in spec["names"]} if not numeric else {}
        cache = {}
        with prog.context:
            q = prog.reg_refs
            for op in piece:
                pars = []
                for t in op["pars"]:
                    if "n" in t:
                        pars.append(px.numval(t))
                    elif numeric:
                        pars.append(float(np.real(px.fold(t, spec["free"], latest))) * (1 + jitter))
                    else:
                        pars.append(px.to_sympy(t, fobj, q))
                kw = {}
                if op.get("select") is not None:
                    sel = op["select"]
                    sel = complex(sel["re"], sel["im"]) if isinstance(sel, dict) else sel
                    kw["select"] = sel
                    latest[op["regs"][0]] = sel
                key = json.dumps([op["cls"], op["pars"], str(kw), [str(latest.get(m)) for t in op["pars"] for m in px.atoms(t, "m")]],
                                 sort_keys=True)
                if share and key in cache:
                    o = cache[key]       # the user built this operation once and applies it again
                else:
                    o = getattr(O, op["cls"])(*pars, **kw)
                    cache[key] = o
                if op.get("dagger"):
                    o = o.H
                regs = [q[i] for i in op["regs"]]
                o | (regs if len(regs) > 1 else regs[0])
        progs.append(prog)
    return progs


def state_vec(state, backend):
    if backend == "fock":
        return np.asarray(state.dm() if not state.is_pure else np.outer(state.ket().ravel(), state.ket().ravel().conj())).ravel()
    if backend == "bosonic":
        return np.concatenate([np.ravel(state.weights()), np.ravel(state.means()), np.ravel(state.covs())])
    return np.concatenate([np.ravel(state.means()), np.ravel(state.cov())])


def applied(eng):
    out = []
    for p in eng.run_progs:
        for c in p.circuit:
            out.append((type(c.op).__name__, tuple(r.ind for r in c.reg), bool(getattr(c.op, "dagger", False))))
    return out


def prog_one(ctx, sf, spec, cfg):
    """cfg: backend, compiler, optimize ('no' | 'compile' | 'method'), cut, prebind, decoy"""
    PE = perr(sf)
    rp = dict(kind="prog", case=spec, cfg=cfg)
    has_sym = any("n" not in t for op in spec["ops"] for t in op["pars"])
    ctx.count("prog_%s_%s_%s%s" % (cfg["backend"], cfg["compiler"], cfg["optimize"], "_cut" if cfg.get("cut") else ""),
              dict(s=spec, c=cfg), has_sym, sample=spec)
    bo = {"cutoff_dim": 6} if cfg["backend"] == "fock" else {}

    def run(progs, args):
        eng = sf.Engine(cfg["backend"], backend_options=bo)
        if cfg["optimize"] == "method":
            progs = [p.optimize() for p in progs]
        co = {}
        if cfg["compiler"]:
            co["compiler"] = cfg["compiler"]
        if cfg["optimize"] == "compile":
            co["optimize"] = True
        kw = dict(args=args) if args else {}
        res = eng.run(progs if len(progs) > 1 else progs[0], compile_options=co or None, **kw)
        return state_vec(res.state, cfg["backend"]), applied(eng)
    if any(op["cls"] == "MeasureHeterodyne" for op in spec["ops"]):
        cfn = any(f'"{f}"' in json.dumps(op["pars"]) for op in spec["ops"] for f in ("re", "im", "conjugate", "arg", "Abs"))
        ctx.tally("prog_heterodyne_feedforward" if cfn else "prog_heterodyne")
    num_progs = build_prog(sf, spec, True)
    try:
        ref, ref_applied = run(num_progs, None)
    except Exception as e:
        ctx.tally("prog_numeric_twin_rejected:" + type(e).__name__)
        return
    sym_progs = build_prog(sf, spec, False, cfg.get("cut"), share=cfg.get("share", False))
    if cfg.get("decoy"):
        d = sf.Program(spec["n"])
        with d.context as dq:
            for r in dq:
                r.par  # noqa: B018
    ctx.oracle_cases += 1
    args = dict(spec["free"])
    try:
        if cfg.get("prebind"):
            for p in sym_progs:
                p.bind_params(args)
            got, got_applied = run(sym_progs, None)
        else:
            got, got_applied = run(sym_progs, args)
    except Exception as e:
        sig = "symbolic-program-raises"
        ctx.fail(sig, f"the substituted program runs, the symbolic one raises "
                 f"{type(e).__name__}: {str(e)[:200]} [{cfg}]", rp)
        return
    # the finite-squeezing homodyne projection of the simulators has condition number ~1e7: rounding differences of
    # the parameters (1e-16) surface as ~1e-8 in the conditional state; without measurements 1e-14 is observed
    has_meas = any(op["cls"] in ("MeasureHomodyne", "MeasureHeterodyne") for op in spec["ops"])
    tol = (1e-6 if (cfg["backend"] == "fock" or has_meas) else 1e-8) * max(1.0, float(np.max(np.abs(ref))))
    if got.shape != ref.shape:
        ctx.fail("symbolic-vs-substituted-state", f"final states have different shapes [{cfg}]", rp)
        return
    d = float(np.max(np.abs(got - ref)))
    if d > tol:
        ctx.fail("symbolic-vs-substituted-state", f"final states differ by {d} [{cfg}]", rp)
        return
    if cfg["optimize"] == "no" and got_applied != ref_applied:
        ctx.fail("symbolic-vs-substituted-applied", f"applied command lists differ: {got_applied} vs {ref_applied} [{cfg}]", rp)
        return
    # unbound and unknown parameters must raise ParameterError
    frees_used = any(px.atoms(t, "f") for op in spec["ops"] for t in op["pars"])
    if frees_used and not cfg.get("prebind") and cfg.get("neg") and cfg["optimize"] == "no":
        # (an optimizer may legitimately drop an operation, e.g. a preparation overwritten by the next one)
        fresh = build_prog(sf, spec, False, cfg.get("cut"))
        for p in fresh:   # equally named parameters are shared objects: make sure nothing is left bound
            for fp in p.free_params.values():
                fp.val = None
        ctx.oracle_cases += 1
        stored_free = False
        for p in fresh:
            for c in p.circuit:
                for x in c.op.p:
                    try:
                        stored_free |= any(px.atoms(s["sym"], "f") for s in [px._scalar_json(x)] if "sym" in s)
                    except px.Unsupported:
                        pass
        try:
            run(fresh, None)
            if stored_free:
                ctx.fail("unbound-free-parameter-runs", "program with unbound free parameters ran without ParameterError", rp)
        except PE:
            pass
        except Exception as e:
            ctx.fail("unbound-free-parameter-other-exception", f"{type(e).__name__}: {str(e)[:160]}", rp)
        try:
            run(build_prog(sf, spec, False, cfg.get("cut")), dict(args, **{"nosuch%d" % next(_uid): 1.0}))
            ctx.fail("unknown-parameter-accepted", "binding an unknown parameter name did not raise ParameterError", rp)
        except PE:
            pass
        except Exception as e:
            ctx.fail("unknown-parameter-other-exception", f"{type(e).__name__}: {str(e)[:160]}", rp)


def gen_cfg(rng, spec, k):
    has_meas = any(op["cls"] in ("MeasureHomodyne", "MeasureHeterodyne") for op in spec["ops"])
    backend = "gaussian"
    compiler = rng.choice([None, "gaussian", "gaussian"])
    r = rng.random()
    has_hd = any(op["cls"] == "MeasureHeterodyne" for op in spec["ops"])
    if has_hd:
        r = 0.05 if r < 0.35 else 0.9      # heterodyne: Gaussian and bosonic backends only
    if r < 0.12:
        backend, compiler = "bosonic", rng.choice([None, "bosonic"])
    elif r < 0.2 and spec["n"] <= 2:
        backend, compiler = "fock", rng.choice([None, "fock"])
    elif r < 0.3 and not has_meas:
        compiler = "gaussian_unitary"
    # no segmentation on the bosonic backend: it re-initialises the simulator for every segment (C09 finding)
    cut = rng.randint(1, len(spec["ops"]) - 1) if (rng.random() < 0.4 and compiler != "gaussian_unitary"
                                                    and backend != "bosonic") else None
    opt = rng.choice(["no", "no", "compile", "method"]) if backend != "fock" else "no"
    if compiler == "gaussian_unitary":
        opt = "no"
    return dict(backend=backend, compiler=compiler, optimize=opt, cut=cut,
                prebind=compiler == "gaussian_unitary" or rng.random() < 0.15, decoy=rng.random() < 0.4, neg=k % 4 == 0,
                share=rng.random() < 0.5)


# =============================================================== driver

def flush(ctx, sf, reqs, pend):
    if not reqs:
        return
    res = ctx.lean(reqs)
    for (kind, case, got), model in zip(pend, res):
        if kind == "info":
            info_compare(ctx, case, got, model)
        elif kind == "free":
            ctx.corr_cases += 1
            if model != got:
                ctx.disagree("params/bind_params", case, model, got)
        elif kind == "decomp":
            decomp_compare(ctx, sf, case, got, model)
        elif kind == "history":
            history_compare(ctx, case, got, model)
        elif kind == "session":
            session_compare(ctx, case, got, model)
        elif kind == "expand":
            expand_compare(ctx, sf, case, got, model)
        elif kind == "convert":
            convert_compare(ctx, case, got, model)
    reqs.clear()
    pend.clear()


def dispatch(ctx, sf, item, reqs, pend):
    k = item["kind"]
    if k == "info":
        info_one(ctx, sf, item["case"], reqs, pend)
    elif k == "decomp":
        decomp_one(ctx, sf, item["case"], reqs, pend)
    elif k == "history":
        history_one(ctx, sf, item["case"], reqs, pend)
    elif k == "prog":
        prog_one(ctx, sf, item["case"], item["cfg"])
    elif k == "session":
        session_one(ctx, sf, item["case"], reqs, pend)
    elif k == "expand":
        expand_one(ctx, sf, item["case"], reqs, pend)
    elif k == "convert":
        convert_one(ctx, sf, item["case"], reqs, pend)
    elif k == "cache_order":
        import random
        for sd in range(20):
            cache_order_oracle(ctx, sf, random.Random(sd))
    elif k == "assumptions":
        assumptions_oracle(ctx, sf)
    elif k == "free_isolation":
        free_isolation_oracle(ctx, sf, item["variant"])
    elif k == "free":
        out, msteps = run_free_script(sf, item["case"])
        ctx.count("free_script", item["case"], True)
        if ctx.proof_ok:
            reqs.append({"op": "param.free", "steps": msteps})
            pend.append(("free", item["case"], out))


def safe(ctx, sf, item, reqs, pend):
    """an exception escaping from the code under test (or from this harness) on a generated input is reported with
    the input instead of crashing the run"""
    try:
        dispatch(ctx, sf, item, reqs, pend)
    except Exception as e:
        import traceback
        tb = traceback.extract_tb(e.__traceback__)[-1]
        ctx.fail("exception-" + item["kind"], f"{type(e).__name__}: {str(e)[:200]} at {Path(tb.filename).name}:{tb.lineno}",
                 item)


def run(ctx, sf):
    rng = ctx.rng
    reqs, pend = [], []
    for f in sorted(CORPUS.glob("*.json")):
        safe(ctx, sf, json.loads(f.read_text()), reqs, pend)
    for v in ("create", "bind"):
        free_isolation_oracle(ctx, sf, v)
    assumptions_oracle(ctx, sf)
    for _ in range(ctx.n(1100, 20000)):
        safe(ctx, sf, dict(kind="info", case=gen_info_case(rng)), reqs, pend)
        if len(reqs) > 2500:
            flush(ctx, sf, reqs, pend)
    for _ in range(ctx.n(150, 2500)):
        safe(ctx, sf, dict(kind="free", case=gen_free_script(rng)), reqs, pend)
    for _ in range(ctx.n(300, 5000)):
        safe(ctx, sf, dict(kind="decomp", case=gen_decomp_case(rng)), reqs, pend)
    for _ in range(ctx.n(150, 3000)):
        safe(ctx, sf, dict(kind="expand", case=gen_expand_case(rng)), reqs, pend)
    for _ in range(ctx.n(200, 3000)):
        safe(ctx, sf, dict(kind="convert", case=gen_convert_case(rng)), reqs, pend)
    for k in range(ctx.n(450, 9000)):
        safe(ctx, sf, dict(kind="history", case=gen_history(rng, shots_variant=(k % 12 == 11))), reqs, pend)
        if len(reqs) > 2500:
            flush(ctx, sf, reqs, pend)
    for k in range(ctx.n(200, 4000)):
        safe(ctx, sf, dict(kind="session", case=gen_session(rng)), reqs, pend)
        if len(reqs) > 2500:
            flush(ctx, sf, reqs, pend)
    flush(ctx, sf, reqs, pend)
    import random
    for k in range(ctx.n(12, 200)):
        cache_order_oracle(ctx, sf, random.Random(rng.getrandbits(32)))
    for k in range(ctx.n(230, 5000)):
        spec = gen_prog(rng, nmax=4)
        safe(ctx, sf, dict(kind="prog", case=spec, cfg=gen_cfg(rng, spec, k)), reqs, pend)


def _bind_free(t, vals):
    """the tree with its free atoms replaced by numbers"""
    if "f" in t:
        v = vals.get(t["f"])
        return px.num(0.5 if v is None else v)
    out = {}
    for k, v in t.items():
        if k in ("add", "mul", "pow", "a"):
            out[k] = [_bind_free(x, vals) for x in v]
        elif k == "neg":
            out[k] = _bind_free(v, vals)
        else:
            out[k] = v
    return out


def directed_histories(case):
    """end-to-end histories built around the parameter of a parameter-level case (used when the correspondence of
    par_regref_deps / par_evaluate breaks): the subsystems it reads are measured, an operation with this parameter
    acts on ANOTHER mode behind the measurement and the subsystems are measured again behind it; the command order is
    rebuilt from the dependency graph (compile(optimize=True) / Program.optimize()), in one segment and split"""
    trees = [_bind_free(t, effective_free(case["free"])) for t in trees_of(case["p"])]
    trees = [t for t in trees if px.atoms(t, "m")] + [t for t in trees if not px.atoms(t, "m")]
    if not trees or not px.atoms(trees[0], "m"):
        return
    use = dict(k="use", e=trees[0], op="Dgate", dagger=False, target=5)
    if len(trees) > 1:
        use["e2"] = trees[1]
    ms = sorted({m for t in trees[:2] for m in px.atoms(t, "m")})
    vals = meas_env(case)
    m1 = [dict(k="measure", modes=[m], vals=[float(np.real(vals.get(m, 0.5))) or 0.25], how="homodyne") for m in ms]
    m2 = [dict(k="measure", modes=[m], vals=[float(np.real(vals.get(m, 0.5))) + 1.0], how="homodyne") for m in ms]
    prep = [dict(k="prepare", mode=5, how="Coherent"), dict(k="prepare", mode=5, how="Vacuum")]
    for opt in ("compile", "method"):
        for segs, run_ in (([prep + m1 + [use] + m2], "successive"), ([m1 + prep, [dict(use, target=5)] + m2], "list"),
                           ([m1, prep + [use] + m2 + [dict(use, target=3, op="Rgate")]], "successive")):
            yield dict(n=12, free={"hd%d" % next(_uid): 0.5}, segs=copy.deepcopy(segs), build="before", shots=1, opt=opt,
                       share=False, run=run_, decoy=False, rerun=None, premature=False, suffix=False)


def search(ctx, sf):
    # directed cases first: turn a broken parameter-level correspondence into an end-to-end failing input
    reqs, pend = [], []
    seen = 0
    for d in list(ctx.disagreements):
        case = d.get("case")
        if seen >= 12 or not (isinstance(case, dict) and "p" in case and "meas" in case and case.get("kind") not in CPLX_KINDS):
            continue
        seen += 1
        for h in directed_histories(case):
            safe(ctx, sf, dict(kind="history", case=h), reqs, pend)
    run(ctx, sf)


def replay(ctx, rp):
    import strawberryfields as sf
    n0 = len(ctx.failures)
    ctx.proof_ok = False
    dispatch(ctx, sf, rp, [], [])
    return len(ctx.failures) > n0
