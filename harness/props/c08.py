"""C08 — register and simulator agree on which modes exist, for every history.

(a) correspondence: random histories (New / Del / gates / measurements / segments / reset / fresh programs,
    incl. rejected selections) are executed on the real sf.Program + Engine + back end and on the Lean model
    (`reg.hist`); every observable after every event is compared exactly.  `ModeMap` is also driven alone
    (`reg.modemap`) with arbitrary, also invalid, argument lists.
(b) oracle: the property itself, stated with an independent Python reference of the abstract specification
    (`lib.reghist.Spec`: one entry per index ever created, None once deleted, an integer datum per live mode).
(c) replay: a failing history is stored whole and re-run."""
import json
from pathlib import Path

from lib import core, reghist

RULE = ("histories of 1-5 program segments with 0-10 events each on fock (pure and mixed), gaussian and bosonic: "
        "New(1..3) incl. as first command and New(0), Del of 1-3 modes, one-mode displacements by distinct integer "
        "units, swapping two-mode beamsplitters, measurements (post-selected homodyne, MeasureFock), gates with "
        "measured-parameter dependencies, rejected selections (deleted / unknown / negative index, duplicate, foreign "
        "or stale RegRef, empty list, wrong arity, dependency on a deleted mode), engine reset, fresh Program(n) as "
        "successor, eng.reset() while going on with Program(prev), All(gate) on several modes, shared Operation instances, appends to a locked program, the first program re-run on a new engine; after every segment direct back-end calls on every index "
        "0..created+1, del_mode on copies, and state(modes=positions).  Non-trivial = at least one accepted Del or "
        "New and at least one data-carrying gate; distinct by (backend, events).")
ASSUMPTIONS = [
    "what a mode carries is observed through <x>, <p> of a product of coherent states (integer multiples of 0.25); "
    "gates of the histories are Xgate, BSgate(pi/2, 0), MeasureHomodyne(select), MeasureFock — that each of them acts "
    "only on its targets is the subject of C05, here only the selection of rows / axes and their labels is at stake",
    "fock back end: cutoff 5, |<x>| <= 1, comparison of <x>/0.25 to the nearest integer within 0.06",
    "explicit state(modes=...): subsystem indices on every back end; returned in the requested order (fock, gaussian) or in "
    "ascending index order (bosonic, documented); lists with repeated indices are not generated",
    "gaussian/bosonic histories measure one mode at a time (Gaussian measure_fock does not update the state, bosonic has no MeasureFock)",
]
TRUSTED = ["modelled: Program._add_subsystems/_delete_subsystems/_test_regrefs/append/can_follow/Program(parent), "
           "Operation.__or__, New, Del, BaseEngine._run hand-over, ModeMap, FockBackend._remap_modes/add_mode/del_mode/"
           "get_modes/state, GaussianModes/BosonicModes active/add_mode/del_mode/get_modes, Gaussian/Bosonic state(), "
           "bosonic run_prog/init_circuit (mode bookkeeping only)",
           "not modelled: the numerical action of gates on the stored data (K3/K4), compilers (the fock/gaussian/bosonic "
           "compilers do not reorder; checked implicitly by the data fingerprints)"]

PROG_KEYS = ("r", "reg", "refs", "unused", "locked", "initNum", "ncmd", "new")
END_KEYS = PROG_KEYS + ("gm", "internal", "nstore", "state", "ranReg", "skeys")


def canon(v):
    return json.loads(json.dumps(v))


def nontrivial(hist):
    evs = hist["events"]
    return (any(e["e"] in ("new", "del") and "bad" not in e for e in evs)
            and any(e["e"] == "use" and "bad" not in e for e in evs))


# --------------------------------------------------------------------------------------------------
# (b) property oracle on the real observations
# --------------------------------------------------------------------------------------------------
def oracle(ctx, hist, real):
    """checks the property on the observations `real` of the real code; returns index of the first event
    from which the correspondence should no longer be compared (known bosonic re-initialisation), or None"""
    be = hist["backend"]
    spec = reghist.Spec(hist["n0"])
    rp = dict(kind="hist", hist=hist)
    prev_refs = [[i, True] for i in range(hist["n0"])]
    segs_run = 0            # non-empty segments run since engine creation / reset
    tainted = None
    expect_follow = True
    fails = []

    def fail(sig, what):
        fails.append(sig)
        ctx.fail(sig, f"[{be}] {what}", rp)

    seg_nonempty = False
    seg_events = []         # accepted events of the segment under construction
    last_seg = None         # (accepted events, changed register?, nonempty?) of the segment run last
    boundary = None         # (get_modes, state) after the last successful run
    seg_shot = set()        # targets of MSgate(avg=False) in this segment (their ancilla outcomes are filed by index)
    seg_meas = {}           # index -> "h" (post-selected homodyne, value 0.25) | "f" (MeasureFock) in this segment
    for k, (ev, ob) in enumerate(zip(hist["events"], real)):
        e = ev["e"]
        ctx.oracle_cases += 1
        if ob.get("alias"):
            fail("program-aliasing", f"event {k} {ev['e']}: " + "; ".join(ob["alias"]))
        if e in ("new", "del", "use", "meas"):
            ok, family = spec.accepts(ev)
            before = prev_refs
            if ok:
                if ob["r"] != "ok":
                    fail("prog-rejects-valid", f"event {k} {ev} raised {ob['r']} although all named modes are live")
                    return tainted
                newinds = spec.apply(ev)
                seg_events.append(ev)
                if ev.get("anc") == "shot":
                    seg_shot.add(reghist.ref_idx(ev["ms"][0]))
                seg_nonempty = seg_nonempty or not (ev.get("all") and not ev["ms"])
                if e == "meas":
                    for r_ in ev["ms"]:
                        seg_meas[reghist.ref_idx(r_)] = "h" if len(ev["ms"]) == 1 else "f"
                if e == "new" and ob.get("new") != newinds:
                    fail("new-indices", f"event {k}: New({ev['n']}) returned indices {ob.get('new')}, expected {newinds}")
            else:
                if ob["r"] == "ok":
                    fail("prog-accepts-invalid", f"event {k} {ev} ({ev.get('bad')}) was accepted")
                    return tainted
                fam_ok = (ob["r"] == family) or (family == "RegRefError" and ob["r"] == "RegRefError")
                if not fam_ok:
                    fail("reject-error-class", f"event {k} {ev}: raised {ob['r']}, expected {family}")
                if ob["refs"] != before:
                    fail("reject-changes-register", f"event {k} {ev}: rejected but register changed {before} -> {ob['refs']}")
            # index stability: keys are positions, ind == key, flags only go from active to deleted, prefix kept
            refs = ob["refs"]
            if ob["keys"] != list(range(len(refs))) or any(r[0] != i for i, r in enumerate(refs)):
                fail("index-not-stable", f"event {k}: reg_refs keys/indices {ob['keys']} / {refs}")
            if len(refs) < len(before) or any((not b[1]) and a[1] for a, b in zip(refs, before)):
                fail("index-not-stable", f"event {k}: register history rewritten {before} -> {refs}")
            if ob["reg"] != spec.live():
                fail("register-not-live", f"event {k}: Program.register {ob['reg']} but live set is {spec.live()}")
            prev_refs = refs
        elif e == "end":
            if ev.get("mismatch"):
                if ob["r"] == "ok":
                    fail("can-follow", f"event {k}: a program whose initial register ({prev_refs}) does not match the register the "
                         f"previous segment ended with was run: register {ob.get('ranReg')}, get_modes {ob.get('gm')}")
                elif boundary is not None and (ob.get("gm_after") != boundary[0] or ob.get("state_after") != boundary[1]):
                    fail("refused-run-touches-simulator", f"event {k}: the run was refused ({ob['r']}) but the simulator changed: "
                         f"{boundary} -> {ob.get('gm_after')}, {ob.get('state_after')}")
                return tainted
            if ob["r"] != "ok":
                if seg_nonempty:
                    segs_run += 1
                fail(f"run-raises:{be}:{ob['r']}", f"event {k}: running an accepted program raised {ob['r']}: {ob.get('msg')}")
                return k if tainted is None else tainted
            if seg_nonempty:
                segs_run += 1
            last_seg = (seg_events, any(x["e"] in ("new", "del") for x in seg_events), seg_nonempty)
            seg_events = []
            seg_nonempty = False
            live = spec.live()
            boundary = (ob["gm"], ob["state"])
            n0 = len(fails)
            if not (ob["ranReg"] == ob["gm"] == live):
                fail(f"register-backend-mismatch:{be}", f"event {k}: register {ob['ranReg']}, get_modes {ob['gm']}, live {live}")
            st = ob["state"]
            if isinstance(st, dict):
                fail(f"state-raises:{be}", f"event {k}: state extraction failed: {st}")
            else:
                if [x[0] for x in st] != live:
                    fail(f"state-labels:{be}", f"event {k}: state labelled {[x[0] for x in st]}, live modes {live}")
                elif st != spec.state():
                    fail(f"state-data:{be}", f"event {k}: state carries {st}, expected {spec.state()}")
            if be.startswith("fock"):
                m = [x for x in ob["internal"] if x is not None]
                if m != list(range(len(m))) or len(m) != ob["nstore"]:
                    fail("modemap-invariant", f"event {k}: _map {ob['internal']} with {ob['nstore']} axes")
            else:
                if any(x is not None and x != i for i, x in enumerate(ob["internal"])) or len(ob["internal"]) != ob["nstore"]:
                    fail(f"active-invariant:{be}", f"event {k}: active {ob['internal']} nlen {ob['nstore']}")
            for pr, po in zip(ev.get("probe", []), ob["probe"]):
                ms = pr["ms"]
                if len(set(ms)) != len(ms):
                    continue          # repeated modes in a direct back-end call: not the subject of the property
                good = all(m < len(spec.rows) and spec.rows[m] is not None for m in ms)
                if not good and po["r"] == "ok":
                    fail(f"backend-accepts-dead:{be}", f"event {k}: backend {pr['t']} on {ms} accepted, live {live}")
                if good and po["r"] != "ok":
                    fail(f"backend-rejects-live:{be}", f"event {k}: backend {pr['t']} on live {ms} raised {po['r']}")
                if good and po["r"] == "ok":
                    exp = live if pr["t"] in ("gate", "ms") else [i for i in live if i not in ms]
                    if po["gm"] != exp:
                        fail(f"backend-probe-modes:{be}", f"event {k}: after {pr['t']} {ms}: get_modes {po['gm']}, expected {exp}")
            for ms, so in zip(ev.get("modes", []), ob["smodes"]):
                # subsystem indices on every back end; requested order (fock, gaussian), ascending (bosonic)
                if any(i >= len(spec.rows) or spec.rows[i] is None for i in ms):
                    if not isinstance(so, dict):
                        fail(f"state-modes-accepts-dead:{be}", f"event {k}: state(modes={ms}) returned {so} although live modes are {live}")
                    continue
                exp = [[i, spec.rows[i]] for i in (sorted(ms) if be == "bosonic" else ms)]
                if isinstance(so, dict):
                    fail(f"state-modes-raises:{be}", f"event {k}: state(modes={ms}) failed: {so}")
                elif any(lbl not in live or spec.rows[lbl] != d for lbl, d in so) or len(so) != len(ms):
                    # whatever convention selects the modes: every returned mode must carry the data of its label
                    fail(f"state-modes-mislabelled:{be}", f"event {k}: state(modes={ms}) returned {so}, modes carry {spec.state()}")
                elif so != exp:
                    fail(f"state-modes-selection:{be}", f"event {k}: state(modes={ms}) returned {so}, expected {exp}")
            ag = ob.get("again")
            if isinstance(ag, dict) and (ag.get("gm") != ob["gm"] or ag.get("state") != ob["state"]):
                fail(f"observation-not-repeatable:{be}", f"event {k}: asking again after the back-end probes gives {ag}, first answer "
                     f"get_modes {ob['gm']}, state {ob['state']}")
            rr = ob.get("rerun")
            if isinstance(rr, dict) and (rr.get("gm") != ob["gm"] or rr.get("state") != ob["state"]):
                fail(f"rerun-differs:{be}", f"event {k}: the same program on a new engine gives {rr}, first run get_modes {ob['gm']}, "
                     f"state {ob['state']}")
            sm_ = ob.get("samples")
            if isinstance(sm_, dict):
                if "err" in sm_:
                    fail(f"samples-raises:{be}", f"event {k}: {sm_}")
                elif sorted(int(x) for x in sm_) != sorted(seg_meas):
                    fail(f"samples-index:{be}", f"event {k}: samples_dict has keys {sorted(sm_)}, measured modes {sorted(seg_meas)}")
                elif any(seg_meas[int(i)] == "h" and abs(v[0] - reghist.UNIT) > 1e-9 for i, v in sm_.items()):
                    fail(f"samples-index:{be}", f"event {k}: samples_dict {sm_}, post-selected value {reghist.UNIT} expected "
                         f"under the indices {sorted(i for i, t in seg_meas.items() if t == 'h')}")
                elif ob.get("samples_shape") not in ([1, len(seg_meas)], [0, 0]) or (ob.get("samples_shape") == [0, 0] and seg_meas):
                    fail(f"samples-index:{be}", f"event {k}: Result.samples has shape {ob.get('samples_shape')} for {len(seg_meas)} measured modes")
            seg_meas = {}
            ak = ob.get("anc_keys")
            if ak is not None and not seg_shot <= set(ak):
                fail(f"ancilla-samples-index:{be}", f"event {k}: ancilla outcomes filed under {ak}, MSgate(avg=False) acted on {sorted(seg_shot)}")
            seg_shot = set()
            if ob["refs"] != prev_refs or ob["reg"] != live or ob["initNum"] != len(live):
                fail("handover", f"event {k}: Program(prev) starts with {ob['refs']} / {ob['initNum']}, previous ended with {prev_refs}")
            if len(fails) > n0 and be == "bosonic" and segs_run >= 2 and tainted is None:
                tainted = k
        elif e == "reset":
            boundary = (ob.get("gm"), ob.get("state"))
            seg_meas = {}
            spec = reghist.Spec(ev["n"])
            prev_refs = [[i, True] for i in range(ev["n"])]
            segs_run = 0
            seg_nonempty = False
        elif e == "alien":
            # Program(P) for an independently built P: its own register from here on (data of surviving indices kept)
            rows = [None if i in ev["dels"] else (spec.rows[i] if i < len(spec.rows) and spec.rows[i] is not None else 0)
                    for i in range(ev["n"])]
            if [i for i, d in enumerate(rows) if d is not None] != spec.live():
                raise core.Infra(f"generator: alien program with another active set {ev}")
            spec = reghist.Spec(0)
            spec.rows = rows
            prev_refs = ob["refs"]
            seg_events = []
        elif e == "rerun":
            evs_, changed, nonempty = last_seg if last_seg else ([], False, False)
            if changed:
                if ob["r"] == "ok":
                    fail("can-follow", f"event {k}: the program run last created / deleted modes, yet it was accepted as its own successor: "
                         f"get_modes {ob.get('gm')}, register {spec.live()}")
                    return tainted
                if boundary is not None and (ob.get("gm_after") != boundary[0] or ob.get("state_after") != boundary[1]):
                    fail("refused-run-touches-simulator", f"event {k}: the repeated run was refused ({ob['r']}) but the simulator changed: "
                         f"{boundary} -> {ob.get('gm_after')}, {ob.get('state_after')}")
            else:
                if nonempty:
                    segs_run += 1
                if ob["r"] != "ok":
                    fail(f"run-raises:{be}:{ob['r']}", f"event {k}: repeating a segment that neither creates nor deletes modes raised {ob['r']}: {ob.get('msg')}")
                    return k if tainted is None else tainted
                for x in evs_:
                    if x["e"] in ("use", "meas"):
                        spec.apply(x)
                n0_ = len(fails)
                if ob["gm"] != spec.live():
                    fail(f"register-backend-mismatch:{be}", f"event {k}: after the repeated run get_modes {ob['gm']}, live {spec.live()}")
                elif ob["state"] != spec.state():
                    fail(f"state-data:{be}", f"event {k}: after the repeated run the state carries {ob['state']}, expected {spec.state()}")
                boundary = (ob["gm"], ob["state"])
                if len(fails) > n0_ and be == "bosonic" and segs_run >= 2 and tainted is None:
                    tainted = k
        elif e == "resetkeep":
            # the register (no holes, else the next run is refused) goes on, on a new simulator
            if None not in spec.rows:
                spec = reghist.Spec(len(spec.rows))
            boundary = (ob.get("gm"), ob.get("state"))
            segs_run = 0
            seg_nonempty = False
        elif e == "fresh":
            # a fresh program has its own register; the history continues on it only if it can follow
            if ob["r"] == "ok":
                prev_refs = ob["refs"]
        elif e == "poke":
            if ob["use"] != "CircuitError" or ob["new"] != "CircuitError":
                fail("locked", f"event {k}: appending to a program that was run: use -> {ob['use']}, New -> {ob['new']}")
            if ob["reg_after"] != spec.live():
                fail("locked", f"event {k}: register of a run program changed to {ob['reg_after']}")
    return tainted


# --------------------------------------------------------------------------------------------------
# (a) correspondence
# --------------------------------------------------------------------------------------------------
def model_request(hist):
    be = "fock" if hist["backend"].startswith("fock") else hist["backend"]
    evs = []
    for ev in hist["events"]:
        ev = {k: v for k, v in ev.items() if k not in ("bad", "mismatch", "kind", "follows", "anc")}
        evs.append(ev)
    return dict(op="reg.hist", backend=be, n0=hist["n0"], events=evs)


def compare(ctx, hist, real, model, upto):
    if isinstance(model, dict) and "__error__" in model:
        ctx.disagree("Register.runHist vs Program/Engine/backend", hist, model, "model error")
        return
    for k, (ev, ob) in enumerate(zip(hist["events"], real)):
        if upto is not None and k >= upto:
            return
        mo = model[k]
        e = ev["e"]
        if e == "poke":
            keys = ("use", "new")
        elif e == "rerun":
            keys = (("r", "gm", "internal", "nstore", "state") + PROG_KEYS[1:-1]) if ob["r"] == "ok" else ("r",)
        elif e == "alien":
            keys = PROG_KEYS[:-1]
        elif e in ("end", "reset", "resetkeep"):
            keys = END_KEYS if ob["r"] == "ok" else ("r",)
            if e != "end":
                keys = tuple(x for x in keys if x not in ("ranReg", "skeys"))
        else:
            keys = PROG_KEYS
        a = {x: canon(mo.get(x)) for x in keys}
        b = {x: canon(ob.get(x)) for x in keys}
        if e in ("end", "reset", "resetkeep") and ob["r"] == "ok":
            if e != "resetkeep":
                a["probe"], b["probe"] = canon(mo.get("probe")), canon(ob.get("probe"))
                a["smodes"] = canon(mo.get("smodes"))
                b["smodes"] = [s if not isinstance(s, dict) else {"err": s["err"]} for s in canon(ob.get("smodes"))]
            if isinstance(b["state"], dict):
                b["state"] = {"err": b["state"]["err"]}
        if a != b:
            diff = {x: (a[x], b[x]) for x in a if a[x] != b[x]}
            ctx.disagree("Register.runHist vs Program/Engine/backend",
                         dict(hist=hist, event=k), {x: d[0] for x, d in diff.items()}, {x: d[1] for x, d in diff.items()})
            return


def one_history(ctx, sf, hist, batch):
    real = reghist.run_real(sf, hist)
    n0 = len(ctx.failures)
    upto = oracle(ctx, hist, real)
    ctx.count(f"hist:{hist['backend']}", dict(b=hist["backend"], n0=hist["n0"], ev=hist["events"]), nontrivial(hist),
              sample=dict(backend=hist["backend"], n0=hist["n0"], events=hist["events"][:6]))
    for ev, ob in zip(hist["events"], real):
        ctx.tally(f"ev:{ev['e']}" + (":rejected" if ev["e"] in ("new", "del", "use", "meas") and ob.get("r") != "ok" else ""))
        if "bad" in ev:
            ctx.tally(f"bad:{ev['bad']}")
    ctx.tally("segments", sum(1 for e in hist["events"] if e["e"] == "end"))
    for ev, ob in zip(hist["events"], real):
        if ev["e"] == "end":
            if ev.get("mismatch"):
                ctx.tally("end:refused-register-mismatch")
            elif ob.get("r") == "ok":
                ctx.tally("end:zero-modes" if not ob["gm"] else "end:with-deleted" if None in ob["internal"] else "end:no-deletion")
                ctx.tally("state(modes)", len(ev.get("modes", [])))
                ctx.tally("backend-probes", len(ev.get("probe", [])))
    if len(ctx.failures) > n0 and upto is None:
        upto = 0   # a property failure: do not also report it as model disagreement
    batch.append((hist, real, upto))
    return real


def cross_backends(ctx, sf, hist, batch):
    """the same (portable) history on every back end: the full states and every state(modes=[...]) answer must agree
    (bosonic returns the requested modes in ascending index order)"""
    bes = ["fock", "fock-mixed", "gaussian"] + (["bosonic"] if sum(e["e"] == "end" for e in hist["events"]) == 1 else [])
    reals = {}
    for be in bes:
        reals[be] = one_history(ctx, sf, dict(hist, backend=be), batch)
    ref = reals["gaussian"]
    for be in bes:
        if be == "gaussian":
            continue
        for k, (ev, a, b) in enumerate(zip(hist["events"], ref, reals[be])):
            if ev["e"] != "end" or a.get("r") != "ok" or b.get("r") != "ok":
                continue
            ctx.oracle_cases += 1
            if a["state"] != b["state"]:
                ctx.fail(f"cross-backend-state:{be}", f"event {k}: gaussian returns {a['state']}, {be} returns {b['state']}",
                         dict(kind="cross", hist=hist))
            for ms, x, y in zip(ev.get("modes", []), a["smodes"], b["smodes"]):
                xe, ye = isinstance(x, dict), isinstance(y, dict)
                same = (xe and ye) or (not xe and not ye and (sorted(x) == sorted(y) if be == "bosonic" else x == y))
                if not same:
                    ctx.fail(f"cross-backend-state-modes:{be}", f"event {k}: state(modes={ms}) is {x} on gaussian and {y} on {be}",
                             dict(kind="cross", hist=hist))


def flush(ctx, batch):
    if not batch or not ctx.proof_ok:
        batch.clear()
        return
    answers = ctx.lean([model_request(h) for h, _, _ in batch])
    for (hist, real, upto), model in zip(batch, answers):
        ctx.corr_cases += 1
        compare(ctx, hist, real, model, upto)
    batch.clear()


# ---- ModeMap alone
def modemap_case(rng):
    n = rng.randint(0, 4)
    calls = []
    for _ in range(rng.randint(1, 10)):
        f = rng.choice(["add", "delete", "delete", "valid", "remap", "reset", "delete"])
        if f == "add":
            calls.append(dict(f=f, n=rng.randint(0, 3)))
        elif f == "reset":
            calls.append(dict(f=f))
        else:
            calls.append(dict(f=f, ms=[rng.randint(0, 7) for _ in range(rng.choice([0, 1, 1, 2, 2, 3, 6]))]))
    return dict(n=n, calls=calls)


def modemap_real(case):
    from strawberryfields.backends.base import ModeMap
    m = ModeMap(case["n"])
    out = []
    for c in case["calls"]:
        try:
            if c["f"] == "add":
                m.add(c["n"]); out.append(list(m._map))
            elif c["f"] == "reset":
                m.reset(); out.append(list(m._map))
            elif c["f"] == "delete":
                m.delete(list(c["ms"])); out.append(list(m._map))
            elif c["f"] == "valid":
                out.append(bool(m.valid(list(c["ms"]))))
            else:
                out.append(list(m.remap(list(c["ms"]))))
        except Exception as ex:  # noqa: BLE001
            out.append(type(ex).__name__)
    return out


def modemap_run(ctx, n):
    cases = [modemap_case(ctx.rng) for _ in range(n)]
    reals = [modemap_real(c) for c in cases]
    for c, r in zip(cases, reals):
        ctx.count("modemap", c, True)
        # oracle: after every successful call the non-None entries are 0..k-1 increasing
        for call, o in zip(c["calls"], r):
            ctx.oracle_cases += 1
            if isinstance(o, list) and call["f"] in ("add", "delete", "reset"):
                m = [x for x in o if x is not None]
                if m != list(range(len(m))):
                    ctx.fail("modemap-invariant", f"ModeMap({c['n']}) after {c['calls']}: _map {o}", dict(kind="modemap", case=c))
    if ctx.proof_ok:
        for c, r, m in zip(cases, reals, ctx.lean([dict(op="reg.modemap", **c) for c in cases])):
            ctx.corr_cases += 1
            if canon(m) != canon(r):
                ctx.disagree("Register.ModeMap vs backends.base.ModeMap", c, m, r)


def corpus():
    d = core.VERIF / "corpus" / "C08"
    return [json.loads(p.read_text()) for p in sorted(d.glob("*.json"))] if d.exists() else []


def run(ctx, sf):
    batch = []
    for h in corpus():
        one_history(ctx, sf, h["hist"] if "hist" in h else h, batch)
    flush(ctx, batch)
    modemap_run(ctx, ctx.n(300, 3000))
    rng = ctx.rng
    plan = [("gaussian", ctx.n(100, 1500)), ("fock", ctx.n(36, 500)), ("fock-mixed", ctx.n(26, 400)),
            ("bosonic", ctx.n(60, 800))]
    for k in range(ctx.n(16, 200)):
        h = reghist.gen_history(rng, "gaussian", multi=(k % 2 == 1), portable=True)
        cross_backends(ctx, sf, h, batch)
        ctx.tally("cross-backend histories")
    flush(ctx, batch)
    for be, n in plan:
        for k in range(n):
            multi = True
            h = reghist.gen_history(rng, be, big=(ctx.tier == "thorough" and k % 3 == 0), multi=multi)
            one_history(ctx, sf, h, batch)
            if len(batch) >= 400:
                flush(ctx, batch)
    flush(ctx, batch)


def directed(ctx, sf, hist, upto_event):
    """histories derived from a case on which model and code disagree: the prefix up to the disagreeing event, followed
    by segments that make a hidden difference of the mode bookkeeping observable — a gate on every live mode, New, Del of
    a live mode, and (bosonic) the ancilla-assisted gates — each ending in the full battery of register-vs-simulator
    observations (get_modes, labels, data, direct calls on every index, state(modes))"""
    be = hist["backend"]
    evs = [dict(e) for e in hist["events"][:upto_event + 1]]
    if not evs or evs[-1]["e"] != "end" or evs[-1].get("mismatch") or any(e["e"] in ("alien", "rerun", "resetkeep", "fresh") for e in evs):
        return []
    spec = reghist.Spec(hist["n0"])
    for e in evs:
        if e["e"] in ("new", "del", "use", "meas") and spec.accepts(e)[0]:
            spec.apply(e)
        elif e["e"] == "reset":
            spec = reghist.Spec(e["n"])
    out = []

    def ending(sp):
        created, live = len(sp.rows), sp.live()
        probe = [{"t": "gate", "ms": [m]} for m in range(created + 2)]
        if be == "bosonic":
            probe += [{"t": "ms", "ms": [m]} for m in range(created + 2)]
        modes = [live[::-1]] if live else []
        modes += [[i] for i in range(created) if sp.rows[i] is None][:2]
        return {"e": "end", "probe": probe, "modes": modes}

    import copy as _copy
    variants = [[]]
    live = spec.live()
    if be == "bosonic" and live:
        variants += [[{"e": "use", "ms": [{"o": m}], "k": 0, "deps": [], "anc": a}] for m in live[:3] for a in ("shot", "avg")]
    cap = 4 if be.startswith("fock") else 7        # the Fock tensor grows as cutoff^(2 * modes)
    variants += [[{"e": "new", "n": n_}] for n_ in (1, 2) if len(live) + n_ <= cap]
    if len(live) >= 2:
        variants += [[{"e": "del", "ms": [{"o": live[0]}]}], [{"e": "del", "ms": [{"o": live[-1]}]}]]
    for var in variants:
        sp = _copy.deepcopy(spec)
        seg1 = []
        for e in var:
            sp.apply(e); seg1.append(e)
        for m in sp.live():
            e = {"e": "use", "ms": [{"o": m}], "k": 1, "deps": []}
            if not be.startswith("fock") or abs(sp.rows[m] + 1) <= reghist.MAXU:
                sp.apply(e); seg1.append(e)
        h = dict(backend=be, n0=hist["n0"], events=evs + seg1 + [ending(sp)])
        # and one more segment that creates a mode and uses it (a wrong index counter shows there)
        out.append(h)
        if len(sp.live()) + 1 <= cap:
            sp2 = _copy.deepcopy(sp)
            seg2 = [{"e": "new", "n": 1}]
            sp2.apply(seg2[0])
            out.append(dict(backend=be, n0=hist["n0"], events=h["events"] + seg2 + [ending(sp2)]))
    return out


def search(ctx, sf):
    # first: directed histories derived from the cases on which model and code disagree
    batch = []
    seen = 0
    for d in list(ctx.disagreements)[:12]:
        case = d.get("case") or {}
        if not isinstance(case, dict) or "hist" not in case:
            continue
        h0 = case["hist"]
        ends = [i for i, e in enumerate(h0["events"]) if e["e"] == "end" and i <= case.get("event", 0)]
        cut = ends[-1] if ends else None
        cands = []
        if cut is not None:
            cands += directed(ctx, sf, h0, cut)
        for h in cands:
            one_history(ctx, sf, h, batch)
            ctx.tally("directed histories")
            seen += 1
        if any(not core.Known().match(ctx.pid, f["sig"]) for f in ctx.failures):
            break
    batch.clear()        # the directed histories are for the oracle; the tie is already known to be broken
    if not any(not core.Known().match(ctx.pid, f["sig"]) for f in ctx.failures):
        run(ctx, sf)


def replay(ctx, rp):
    import strawberryfields as sf
    n0 = len(ctx.failures)
    if rp.get("kind") == "modemap":
        c = rp["case"]
        r = modemap_real(c)
        for o in r:
            if isinstance(o, list):
                m = [x for x in o if x is not None]
                if m != list(range(len(m))):
                    return True
        return False
    hist = rp["hist"]
    if rp.get("kind") == "cross":
        cross_backends(ctx, sf, hist, [])
        return len(ctx.failures) > n0
    real = reghist.run_real(sf, hist)
    oracle(ctx, hist, real)
    return len(ctx.failures) > n0
