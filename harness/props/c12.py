"""C12 — hardware compilation conforms to the device and preserves the experiment.

(a) correspondence of SFV.Model.HwCompile with the real functions (Ranges / Device.gate_parameters /
validate_parameters, Compiler.init_circuit histories, Program/TDMProgram.assert_modes, rectangular_symmetric
mode pairs and the Xunitary/Xcov command skeleton, xunitary.list_duplicates and the S2-merge loop,
Borealis.compile loop-offset insertion, Borealis.update_params), exact after canonicalisation;
(b) property-level oracle on the real code: generated source programs are compiled against synthetic device
specifications built after the repository's fixtures with Xstrict / Xunitary / Xcov and the TDM compilers; the
outcome must be a CircuitError (or the documented ValueError of the range validation) or a circuit that an
independent template comparison accepts, with every parameter in range and the same photon statistics as the source;
(c) replay of stored failing inputs."""
import copy
import logging
import math
import types

import numpy as np

from lib import hw12, sim

RULE = ("X-series: source programs over 2N = 4..12 modes (S2gates in any order incl. zero / missing / repeated squeezers "
        "on one or several pairs / unequal phases / inverted (.H) commands / reversed pairs / gates between squeezers, Sgate+BSgate "
        "constructions, Interferometer of 7 unitary classes or mirrored BS/MZ/R sequences incl. inverted gates, halves that differ "
        "clearly or just beyond numpy.allclose's tolerance, split / partial / reordered measurements with select / dark_counts, "
        "dependency-respecting and arbitrary reorderings, shared operation objects, a deleted extra mode, template instances with "
        "mutated gates) x device specs (fixture ranges, interval / narrowed ranges, no ranges (None / {}), default compiler lists, mode "
        "limits) x compiler Xstrict|Xunitary|Xcov; every case: inputs snapshotted, a third compiled twice.  TDM: Borealis programs "
        "(user-set / left-out loop offsets, truncated or mutated circuits, in- and out-of-range arguments, arguments through "
        "tdm.utils.make_phases_compatible, realistic_loss, 10..60 time bins, compiled twice) and single-loop TD2/TDM programs on two "
        "layouts; compile histories with and without reset_circuit(); helper functions.  Non-trivial = accepted compile of a program "
        "with >= 1 non-zero squeezer or a rejected one with >= 3 commands; distinct by (spec parameters, compiler, program).")
ASSUMPTIONS = ["'same photon-number statistics' is checked as: equal (N, M) moments (Xunitary/Xstrict, 1e-6) resp. equal |N|, |M| "
               "and equal probabilities of sampled Fock patterns (Xcov) of the zero-mean Gaussian state before the measurement; for "
               "Borealis: equal |N|, |M| of all pulses of the space-unrolled compiled circuit (loop offsets as gates) and of the source "
               "with the documented pi shifts of loops 1 and 2 applied",
               "a ValueError raised by Device.validate_parameters ('has invalid value' / 'not a valid parameter') or by the Blackbird "
               "writer for an inverted gate it cannot express counts as a documented rejection, like CircuitError",
               "the synthetic X layouts for N != 4 extend the X8_01 fixture (checked equal to the fixture for N = 4 on every run)",
               "post-selection / dark counts of the Fock measurements belong to the experiment: an accepted compile must keep them"]
TRUSTED = ["modelled: Range/Ranges.__contains__, Device.gate_parameters/validate_parameters, Compiler.init_circuit, "
           "Program/TDMProgram.assert_modes, rectangular_MZ/rectangular_symmetric mode pairs + Interferometer._decompose skeleton, "
           "xunitary.list_duplicates + S2-merge loop (incl. inverse flag), Xunitary's orthogonality / block / symmetry verdict and Xcov's "
           "adjacency-block verdict with numpy.allclose's tolerances, thewalrus expand (index logic), Xcov squeezer bookkeeping, "
           "Borealis.compile offset insertion, Borealis.update_params arithmetic",
           "not modelled (exercised by the oracle only): Blackbird match_template / NetworkX isomorphism, Clements angles, Takagi, "
           "GaussianUnitary symplectic extraction, thewalrus Amat, Borealis.add_loss, tdm.utils helpers, Device.create_program; "
           "thewalrus density_matrix_element for Fock probabilities; reference states from lib/sim.py (own symplectic matrices)"]

logging.disable(logging.WARNING)
PI = math.pi


# ====================================================================== program descriptions
def reset_compilers(sf):
    from strawberryfields.compilers import compiler_db
    for c in compiler_db.values():
        c.reset_circuit()


def enc_U(U):
    return [[[float(z.real), float(z.imag)] for z in row] for row in np.asarray(U)]


def dec_U(u):
    return np.array([[complex(a, b) for a, b in row] for row in u])


def build_prog(sf, desc):
    """desc ops: cls, regs, pars | U, optional dagger / select / dark (MeasureFock).  With desc['share'] equal operations
    are ONE shared instance (as users who write `s = S2gate(1); s | ...; s | ...` produce them)."""
    import strawberryfields.ops as ops
    p = sf.Program(desc["n"])
    cache = {}
    with p.context as q:
        for o in desc["ops"]:
            if o["cls"] == "Del":
                ops.Del | tuple(q[r] for r in o["regs"])
                continue
            cls = getattr(ops, o["cls"])
            key = repr((o["cls"], o.get("pars"), o.get("U"), o.get("dagger"), o.get("select"), o.get("dark")))
            op = cache.get(key) if desc.get("share") else None
            if op is None:
                if o["cls"] == "Interferometer":
                    op = cls(dec_U(o["U"]))
                elif o["cls"] == "MeasureFock":
                    op = cls(select=o.get("select"), dark_counts=o.get("dark"))
                else:
                    op = cls(*o.get("pars", []))
                if o.get("dagger"):
                    op = op.H
                cache[key] = op
            op | tuple(q[r] for r in o["regs"])
    return p


def desc_from_skeleton(n, skel):
    return dict(n=n, ops=[dict(cls=c, regs=list(m), pars=list(p)) for c, m, p in skel])


def ref_state(n, oplist):
    """independent Gaussian reference: oplist of (cls, modes, pars|U[, dagger])"""
    st = sim.RefState(n)
    for item in oplist:
        cls, modes, pars = item[0], item[1], item[2]
        if cls.startswith("Measure"):
            continue
        if cls == "Interferometer":
            U = pars
            S = np.block([[U.real, -U.imag], [U.imag, U.real]])
        else:
            S, _ = sim.gate_symplectic(cls, [float(x) for x in pars])
        if len(item) > 3 and item[3]:
            S = np.linalg.inv(S)
        st.apply_SYd(list(modes), S)
    return st


def desc_oplist(desc):
    return [(o["cls"] if o["cls"] != "Del" else "MeasureDel", o["regs"], dec_U(o["U"]) if o["cls"] == "Interferometer" else o.get("pars", []), bool(o.get("dagger")))
            for o in desc["ops"]]


def dy(rng, lo, hi, den=8):
    return rng.randint(int(lo * den), int(hi * den)) / den


def gen_s2(rng, N, amps, p_dup=0.4):
    """list of (pair index, r, phi) in arbitrary order"""
    out = []
    for i in range(N):
        t = rng.choice(amps)
        u = rng.random()
        if u < p_dup:
            k = rng.choice([2, 2, 3])
            if k == 2:
                a = rng.choice([t / 2, t / 4, 0.0, t])
                parts = [a, t - a]
            else:
                parts = [t / 4, t / 4, t / 2]
            phi = 0.0
            grp = [(i, r, phi) for r in parts]
            if rng.random() < 0.08:
                grp[-1] = (i, grp[-1][1], 0.25)
            elif rng.random() < 0.2:
                # phases that differ inside the group, also on members without squeezing (placeholders), in either order
                grp = [(i, r, rng.choice([0.0, 0.7, 0.25])) for r in parts]
                if rng.random() < 0.6:
                    grp[rng.randrange(len(grp))] = (i, 0.0, rng.choice([0.0, 0.7]))
            out += grp
        elif u < p_dup + 0.15:
            pass  # missing
        elif u < p_dup + 0.25:
            out.append((i, 0.0, 0.0))
        else:
            out.append((i, t, 0.0 if rng.random() < 0.93 else 0.5))
    rng.shuffle(out)
    return out


def mirrored_gates(rng, N, length):
    ops_ = []
    for _ in range(length):
        k = rng.choice(["BSgate", "MZgate", "Rgate"]) if N >= 2 else "Rgate"
        if k == "Rgate":
            m = rng.randrange(N)
            ops_.append(("Rgate", [m], [dy(rng, -3, 3)]))
        else:
            a = rng.randrange(N - 1)
            b = a + 1 if rng.random() < 0.7 else rng.choice([x for x in range(N) if x != a])
            if k == "BSgate":
                ops_.append(("BSgate", [a, b], [dy(rng, 0, 1.5), dy(rng, 0, 3)]))
            else:
                ops_.append(("MZgate", [a, b], [dy(rng, 0, 3), dy(rng, 0, 3)]))
    return ops_


def linext_shuffle(rng, ops_):
    w = [set(o["regs"]) for o in ops_]
    rem = list(range(len(ops_)))
    out = []
    while rem:
        ready = [i for i in rem if not any(w[j] & w[i] for j in rem if j < i)]
        c = rng.choice(ready)
        out.append(ops_[c])
        rem.remove(c)
    return out


U_KINDS = ["haar", "identity", "perm", "phases", "phased_perm", "real", "block"]


def gen_x_source(rng, nprng, N, comp, amps):
    n = 2 * N
    ops_ = []
    kind = []
    # ---- squeezing part
    sq_mode = "s2"
    if comp == "Xcov" and rng.random() < 0.3:
        sq_mode = "sgate"
    s2 = gen_s2(rng, N, amps)
    bad_pair = rng.random() < 0.04 and N >= 2
    for (i, r, phi) in s2:
        a, b = i, i + N
        if bad_pair:
            b = (i + 1) % N + N
            bad_pair = False
            kind.append("badpair")
        if sq_mode == "s2":
            ops_.append(dict(cls="S2gate", regs=[a, b], pars=[r, phi]))
        else:
            ops_ += [dict(cls="BSgate", regs=[a, b], pars=[PI / 4, 0.0]), dict(cls="Sgate", regs=[a], pars=[r, phi]),
                     dict(cls="Sgate", regs=[b], pars=[-r, phi]), dict(cls="BSgate", regs=[a, b], pars=[-PI / 4, 0.0])]
    if sq_mode == "s2" and ops_ and rng.random() < 0.08:   # something between the squeezers
        j = rng.randrange(N)
        ins = rng.choice([dict(cls="Rgate", regs=[j], pars=[0.5]), dict(cls="BSgate", regs=[j, j + N], pars=[0.25, 0.0]),
                          dict(cls="MZgate", regs=[j, j + N], pars=[0.25, 0.5])])
        ops_.insert(rng.randrange(len(ops_) + 1), ins)
        kind.append("between-s2")
    kind.append(sq_mode)
    keys = [i for i, _, _ in s2]
    ngroups = len({k for k in keys if keys.count(k) > 1})
    kind.append(f"dupgroups{min(ngroups, 3)}")
    # ---- interferometer part
    ik = rng.choice(["interf", "interf", "gates", "none", "asym", "mix"] if N >= 2 else ["interf", "none", "gates"])
    if rng.random() < 0.7 and ik in ("asym", "mix"):
        ik = "interf"
    if ik == "interf" or ik == "asym":
        uk = rng.choice(U_KINDS if N >= 2 else ["identity", "phases"])
        U = hw12.rand_unitary(nprng, N, uk)
        if ik == "interf":
            U2 = U
        else:  # different unitary on the idler half: unrelated, or equal moduli with phases before / after
            v = rng.choice(["haar", "phases-before", "phases-after", "phases-before", "phases-after"])
            # clearly different, or a little beyond numpy.allclose's tolerance (rtol 1e-5)
            D = np.diag(np.exp(1j * (nprng.uniform(0.3, 2.8, N) if rng.random() < 0.5 else rng.choice([3e-5, 1e-4, 1e-3]) * np.ones(N))))
            U2 = hw12.rand_unitary(nprng, N, "haar") if v == "haar" else (U @ D if v == "phases-before" else D @ U)
        ops_.append(dict(cls="Interferometer", regs=list(range(N)), U=enc_U(U)))
        ops_.append(dict(cls="Interferometer", regs=list(range(N, n)), U=enc_U(U2)))
        kind.append(f"U:{uk}")
    elif ik == "gates":
        for c, m, p in mirrored_gates(rng, N, rng.randint(1, 5)):
            ops_.append(dict(cls=c, regs=m, pars=p))
            ops_.append(dict(cls=c, regs=[x + N for x in m], pars=p))
    elif ik == "mix":
        ops_.append(dict(cls="BSgate", regs=[0, N], pars=[0.5, 0.0]))
    kind.append(ik)
    # ---- inverse flags (S2gate(r).H = S2gate(-r), ...): on single squeezers, inside repeated groups, on the interferometer
    if rng.random() < 0.22:
        cand = [i for i, o in enumerate(ops_) if o["cls"] in ("S2gate", "Rgate", "BSgate", "MZgate", "Sgate")]
        if cand:
            i = rng.choice(cand)
            ops_[i]["dagger"] = True
            # keep the two halves equal: the mirrored partner of an interferometer gate is inverted as well
            if ops_[i]["cls"] != "S2gate" and ops_[i]["cls"] != "Sgate":
                for j, o in enumerate(ops_):
                    if j != i and o["cls"] == ops_[i]["cls"] and o.get("pars") == ops_[i].get("pars") and o.get("U") == ops_[i].get("U") \
                            and sorted(o["regs"]) in ([r + N for r in sorted(ops_[i]["regs"])], [r - N for r in sorted(ops_[i]["regs"])]):
                        o["dagger"] = True
                        break
            kind.append("dagger:" + ops_[i]["cls"])
    if rng.random() < 0.03:
        cand = [o for o in ops_ if o["cls"] == "S2gate"]
        if cand:
            o = rng.choice(cand)
            o["regs"] = o["regs"][::-1]
            kind.append("revpair")
    # ---- measurement
    mk = rng.choice(["all", "all", "all", "split", "partial"])
    if mk == "partial" and rng.random() < 0.7:
        mk = "all"
    order_ = list(range(n))
    if rng.random() < 0.35:
        rng.shuffle(order_)
        kind.append("meas-order")
    opt = rng.choice([None] * 8 + ["select", "select-part", "dark", "dark-part"])
    sel = {m: rng.randint(0, 2) for m in range(n)}
    dk = {m: rng.choice([0.0, 0.125]) for m in range(n)}

    def M(regs, first=True):
        d = dict(cls="MeasureFock", regs=regs, pars=[])
        if opt == "select" or (opt == "select-part" and first):
            d["select"] = [sel[m] for m in regs]
        if opt == "dark" or (opt == "dark-part" and first):
            d["dark"] = [dk[m] for m in regs]
        return d
    if mk == "all":
        ops_.append(M(order_))
    elif mk == "split":
        c = rng.randint(1, n - 1)
        ops_.append(M(order_[:c]))
        ops_.append(M(order_[c:], first=False))
    else:
        ops_.append(M(order_[:n - 1]))
    kind.append("meas:" + mk)
    if opt:
        kind.append("meas-opt:" + opt)
    # ---- order
    order = rng.choice(["natural", "natural", "linext", "swap"])
    if order == "linext":
        ops_ = linext_shuffle(rng, ops_)
    elif order == "swap" and len(ops_) >= 3:
        i = rng.randrange(len(ops_) - 2)
        ops_[i], ops_[i + 1] = ops_[i + 1], ops_[i]
    kind.append("order:" + order)
    desc = dict(n=n, ops=ops_)
    if rng.random() < 0.4:
        desc["share"] = True
        kind.append("shared-ops")
    if rng.random() < 0.03:      # a register with a hole: one more mode, deleted right away
        desc["n"] = n + 1
        desc["ops"] = [dict(cls="Del", regs=[n], pars=[])] + desc["ops"]
        kind.append("del")
    return desc, kind


def gen_strict_source(rng, N, spec, amps):
    """an instance of the layout template, possibly mutated"""
    n = 2 * N
    gp = hw12.x_gate_parameters(N, [0], [0])      # the template parameter names
    vals = {}
    for name, entries in gp.items():
        if name.startswith("squeezing"):
            vals[name] = rng.choice(amps)
        else:
            vals[name] = dy(rng, 0, 6) if rng.random() < 0.8 else 0.0
    mut = rng.choice(["exact", "exact", "linext", "outofrange", "drop", "modes", "unequal", "s2phi", "extra", "negphase"])
    skel = [[c, list(m), [vals[p] if isinstance(p, str) else p for p in ps]] for c, m, ps in hw12.x_layout_skeleton(N)]
    if mut == "outofrange":
        k = rng.randrange(len(skel) - 1)
        if skel[k][2]:
            skel[k][2][0] = rng.choice([0.5, 7.5, -0.25, 1.0001])
    elif mut == "drop":
        del skel[rng.randrange(len(skel) - 1)]
    elif mut == "modes":
        k = rng.choice([i for i, s in enumerate(skel) if s[0] == "MZgate"] or [0])
        skel[k][1] = list(reversed(skel[k][1]))
    elif mut == "unequal":
        ks = [i for i, s in enumerate(skel) if s[0] == "MZgate" and s[1][0] >= N]
        if ks:
            skel[rng.choice(ks)][2][rng.randrange(2)] += 0.5
    elif mut == "s2phi":
        skel[rng.randrange(N)][2][1] = 0.25
    elif mut == "extra":
        skel.insert(len(skel) - 1, ["Rgate", [rng.randrange(n)], [0.5]])
    elif mut == "negphase":
        ks = [i for i, s in enumerate(skel) if s[0] == "Rgate"]
        skel[rng.choice(ks)][2][0] = -0.5
    desc = desc_from_skeleton(n, skel)
    if mut == "linext":
        desc["ops"] = linext_shuffle(rng, desc["ops"])
    return desc, ["strict:" + mut]


SQ_VARIANTS = {"fixture": ([0, 1], [0.0, 1.0]), "interval": ([[0, 1]], [0.0, 0.5, 1.0, 0.75]),
               "mixed": ([0, [0.5, 1.0]], [0.0, 0.5, 1.0]), "wide": ([[0, 2]], [0.0, 0.5, 1.0, 1.5])}
PH_VARIANTS = {"fixture": [0, [0, hw12.TWO_PI]], "interval": [[0, hw12.TWO_PI]], "narrow": [0, [0, 3.2]]}



# ---------------------------------------------------------------- position sweep of non-implementable ingredients
SWEEP_INGREDIENTS = ["sgate", "s2-half", "s2-cross-wrong", "bs-cross", "dgate", "rgate-one", "bs-half", "mz-half"]
SWEEP_STAGES = ["first", "mid", "last"]


def sweep_positions(N, ingr):
    """every position class: signal half / idler half, first / last mode of the half, across the halves"""
    if ingr in ("sgate", "dgate", "rgate-one"):
        return [("signal-first", [0]), ("signal-last", [N - 1]), ("idler-first", [N]), ("idler-last", [2 * N - 1])]
    if ingr in ("s2-half", "bs-half", "mz-half"):
        if N < 2:
            return []
        return [("signal-first", [0, 1]), ("signal-last", [N - 2, N - 1]), ("signal-rev", [1, 0]),
                ("idler-first", [N, N + 1]), ("idler-last", [2 * N - 2, 2 * N - 1]), ("idler-rev", [N + 1, N])]
    if ingr == "s2-cross-wrong":
        if N < 2:
            return []
        return [("first-to-last", [0, 2 * N - 1]), ("last-to-first", [N - 1, N]), ("idler-to-signal", [N, 1])]
    if ingr == "bs-cross":
        return [("own-pair", [0, N]), ("last-pair", [N - 1, 2 * N - 1]), ("other-pair", [0, 2 * N - 1]), ("reversed", [N, 0])]
    return []


def sweep_combos(N):
    return [(i, pn, regs, st) for i in SWEEP_INGREDIENTS for pn, regs in sweep_positions(N, i) for st in SWEEP_STAGES]


def gen_sweep_case(rng, nprng, N, comp, combo):
    """a source of the device's form plus ONE extra ingredient at the given position and stage"""
    ingr, pname, regs, stage = combo
    n = 2 * N
    ins = {"sgate": dict(cls="Sgate", regs=regs, pars=[0.4, 0.0]), "s2-half": dict(cls="S2gate", regs=regs, pars=[0.6, 0.0]),
           "s2-cross-wrong": dict(cls="S2gate", regs=regs, pars=[0.5, 0.0]), "bs-cross": dict(cls="BSgate", regs=regs, pars=[0.4, 0.0]),
           "dgate": dict(cls="Dgate", regs=regs, pars=[0.3, 0.0]), "rgate-one": dict(cls="Rgate", regs=regs, pars=[0.7]),
           "bs-half": dict(cls="BSgate", regs=regs, pars=[0.5, 0.3]), "mz-half": dict(cls="MZgate", regs=regs, pars=[0.6, 0.9])}[ingr]
    touched = {r % N for r in regs}
    if comp == "Xstrict":
        vals = {k: (rng.choice([0.0, 0.5, 1.0]) if k.startswith("squeezing") else dy(rng, 0, 6)) for k in hw12.x_gate_parameters(N, [0], [0])}
        skel = [dict(cls=c, regs=list(m), pars=[vals[p_] if isinstance(p_, str) else p_ for p_ in ps]) for c, m, ps in hw12.x_layout_skeleton(N)]
        s2 = [o for o in skel if o["cls"] == "S2gate"]
        mid = [o for o in skel if o["cls"] not in ("S2gate", "MeasureFock")]
        meas = [o for o in skel if o["cls"] == "MeasureFock"]
    else:
        # the pair(s) the ingredient touches are squeezed or (as often) left unsqueezed
        s2 = [dict(cls="S2gate", regs=[i, i + N], pars=[(rng.choice([0.0, 0.5]) if i in touched else rng.choice([0.5, 1.0, 0.25])), 0.0]) for i in range(N)]
        uk = rng.choice(["haar", "identity", "real", "phased_perm"] if N >= 2 else ["identity", "phases"])
        U = hw12.rand_unitary(nprng, N, uk)
        mid = [dict(cls="Interferometer", regs=list(range(N)), U=enc_U(U)), dict(cls="Interferometer", regs=list(range(N, n)), U=enc_U(U))]
        meas = [dict(cls="MeasureFock", regs=list(range(n)), pars=[])]
    ops_ = {"first": [ins] + s2 + mid, "mid": s2 + [ins] + mid, "last": s2 + mid + [ins]}[stage] + meas
    case = dict(kind="x", N=N, comp=comp, sq="wide", ph="fixture", complist=rng.choice([[], [comp]]), modes=n,
                desc=dict(n=n, ops=ops_), kinds=[f"sweep:{ingr}", f"sweep-pos:{pname}", f"sweep-stage:{stage}"])
    return case


def source_form(desc, N):
    """independent of SF: is the source's state of the X-series form?  From the own reference state: adjacency matrix B (thewalrus
    Amat of the own covariance) — B00 = B11 = 0 and B01 symmetric — plus zero mean; and, when the program is 'squeezers on the pairs
    (i, i+N) first, then passive gates', the blocks of the passive unitary.  Returns a dict of the largest deviations."""
    from thewalrus.quantum import Amat
    nn = desc["n"]
    if nn != 2 * N or any(o["cls"] in ("Del", "Dgate") for o in desc["ops"]):
        return None
    st = ref_state(nn, desc_oplist(desc))
    A = Amat(st.V, hbar=2.0)
    B = A[:nn, :nn]
    out = dict(b00=float(np.max(np.abs(B[:N, :N]))), b11=float(np.max(np.abs(B[N:, N:]))),
               asym=float(np.max(np.abs(B[:N, N:] - B[:N, N:].T))))
    gates = [o for o in desc["ops"] if not o["cls"].startswith("Measure")]
    k = 0
    while k < len(gates) and gates[k]["cls"] == "S2gate" and gates[k]["regs"][1] == gates[k]["regs"][0] + N and gates[k]["regs"][0] < N:
        k += 1
    rest = gates[k:]
    if all(o["cls"] in ("Rgate", "BSgate", "MZgate", "Interferometer") for o in rest):
        # the passive part as a matrix: apply every gate to the identity
        S = np.eye(2 * nn)
        for o in rest:
            if o["cls"] == "Interferometer":
                U_ = dec_U(o["U"]); G = np.block([[U_.real, -U_.imag], [U_.imag, U_.real]])
            else:
                G, _ = sim.gate_symplectic(o["cls"], [float(x) for x in o["pars"]])
            if o.get("dagger"):
                G = np.linalg.inv(G)
            m = list(o["regs"]); ix = m + [x + nn for x in m]
            S[ix, :] = G @ S[ix, :]
        U = S[:nn, :nn] + 1j * S[nn:, :nn]
        out.update(u_off=float(max(np.max(np.abs(U[:N, N:])), np.max(np.abs(U[N:, :N])))), u_diff=float(np.max(np.abs(U[:N, :N] - U[N:, N:]))))
    return out


def gen_x_case(rng, nprng, thorough=False):
    N = rng.choice([2, 2, 3, 3, 4, 4, 5, 6] if thorough else [2, 2, 3, 3, 4, 5, 6])
    comp = rng.choice(["Xunitary", "Xunitary", "Xcov", "Xcov", "Xstrict"])
    sqk = rng.choice(["fixture", "fixture", "interval", "mixed", "wide"])
    phk = rng.choice(["fixture", "fixture", "interval", "narrow"]) if rng.random() < 0.5 else "fixture"
    complist = rng.choice([[], [], [comp], ["Xcov"], ["Xunitary", "Xcov"]])
    modes = 2 * N if rng.random() < 0.9 else rng.choice([2 * N + 2, 2 * N - 2])
    case = dict(kind="x", N=N, comp=comp, sq=sqk, ph=phk, complist=complist, modes=modes)
    if rng.random() < 0.12:        # a device with a layout but without allowed parameter values
        case["gp"] = rng.choice(["none", "empty"])
    spec = case_spec(case)
    amps = SQ_VARIANTS[sqk][1]
    if comp == "Xstrict":
        desc, kinds = gen_strict_source(rng, N, spec, amps)
    else:
        desc, kinds = gen_x_source(rng, nprng, N, comp, amps)
    case["desc"] = desc
    case["kinds"] = kinds
    return case


def case_spec(case):
    if case.get("gp") in ("none", "empty"):
        return hw12.x_spec(case["N"], None, None if case["gp"] == "none" else {}, compiler=case["complist"], modes=case["modes"])
    return hw12.x_spec(case["N"], SQ_VARIANTS[case["sq"]][0], PH_VARIANTS[case["ph"]], compiler=case["complist"],
                       modes=case["modes"])


# ====================================================================== oracle (X series)
DOCUMENTED_VALUE_ERRORS = ("has invalid value", "not a valid parameter for this device", "cannot be represented in Blackbird")


def classify_exception(e, CircuitError):
    if isinstance(e, CircuitError):
        return "CircuitError"
    if isinstance(e, ValueError) and any(s in str(e) for s in DOCUMENTED_VALUE_ERRORS):
        return "ValueError(range)"
    return None


def prog_snapshot(prog):
    """content of a program, deep enough to see in-place edits of shared operations / commands / options"""
    out = []
    for c in prog.circuit:
        ps = []
        for x in c.op.p:
            ps.append(repr(np.asarray(x).tolist()) if isinstance(x, np.ndarray) else repr(x))
        out.append((type(c.op).__name__, tuple(r.ind for r in c.reg), tuple(ps), bool(getattr(c.op, "dagger", False)),
                    repr(getattr(c.op, "select", None)), repr(getattr(c.op, "dark_counts", None)), id(c.op)))
    return out, [r.ind for r in prog.register], (repr(prog.tdm_params) if hasattr(prog, "tdm_params") else None)


def x_outcome(sf, prog, dev, comp):
    """('err', class) or ('ok', skeleton with rounded parameters, options of the final measurement, compiled program)"""
    from strawberryfields.program_utils import CircuitError
    reset_compilers(sf)
    try:
        compiled = prog.compile(device=dev, compiler=comp)
    except Exception as e:  # noqa: BLE001
        return ("err", classify_exception(e, CircuitError) or f"{type(e).__name__}: {str(e)[:120]}", None, e)
    finally:
        reset_compilers(sf)
    sk = hw12.circuit_skeleton(compiled)
    key = [(c, tuple(m), tuple(round(x, 9) if isinstance(x, float) else x for x in p)) for c, m, p in sk]
    last = compiled.circuit[-1].op
    return ("ok", key, (repr(getattr(last, "select", None)), repr(getattr(last, "dark_counts", None))), compiled)


def x_oracle(ctx, sf, case, count=True):
    try:
        _x_oracle(ctx, sf, case, count)
    except Exception as e:  # noqa: BLE001   (an exception of the code under test inside the oracle is a finding with an input)
        import traceback
        ctx.fail(f"x-oracle-crash:{type(e).__name__}", f"{case['comp']}: {type(e).__name__} {str(e)[:150]} at {traceback.format_exc().splitlines()[-3].strip()[:120]}",
                 dict(case))


def _x_oracle(ctx, sf, case, count=True):
    from strawberryfields.program_utils import CircuitError, validate_gate_parameters
    import strawberryfields.ops as ops
    N, comp, desc = case["N"], case["comp"], case["desc"]
    n = 2 * N
    nn = desc["n"]
    spec = case_spec(case)
    spec0 = copy.deepcopy(spec)
    rp = {k: v for k, v in case.items()}
    ctx.oracle_cases += 1
    try:
        dev = sf.Device(spec)
        prog = build_prog(sf, desc)
    except Exception as e:  # noqa: BLE001  (generator made something the front end refuses: not a compile matter)
        ctx.tally(f"x:unbuildable:{type(e).__name__}")
        return
    snap0 = prog_snapshot(prog)
    nz = any(o["cls"] in ("S2gate", "Sgate") and abs(o["pars"][0]) > 0 for o in desc["ops"])
    res = x_outcome(sf, prog, dev, comp)
    # ---- inputs untouched; same call again gives the same outcome (objects reused: program, device, shared operations)
    if prog_snapshot(prog) != snap0:
        ctx.fail(f"x-input-mutated:{comp}", f"{comp}: compiling changed the source program in place", rp)
    if spec != spec0 or dev._spec != spec0:
        ctx.fail(f"x-spec-mutated:{comp}", f"{comp}: compiling changed the device specification in place", rp)
    if case.get("repeat", True) and (len(desc["ops"]) % 3 == 0 or not count):
        res2 = x_outcome(sf, prog, dev, comp)
        if res[:3] != res2[:3]:
            ctx.fail(f"x-not-repeatable:{comp}", f"{comp}: compiling the same program for the same device twice gives {res[0]}/{res[1] if res[0] == 'err' else ''} "
                     f"then {res2[0]}/{res2[1] if res2[0] == 'err' else ''}", rp)
    form = source_form(desc, N) if comp in ("Xcov", "Xunitary") else None
    if res[0] == "err":
        if count:
            ctx.count(f"x:{comp}:rejected", dict(c=case), len(desc["ops"]) >= 3)
            for k in case.get("kinds", []):
                ctx.tally(f"x:kind:{k}")
        # a rejection "not of the device's form" is only right when the source really is not (decided from the own reference state)
        msg = str(res[3])
        verdict = "cannot mix" in msg or "must be identical" in msg
        if form and verdict and comp == "Xcov" and max(form["b00"], form["b11"], form["asym"]) < 1e-9:
            ctx.fail("x-rejects-implementable:Xcov", f"Xcov rejects ('{msg[:60]}') a source whose adjacency matrix has B00 = B11 = 0 and symmetric B01 "
                     f"(deviations {form})", rp)
        if form and verdict and comp == "Xunitary" and "u_off" in form and max(form["u_off"], form["u_diff"]) < 1e-9:
            ctx.fail("x-rejects-implementable:Xunitary", f"Xunitary rejects ('{msg[:60]}') squeezers on the pairs followed by a unitary that is the same on "
                     f"both halves and does not mix them (deviations {form})", rp)
        if res[1] not in ("CircuitError", "ValueError(range)"):
            ctx.fail(f"x-compile-raises:{type(res[3]).__name__}:{comp}",
                     f"{comp} on {n} modes raised {res[1]} (neither a circuit error nor a compiled circuit)", rp)
        else:
            ctx.tally(f"x:{comp}:{res[1]}")
        return
    compiled = res[3]
    if form and comp == "Xcov" and max(form["b00"], form["b11"]) > 1e-5:
        ctx.fail("x-accepts-nonimplementable:Xcov", f"Xcov accepts a source whose state squeezes / entangles inside one half: max|B00| = {form['b00']:.3g}, "
                 f"max|B11| = {form['b11']:.3g} (the chip only pairs mode i with mode i+N)", rp)
    if count:
        ctx.count(f"x:{comp}:accepted", dict(c=case), nz, sample=dict(N=N, comp=comp, kinds=case.get("kinds"), nops=len(desc["ops"])))
        for k in case.get("kinds", []):
            ctx.tally(f"x:kind:{k}")
    # (a) conformance, (b) ranges — independent of Blackbird / SF validation
    sk = hw12.circuit_skeleton(compiled)
    reason, params = hw12.check_against_layout(sk, hw12.x_layout_skeleton(N), spec["gate_parameters"])
    if reason:
        sig = "x-out-of-range" if "outside" in reason else "x-nonconforming"
        ctx.fail(f"{sig}:{comp}", f"{comp} accepted a program on {n} modes but the compiled circuit does not fit the device: {reason}", rp)
        return
    if nn > case["modes"]:
        ctx.fail(f"x-too-many-modes:{comp}", f"{nn}-mode program accepted for a {case['modes']}-mode device", rp)
    try:
        validate_gate_parameters(compiled, dev, validate_values=bool(spec["gate_parameters"]))
    except Exception as e:  # noqa: BLE001
        ctx.fail(f"x-revalidate:{comp}", f"validate_gate_parameters rejects the circuit {comp} returned: {type(e).__name__} {str(e)[:100]}", rp)
    # measurement options (post-selection, dark counts) belong to the experiment
    want_sel, want_dark = {}, {}
    for o in desc["ops"]:
        if o["cls"] == "MeasureFock":
            want_sel.update(zip(o["regs"], o.get("select") or []))
            want_dark.update(zip(o["regs"], o.get("dark") or []))
    last = compiled.circuit[-1]
    got_sel = dict(zip([r.ind for r in last.reg], last.op.select or []))
    got_dark = dict(zip([r.ind for r in last.reg], last.op.dark_counts or []))
    if got_sel != want_sel or {k: v for k, v in got_dark.items() if v} != {k: v for k, v in want_dark.items() if v}:
        ctx.fail(f"x-measurement-options:{comp}", f"{comp}: source measures with select={want_sel} dark_counts={want_dark}, "
                 f"compiled circuit with select={got_sel} dark_counts={got_dark}", rp)
    # (c) same photon statistics
    src = ref_state(nn, desc_oplist(desc))
    out = ref_state(nn, [(c, m, p) for c, m, p in sk])
    _, Ns, Ms = src.alpha_N_M()
    _, Nc, Mc = out.alpha_N_M()
    scale = max(1.0, float(np.max(np.abs(Ns))), float(np.max(np.abs(Ms))))
    if comp in ("Xunitary", "Xstrict"):
        d = max(float(np.max(np.abs(Ns - Nc))), float(np.max(np.abs(Ms - Mc))))
        if d > 1e-6 * scale:
            ctx.fail(f"x-state-differs:{comp}", f"{comp}: Gaussian state of the compiled circuit differs from the source (moment distance {d:.3g})", rp)
    else:
        d = max(float(np.max(np.abs(np.abs(Ns) - np.abs(Nc)))), float(np.max(np.abs(np.abs(Ms) - np.abs(Mc)))))
        bad = d > 1e-6 * scale
        if not bad and scale < 6:
            import random as _r
            pats = hw12.rand_patterns(_r.Random(len(desc["ops"]) * 7919 + N), nn, 5 if nn <= 8 else 3, max_total=4 if nn <= 8 else 2)
            ps, pc = hw12.fock_probs(src.V, pats, 2.0), hw12.fock_probs(out.V, pats, 2.0)
            d = float(np.max(np.abs(ps - pc)))
            bad = d > 1e-7
        if bad:
            ctx.fail(f"x-statistics-differ:{comp}", f"{comp}: photon statistics of the compiled circuit differ from the source ({d:.3g})", rp)


# ====================================================================== TDM oracle
def fixture_ns(sf):
    """the device fixtures of tests/frontend/compilers/conftest.py (read from the checkout)"""
    from lib import core
    src = (core.REPO / "tests" / "frontend" / "compilers" / "conftest.py").read_text()
    ns = {}
    exec(compile(src.split("def generate_X8_params")[0], "conftest_fixture", "exec"), ns)  # noqa: S102
    return ns


BOREALIS_SKEL = [("Sgate", [43]), ("Rgate", [43]), ("BSgate", [42, 43]), ("Rgate", [43]), ("Rgate", [42]), ("BSgate", [36, 42]),
                 ("Rgate", [42]), ("Rgate", [36]), ("BSgate", [0, 36]), ("Rgate", [36]), ("MeasureFock", [0])]
DELAYS = [1, 6, 36]


def borealis_device(sf, fx, loop_phases, gp_override=None):
    spec = copy.deepcopy(fx["borealis_spec"])
    if gp_override:
        spec["gate_parameters"].update(gp_override)
    cert = copy.deepcopy(fx["borealis_cert"])
    cert["loop_phases"] = list(loop_phases)
    return sf.Device(spec=spec, cert=cert), spec


def build_borealis(sf, case):
    import strawberryfields.ops as ops
    from strawberryfields.tdm.utils import get_mode_indices
    n, Nc = get_mode_indices(DELAYS)
    prog = sf.TDMProgram(Nc)
    ga = case["args"]
    if case.get("via_utils"):
        ga = utils_args(sf, case)
    mut = case.get("mut")
    if mut and mut.startswith("bs-phase-array"):
        L_ = len(ga[0])
        arr_ = {"bs-phase-array-ok": [PI / 2] * L_, "bs-phase-array-const": [0.3] * L_,
                "bs-phase-array-one": [PI / 2] * (L_ - 1) + [1.0]}[mut]
        ga = list(ga) + [arr_]
    with prog.context(*ga) as (p, q):
        if mut == "first-rgate":
            ops.Rgate(0.12) | q[n[0]]
        else:
            ops.Sgate(p[0]) | q[n[0]]
        for i in range(3):
            ops.Rgate(p[2 * i + 1]) | q[n[i]]
            if mut == "bs-swapped" and i == 1:
                ops.BSgate(p[2 * i + 2], PI / 2) | (q[n[i]], q[n[i + 1]])
            elif mut == "bs-phase" and i == 2:
                ops.BSgate(p[2 * i + 2], 0.5) | (q[n[i + 1]], q[n[i]])
            elif mut and mut.startswith("bs-phase-array") and i == 1:
                ops.BSgate(p[2 * i + 2], p[7]) | (q[n[i + 1]], q[n[i]])     # the fixed phase as a per-time-bin array
            else:
                ops.BSgate(p[2 * i + 2], PI / 2) | (q[n[i + 1]], q[n[i]])
            off = case["offsets"][i]
            if off is not None:
                ops.Rgate(off) | q[n[i]]
            if mut == "extra-rgate" and i == 0:
                ops.Rgate(0.3) | q[n[i]]
        if mut != "no-measure":
            if mut == "homodyne":
                ops.MeasureHomodyne(0.0) | q[0]
            else:
                ops.MeasureFock() | q[0]
    return prog


def utils_args(sf, case):
    """the gate arguments after tdm.utils.make_phases_compatible (dictionary form and back)"""
    from strawberryfields.tdm import utils as tu
    dev = types.SimpleNamespace(certificate={"loop_phases": list(case["loop_phases"])})
    a = case["args"]
    d = {"Sgate": list(a[0]), "loops": {i: {"Rgate": list(a[1 + 2 * i]), "BSgate": list(a[2 + 2 * i])} for i in range(3)}}
    out = tu.make_phases_compatible(d, dev)
    return [out["Sgate"]] + [out["loops"][i][g] for i in range(3) for g in ("Rgate", "BSgate")]


def gen_borealis_case(rng):
    L = rng.choice([10, 20, 37, 46, 50, 60])
    lp = [rng.choice([0.1, -0.1, 3.0, 0.0, 1.0, -2.5, PI / 7]) for _ in range(3)]
    if rng.random() < 0.3:      # certificates with exact zeros next to small non-zero phases
        lp = list(rng.choice([[0.01, 0.0, 0.02], [0.01, 0.015, 0.0], [0.3, 0.0, 0.0], [0.0, 0.2, 0.0], [0.0, 0.0, 0.05], [-0.02, 0.0, 0.0]]))
    inrange = rng.random() < 0.88
    small = rng.random() < 0.5      # requested phases already inside the modulators' range

    def arr(lo, hi):
        return [rng.uniform(lo, hi) if rng.random() < 0.9 else 0 for _ in range(L)]
    args = [arr(0, 1.9 if inrange else 2.5)]
    for i in range(3):
        args.append(arr(-1.4, 1.4) if small else (arr(-6, 6) if rng.random() < 0.7 else [rng.choice([1, 0, -2]) for _ in range(L)]))
        args.append(arr(0, 1.5 if inrange else 2.0))
    offsets = [None, None, None]
    u = rng.random()
    if u < 0.25:
        offsets = list(lp)
    elif u < 0.45:
        k = rng.randrange(3)
        offsets[k] = lp[k] if rng.random() < 0.7 else 0.25
    mut = rng.choice([None] * 10 + ["no-measure", "first-rgate", "bs-swapped", "bs-phase", "extra-rgate", "homodyne",
                                    "bs-phase-array-ok", "bs-phase-array-const", "bs-phase-array-one"])
    case = dict(kind="borealis", L=L, loop_phases=lp, args=args, offsets=offsets, mut=mut,
                via_utils=(offsets == [None, None, None] and rng.random() < 0.3), loss=rng.random() < 0.25)
    if rng.random() < 0.25:     # allowed values that are a union of separate values / ranges; arrays whose extremes are allowed
        which = rng.choice(["s", "bs0", "bs2"])
        gaps = {"s": [0, [0.3, 0.8], 1.9], "bs0": [0, [0.6, 1.1], PI / 2], "bs2": [[0, 0.2], [0.9, PI / 2]]}[which]
        case["gpo"] = {which: gaps}
        k = {"s": 0, "bs0": 2, "bs2": 6}[which]
        lo_, hi_ = 0.0, (1.9 if which == "s" else PI / 2)
        vals = [lo_, hi_] + [rng.choice([0.45, 0.7, 1.0, 0.25, 1.3, 0.1]) for _ in range(L - 2)]
        rng.shuffle(vals)
        case["args"][k] = vals
    return case


def wrap_to_pi(x):
    y = np.mod(x, 2 * PI)
    return np.where(y > PI, y - 2 * PI, y)


def borealis_oracle(ctx, sf, fx, case, count=True):
    try:
        _borealis_oracle(ctx, sf, fx, case, count)
    except Exception as e:  # noqa: BLE001
        ctx.fail(f"tdm-oracle-crash:{type(e).__name__}", f"borealis: {type(e).__name__} {str(e)[:150]}", dict(case))


def _borealis_oracle(ctx, sf, fx, case, count=True):
    from strawberryfields.program_utils import CircuitError
    from strawberryfields.parameters import par_evaluate
    dev, spec = borealis_device(sf, fx, case["loop_phases"], case.get("gpo"))
    rp = dict(case)
    offsets = list(case["offsets"])
    if case.get("mut") == "extra-rgate" and offsets[0] is None:
        offsets[0] = 0.3          # the additional Rgate(0.3) stands where the layout has loop 0's offset: a user-set offset
    eff_args = case["args"]
    if case.get("via_utils"):
        a0 = copy.deepcopy(case["args"])
        eff_args = utils_args(sf, case)
        if case["args"] != a0:
            ctx.fail("tdm-utils-input-mutated", "make_phases_compatible changed its input in place", rp)
        for i in range(3):
            d_ = np.array(eff_args[1 + 2 * i], dtype=float) - np.array(case["args"][1 + 2 * i], dtype=float)
            off = np.abs(wrap_to_pi(2 * d_)) / 2
            if (i == 0 and np.max(np.abs(d_)) > 0) or np.max(off) > 1e-9 or eff_args[2 + 2 * i] != case["args"][2 + 2 * i]:
                ctx.fail("tdm-utils-phases:borealis", f"make_phases_compatible: loop {i} phases are not the input up to added pi (loop 0: unchanged)", rp)
                return
    ctx.oracle_cases += 1
    try:
        prog = build_borealis(sf, case)
    except Exception as e:  # noqa: BLE001
        ctx.tally(f"tdm:unbuildable:{type(e).__name__}")
        return
    snap0, cert0, spec0 = prog_snapshot(prog), copy.deepcopy(dev.certificate), copy.deepcopy(spec)

    def inputs_untouched():
        if prog_snapshot(prog) != snap0:
            ctx.fail("tdm-input-mutated:borealis", "Borealis: compiling changed the source program (circuit or gate arguments) in place", rp)
        if dev.certificate != cert0 or dev._spec != spec0:
            ctx.fail("tdm-spec-mutated:borealis", "Borealis: compiling changed the device specification / certificate in place", rp)
    reset_compilers(sf)
    try:
        compiled = prog.compile(device=dev)
    except Exception as e:  # noqa: BLE001
        inputs_untouched()
        cl = classify_exception(e, CircuitError)
        if count:
            ctx.count("tdm:borealis:rejected", dict(c=case), True)
            ctx.tally(f"tdm:mut:{case['mut']}")
        if cl is None:
            ctx.fail(f"tdm-compile-raises:{type(e).__name__}:borealis",
                     f"Borealis compile raised {type(e).__name__}: {str(e)[:120]} (mutation {case['mut']}, offsets {case['offsets']})", rp)
        else:
            ctx.tally(f"tdm:borealis:{cl}")
        return
    finally:
        reset_compilers(sf)
    inputs_untouched()
    if count:
        ctx.count("tdm:borealis:accepted", dict(c=case), True, sample=dict(L=case["L"], offsets=case["offsets"], mut=case["mut"]))
        ctx.tally(f"tdm:mut:{case['mut']}")
    # same program, same device, compiled again (no reset in between: the class keeps the layout): same result
    try:
        again = prog.compile(device=dev)
        same = [list(map(float, a)) for a in again.tdm_params] == [list(map(float, a)) for a in compiled.tdm_params] and \
            [(type(c.op).__name__, str(c.op.p)) for c in again.circuit] == [(type(c.op).__name__, str(c.op.p)) for c in compiled.circuit]
        if not same:
            ctx.fail("tdm-not-repeatable:borealis", "Borealis: compiling the same program twice gives different gate arguments", rp)
    except Exception as e:  # noqa: BLE001
        ctx.fail("tdm-not-repeatable:borealis", f"Borealis: second compile of an accepted program raised {type(e).__name__}: {str(e)[:100]}", rp)
    finally:
        reset_compilers(sf)
    # (a) layout, gate for gate and mode for mode
    got = [(type(c.op).__name__, sorted(r.ind for r in c.reg)) for c in compiled.circuit]
    if got != [(c, sorted(m)) for c, m in BOREALIS_SKEL]:
        ctx.fail("tdm-nonconforming:borealis", f"accepted Borealis circuit does not match the layout: {got}", rp)
        return
    L = case["L"]
    gp = spec["gate_parameters"]
    # (b) ranges; loop offsets carry the certificate value unless set by the user
    names = ["s", "r0", "bs0", "r1", "bs1", "r2", "bs2"]
    for k, name in enumerate(names):
        vals = np.array(compiled.tdm_params[k], dtype=float)
        bad = [float(v) for v in vals if not hw12.in_ranges(float(v), gp[name])]
        if bad:
            ctx.fail("tdm-out-of-range:borealis", f"accepted Borealis program has {name} = {bad[0]} outside {gp[name]}", rp)
            return
    offs_pos = [3, 6, 9]
    for i, pos in enumerate(offs_pos):
        v = float(par_evaluate(compiled.circuit[pos].op.p[0]))
        want = offsets[i] if offsets[i] is not None else case["loop_phases"][i]
        if abs(v - want) > 1e-12 or not hw12.in_ranges(v, gp[f"loop{i}_phase"]):
            ctx.fail("tdm-loop-offset:borealis", f"loop {i} offset gate carries {v}, expected {want} within {gp[f'loop{i}_phase']}", rp)
            return
    bsphase = []
    for pos_ in (2, 5, 8):
        v_ = compiled.circuit[pos_].op.p[1]
        try:
            bsphase.append(float(par_evaluate(v_)))
        except Exception:  # noqa: BLE001   a loop variable: all its per-time-bin values count
            k_ = [str(x) for x in compiled.loop_vars].index(str(v_))
            bsphase += [float(x) for x in compiled.tdm_params[k_]]
    if any(abs(b - PI / 2) > 1e-5 for b in bsphase):
        ctx.fail("tdm-fixed-parameter:borealis", f"accepted Borealis program applies beamsplitter phases {sorted(set(round(b, 6) for b in bsphase))}, the layout fixes pi/2", rp)
        return
    # (c) phase compensation: compensated = source + own accumulated offset - previous one (mod pi; mod 2 pi if no shift needed)
    prev = np.zeros(L)
    for i in range(3):
        srcphi = np.array(eff_args[1 + 2 * i], dtype=float)
        newphi = np.array(compiled.tdm_params[1 + 2 * i], dtype=float)
        if offsets[i] is not None:
            if np.max(np.abs(newphi - srcphi)) > 1e-12:
                ctx.fail("tdm-user-offset-recompensated:borealis", f"loop {i}: offset set by the user, but its phases were changed", rp)
            continue
        corr = np.array([case["loop_phases"][i] * (j // DELAYS[i]) for j in range(L)])
        target = srcphi + corr - prev
        w = wrap_to_pi(target)
        dpi = np.abs(wrap_to_pi(2 * (newphi - target))) / 2           # distance modulo pi
        d2pi = np.abs(wrap_to_pi(newphi - target))                      # distance modulo 2 pi
        inr = np.abs(w) < PI / 2 - 1e-9
        if np.max(dpi) > 1e-8 or (inr.any() and np.max(d2pi[inr]) > 1e-8):
            j = int(np.argmax(np.maximum(dpi, np.where(inr, d2pi, 0))))
            ctx.fail("tdm-phase-compensation:borealis",
                     f"loop {i}, time bin {j}: compensated phase {newphi[j]} is not source + offsets = {target[j]} modulo "
                     f"{'2 pi' if inr[j] else 'pi'}", rp)
            return
        if case.get("via_utils") and all(o is None for o in offsets) and i > 0 and not inr.all() and np.min(PI / 2 - np.abs(w[~inr])) < -1e-9:
            j = int(np.argmax(np.abs(w)))
            ctx.fail("tdm-utils-phases-not-compatible:borealis", f"after make_phases_compatible, loop {i} time bin {j} still needs a pi shift "
                     f"(compensated phase {w[j]})", rp)
            return
        prev = corr
    # (e) realistic loss: the same circuit plus the certificate's losses at the documented places
    if case.get("loss"):
        borealis_loss_check(ctx, sf, fx, case, compiled, rp)
    # (d) same photon statistics (last: unrolling changes the compiled program object): the compiled circuit (loop offsets as gates, compensated phases) prepares the state of the
    #     source circuit with the documented pi shifts (loops 1, 2) applied, up to local phases — all pulses, space-unrolled
    if case["mut"] is None and L >= 44:
        shifted = copy.deepcopy(eff_args)
        prev = np.zeros(L)
        for i in range(3):
            if offsets[i] is not None:
                continue
            corr = np.array([case["loop_phases"][i] * (j // DELAYS[i]) for j in range(L)])
            target = np.array(eff_args[1 + 2 * i], dtype=float) + corr - prev
            k = np.round((np.array(compiled.tdm_params[1 + 2 * i], dtype=float) - target) / PI).astype(int)
            if i > 0:
                shifted[1 + 2 * i] = (np.array(eff_args[1 + 2 * i], dtype=float) + PI * (k % 2)).tolist()
            prev = corr
        Nc, Mc = tdm_final_moments(compiled)
        Ne, Me = tdm_final_moments(build_borealis(sf, dict(case, args=shifted, via_utils=False)))
        d = max(float(np.max(np.abs(np.abs(Nc) - np.abs(Ne)))), float(np.max(np.abs(np.abs(Mc) - np.abs(Me)))))
        ctx.tally("tdm:borealis:statistics-compared")
        # a loop whose offset the user set is skipped altogether, also the removal of the frame rotation that compensating an
        # EARLIER loop introduced (known finding): classified separately
        mixed = any(offsets[k] is not None and any(offsets[m] is None and case["loop_phases"][m] != 0 for m in range(k)) for k in range(3))
        if d > 1e-7:
            ctx.fail("tdm-statistics-differ:borealis" + (":user-offset-after-compensated-loop" if mixed else ""), f"Borealis: the compiled circuit (loop offsets {case['loop_phases']}, user-set {offsets}, compensated phases) does not "
                     f"prepare the source's state up to the documented pi shifts and local phases (moment distance {d:.3g})", rp)


def tdm_final_moments(prog):
    """(N, M) moments of all pulses of a TDM program (space-unrolled, measurements dropped), own symplectics"""
    from strawberryfields.parameters import par_evaluate
    prog.space_unroll()
    n = prog.num_subsystems
    V = np.eye(2 * n)
    for c in prog.circuit:
        name = type(c.op).__name__
        if name.startswith("Measure"):
            continue
        S, _ = sim.gate_symplectic(name, [float(par_evaluate(x)) for x in c.op.p])
        if getattr(c.op, "dagger", False):
            S = np.linalg.inv(S)
        m = [r.ind for r in c.reg]
        ix = m + [x + n for x in m]
        V[ix, :] = S @ V[ix, :]
        V[:, ix] = V[:, ix] @ S.T
    A, B, C = V[:n, :n], V[:n, n:], V[n:, n:]
    return 0.25 * (A + C + 1j * (B - B.T) - 2 * np.eye(n)), 0.25 * (A - C + 1j * (B + B.T))


def borealis_loss_check(ctx, sf, fx, case, compiled, rp):
    from strawberryfields.parameters import par_evaluate
    import strawberryfields.ops as ops
    L = case["L"]
    dev, spec = borealis_device(sf, fx, case["loop_phases"])
    rel = [0.9 + 0.005 * k for k in range(16)]
    dev._certificate["relative_channel_efficiencies"] = list(rel)
    cert0 = copy.deepcopy(dev.certificate)
    prog = build_borealis(sf, case)
    reset_compilers(sf)
    try:
        lossy = prog.compile(device=dev, realistic_loss=True)
    except Exception as e:  # noqa: BLE001
        ctx.fail("tdm-loss:borealis", f"realistic_loss=True: compile of a program accepted without it raised {type(e).__name__}: {str(e)[:100]}", rp)
        return
    finally:
        reset_compilers(sf)
    ctx.tally("tdm:borealis:loss-compared")
    if dev.certificate != cert0:
        ctx.fail("tdm-spec-mutated:borealis", "realistic_loss=True changed the device certificate in place", rp)
    kept = [c for c in lossy.circuit if not isinstance(c.op, ops.LossChannel)]
    a = [(type(c.op).__name__, [r.ind for r in c.reg], str(c.op.p)) for c in kept]
    b = [(type(c.op).__name__, [r.ind for r in c.reg], str(c.op.p)) for c in compiled.circuit]
    if a != b or [list(map(float, x)) for x in lossy.tdm_params[:7]] != [list(map(float, x)) for x in compiled.tdm_params[:7]]:
        ctx.fail("tdm-loss:borealis", "realistic_loss=True changes the circuit beyond adding loss channels", rp)
        return
    # documented places: loss before MeasureFock (relative channel efficiencies, per time bin), after Sgate (common efficiency),
    # after each BSgate on its second mode (loop efficiency of that loop)
    want, loop = [], 0
    for c in compiled.circuit:
        name, regs = type(c.op).__name__, [r.ind for r in c.reg]
        if name == "MeasureFock":
            want.append(("param", regs))
        if name == "Sgate":
            want.append((cert0["common_efficiency"], regs))
        if name == "BSgate":
            want.append((cert0["loop_efficiencies"][loop], regs[1:2]))
            loop += 1
    got = []
    for c in lossy.circuit:
        if isinstance(c.op, ops.LossChannel):
            v = c.op.p[0]
            try:
                got.append((float(par_evaluate(v)), [r.ind for r in c.reg]))
            except Exception:  # noqa: BLE001
                got.append(("param", [r.ind for r in c.reg]))
    order_l = [x for x in lossy.circuit]
    # relative order: each loss channel directly before the measurement / directly after its gate
    pos_ok = True
    for i, c in enumerate(order_l):
        if isinstance(c.op, ops.LossChannel):
            nxt = type(order_l[i + 1].op).__name__ if i + 1 < len(order_l) else None
            prv = type(order_l[i - 1].op).__name__ if i > 0 else None
            if not (nxt == "MeasureFock" or prv in ("Sgate", "BSgate")):
                pos_ok = False
    # order of `want` follows the circuit; the loss before the measurement precedes it, the others follow their gate
    wl = [w for w in want if w[0] != "param"] + [w for w in want if w[0] == "param"]
    gl = [g for g in got if g[0] != "param"] + [g for g in got if g[0] == "param"]
    if wl != gl or not pos_ok:
        ctx.fail("tdm-loss:borealis", f"realistic_loss=True: loss channels {got} instead of the certificate's {want}", rp)
        return
    tiled = (rel * ((L + 15) // 16))[:L]
    if [float(x) for x in lossy.tdm_params[-1]] != tiled:
        ctx.fail("tdm-loss:borealis", "realistic_loss=True: per-time-bin detection efficiencies are not the certificate's relative channel efficiencies, tiled", rp)


def gen_tdm1_case(rng):
    """the single-loop fixture of tests/frontend/compilers/test_tdm.py (TDM / TD2 compilers)"""
    c = rng.choice([1, 2, 3])
    target = rng.choice(["TDM", "TD2"])
    mut = rng.choice([None] * 5 + ["dgate", "bs-swapped", "sq-value", "sq-phase", "bs-range", "r-range", "fock", "concurrent", "temporal"])
    alpha = [rng.choice([PI / 4, 0, 0.5, 6.0]) for _ in range(2 * c)]
    phi = [rng.choice([0, PI / 2, 3.0, PI]) for _ in range(2 * c)]
    theta = [rng.choice([0.0, PI / 2, 6.2]) for _ in range(2 * c)]
    if mut == "bs-range":
        alpha[rng.randrange(2 * c)] = 27
    if mut == "r-range":
        phi[rng.randrange(2 * c)] = rng.choice([3.5, -0.1])
    case = dict(kind="tdm1", target=target, c=c, alpha=alpha, phi=phi, theta=theta, mut=mut, sqfix=rng.choice([0.5643, 0.5643, 0.3]))
    if rng.random() < 0.3:      # unions of separate values / ranges, per-bin arrays with allowed extremes and values in between
        case["gp"] = {"bs": [0, [0.4, 0.8], [1.2, 6.283185307179586]], "r": [0, 0.5643, [1.0, 3.141592653589793]], "m": [0, 1.5, 6.2]}
        n_ = 2 * c
        case["alpha"] = [0, 6.0] + [rng.choice([0.2, 0.5, 1.0, 0.9, 1.5]) for _ in range(n_ - 2)]
        case["phi"] = [0, PI] + [rng.choice([0.3, 0.5643, 0.8, 2.0]) for _ in range(n_ - 2)]
        case["theta"] = [0, 6.2] + [rng.choice([1.5, 0.7, 3.0, 0]) for _ in range(n_ - 2)]
        for k_ in ("alpha", "phi", "theta"):
            rng.shuffle(case[k_])
    return case


def tdm1_layout(target, tm=4, sqfix=0.5643):
    import inspect
    return inspect.cleandoc(f"""
        name template_tdm
        version 1.0
        target {target} (shots=1)
        type tdm (temporal_modes={tm}, copies=1)

        float array p1[1, {tm}] =
            {{r}}
        float array p2[1, {tm}] =
            {{bs}}
        float array p3[1, {tm}] =
            {{m}}

        Sgate({sqfix}, 0) | 1
        BSgate({{bs}}, 0) | (1, 0)
        Rgate({{r}}) | 1
        MeasureHomodyne({{m}}) | 0
        """)


TDM1_GP = {"bs": [0, [0, 6.283185307179586]], "r": [0, [0, 3.141592653589793], 3.141592653589793], "m": [0, [0, 6.283185307179586]]}


def build_tdm1(sf, case):
    import strawberryfields.ops as ops
    mut, target = case["mut"], case["target"]
    sqfix = case.get("sqfix", 0.5643)
    modes = {"concurrent": 2 if mut != "concurrent" else 3, "spatial": 1, "temporal_max": 100 if mut != "temporal" else 1}
    spec = {"target": target, "layout": tdm1_layout(target, sqfix=sqfix), "modes": modes, "compiler": [target],
            "gate_parameters": case.get("gp") or TDM1_GP}
    dev = sf.Device(spec)
    prog = sf.TDMProgram(N=2)
    with prog.context(case["alpha"], case["phi"], case["theta"]) as (p, q):
        if mut == "dgate":
            ops.Dgate(sqfix) | q[1]
        else:
            ops.Sgate(2.0 if mut == "sq-value" else sqfix, 0.4 if mut == "sq-phase" else 0) | q[1]
        ops.BSgate(p[0]) | ((q[0], q[1]) if mut == "bs-swapped" else (q[1], q[0]))
        ops.Rgate(p[1]) | q[1]
        if mut == "fock":
            ops.MeasureFock() | q[0]
        else:
            ops.MeasureHomodyne(p[2]) | q[0]
    return prog, dev, modes


def tdm1_oracle(ctx, sf, case, count=True):
    try:
        _tdm1_oracle(ctx, sf, case, count)
    except Exception as e:  # noqa: BLE001
        ctx.fail(f"tdm-oracle-crash:{type(e).__name__}", f"{case['target']}: {type(e).__name__} {str(e)[:150]}", dict(case))


def _tdm1_oracle(ctx, sf, case, count=True):
    from strawberryfields.program_utils import CircuitError
    from strawberryfields.parameters import par_evaluate
    mut, target = case["mut"], case["target"]
    sqfix = case.get("sqfix", 0.5643)
    prog, dev, modes = build_tdm1(sf, case)
    snap0 = prog_snapshot(prog)
    rp = dict(case)
    ctx.oracle_cases += 1
    reset_compilers(sf)
    try:
        compiled = prog.compile(device=dev, compiler=target)
    except Exception as e:  # noqa: BLE001
        cl = classify_exception(e, CircuitError)
        if count:
            ctx.count(f"tdm:{target}:rejected", dict(c=case), True)
        if cl is None:
            ctx.fail(f"tdm-compile-raises:{type(e).__name__}:{target}", f"{target} compile raised {type(e).__name__}: {str(e)[:120]} (mutation {mut})", rp)
        else:
            ctx.tally(f"tdm:{target}:{cl}")
        return
    finally:
        reset_compilers(sf)
    if count:
        ctx.count(f"tdm:{target}:accepted", dict(c=case), True, sample=dict(target=target, mut=mut))
    if prog_snapshot(prog) != snap0:
        ctx.fail(f"tdm-input-mutated:{target}", f"{target}: compiling changed the source program in place", rp)
    if [list(map(float, a)) for a in compiled.tdm_params] != [list(map(float, a)) for a in (case["alpha"], case["phi"], case["theta"])]:
        ctx.fail(f"tdm-parameters-changed:{target}", f"{target} compiler has no parameter update, but the compiled gate arguments differ from the source", rp)
    got = [(type(c.op).__name__, [r.ind for r in c.reg]) for c in compiled.circuit]
    want = [("Sgate", [1]), ("BSgate", [1, 0]), ("Rgate", [1]), ("MeasureHomodyne", [0])]
    if got != want:
        ctx.fail(f"tdm-nonconforming:{target}", f"accepted {target} circuit {got} does not match the layout {want}", rp)
        return
    sq = [float(par_evaluate(x)) for x in compiled.circuit[0].op.p]
    if abs(sq[0] - sqfix) > 1e-9 or abs(sq[1]) > 1e-9 or abs(float(par_evaluate(compiled.circuit[1].op.p[1]))) > 1e-9:
        ctx.fail(f"tdm-fixed-parameter:{target}", f"accepted {target} circuit has fixed layout values changed: Sgate{sq}", rp)
    for name, vals in (("bs", compiled.tdm_params[0]), ("r", compiled.tdm_params[1]), ("m", compiled.tdm_params[2])):
        gp_ = case.get("gp") or TDM1_GP
        bad = [float(v) for v in vals if not hw12.in_ranges(float(v), gp_[name])]
        if bad:
            ctx.fail(f"tdm-out-of-range:{target}", f"accepted {target} program has {name} = {bad[0]} (one of {len(vals)} per-bin values) outside {gp_[name]}", rp)
            return
    if compiled.timebins > modes["temporal_max"] or mut == "concurrent":
        ctx.fail(f"tdm-mode-limits:{target}", f"accepted {target} program exceeds the device mode limits {modes}", rp)



# ====================================================================== state kept between compiles, helper functions
def hard_reset(sf):
    from strawberryfields.compilers import compiler_db
    for c in set(compiler_db.values()):
        c._layout = None
        c._graph = None


def prepare_any(sf, fx, case):
    if case["kind"] == "x":
        return build_prog(sf, case["desc"]), sf.Device(case_spec(case)), case["comp"]
    if case["kind"] == "borealis":
        return build_borealis(sf, case), borealis_device(sf, fx, case["loop_phases"], case.get("gpo"))[0], None
    prog, dev, _ = build_tdm1(sf, case)
    return prog, dev, case["target"]


def outcome_any(sf, prog, dev, comp):
    from strawberryfields.program_utils import CircuitError
    try:
        c = prog.compile(device=dev, compiler=comp) if comp else prog.compile(device=dev)
    except Exception as e:  # noqa: BLE001
        return ("err", classify_exception(e, CircuitError) or f"{type(e).__name__}: {str(e)[:100]}")
    key = [(type(x.op).__name__, tuple(r.ind for r in x.reg), str([round(float(v), 9) if isinstance(v, (int, float)) else str(v) for v in x.op.p]))
           for x in c.circuit]
    tp = [[round(float(v), 9) for v in a] for a in c.tdm_params] if hasattr(c, "tdm_params") else None
    return ("ok", key, tp)



def outcome_inst(sf, prog, dev, comp):
    """like outcome_any; `comp` may be a Compiler INSTANCE; dev may be None; matrices in the key are rounded"""
    from strawberryfields.program_utils import CircuitError
    try:
        kw = dict(compiler=comp) if comp is not None else {}
        if dev is not None:
            kw["device"] = dev
        c = prog.compile(**kw)
    except Exception as e:  # noqa: BLE001
        return ("err", classify_exception(e, CircuitError) or f"{type(e).__name__}: {str(e)[:100]}")

    def pv(v):
        if isinstance(v, np.ndarray):
            return "arr" + str(np.round(v, 8).tolist())
        try:
            return round(float(v), 9)
        except Exception:  # noqa: BLE001
            return str(v)
    key = [(type(x.op).__name__, tuple(r.ind for r in x.reg), str([pv(v) for v in x.op.p]), bool(getattr(x.op, "dagger", False)),
            str(getattr(x.op, "select", None)), str(getattr(x.op, "dark_counts", None))) for x in c.circuit]
    tp = [[round(float(v), 9) for v in a] for a in c.tdm_params] if hasattr(c, "tdm_params") else None
    return ("ok", key, tp)


def gaussian_desc(rng, n):
    ops_ = []
    for _ in range(rng.randint(1, 6)):
        k = rng.choice(["Sgate", "Rgate", "BSgate", "S2gate"] if n >= 2 else ["Sgate", "Rgate"])
        if k in ("BSgate", "S2gate"):
            ops_.append(dict(cls=k, regs=rng.sample(range(n), 2), pars=[dy(rng, 0, 1), dy(rng, 0, 2)]))
        else:
            ops_.append(dict(cls=k, regs=[rng.randrange(n)], pars=[dy(rng, -1, 1)] + ([0.0] if k == "Sgate" else [])))
    meas = list(range(n))
    rng.shuffle(meas)
    meas = meas[:rng.randint(1, n)]
    c = rng.randint(1, len(meas))
    ops_.append(dict(cls="MeasureFock", regs=meas[:c], pars=[]))
    if meas[c:]:
        ops_.append(dict(cls="MeasureFock", regs=meas[c:], pars=[]))
    return dict(n=n, ops=ops_)


def instance_pool(ctx, sf, fx, name):
    """2-4 programs (+ devices) for ONE compiler instance, differing in what the compiler might keep between compiles"""
    rng, nprng = ctx.rng, ctx.nprng(17)
    k = rng.randint(2, 4)
    pool = []
    if name == "borealis":
        lp = [rng.choice([0.1, -0.1, 0.3, 1.0, -2.5]) for _ in range(3)]
        L = rng.choice([10, 20])
        for j in range(k):
            c = gen_borealis_case(rng)
            while c.get("gpo"):
                c = gen_borealis_case(rng)
            # same certificate, different programs: offsets left to the compiler / spelled out by the user / mixed; other arrays
            pats = [[None] * 3, list(lp), [lp[0], None, None], [None, None, lp[2]]]
            if ctx.extra.setdefault("_inst_flip", 0) % 2:
                pats = [pats[1], pats[0], pats[3], pats[2]]
            offs = pats[j % 4]
            c.update(L=L, loop_phases=list(lp), args=[[min(max(x, -1.4), 1.4) for x in a[:L]] + [0.3] * max(0, L - len(a)) for a in c["args"]],
                     offsets=offs, mut=None, loss=False, via_utils=False)
            c["args"][0] = [abs(x) for x in c["args"][0]]
            for i_ in (2, 4, 6):
                c["args"][i_] = [min(abs(x), 1.4) for x in c["args"][i_]]
            pool.append(c)
        ctx.extra["_inst_flip"] += 1
    elif name in ("TDM", "TD2"):
        for j in range(k):
            c = gen_tdm1_case(rng)
            c.update(target=name, mut=rng.choice([None, None, None, "bs-swapped", "sq-value"]), sqfix=rng.choice([0.5643, 0.5643, 0.3]))
            c.pop("gp", None)
            c["alpha"] = [min(a, 6.0) for a in c["alpha"]]
            c["phi"] = [x if 0 <= x <= PI else 0.5 for x in c["phi"]]
            pool.append(c)
    elif name in ("Xcov", "Xunitary", "Xstrict"):
        N = rng.choice([2, 3])
        for j in range(k):
            c = gen_x_case(rng, nprng)
            tries = 0
            while (c["comp"] != name or c["N"] != N or c.get("gp") or c["desc"]["n"] != 2 * N) and tries < 200:
                c = gen_x_case(rng, nprng); tries += 1
            if c["comp"] != name or c["N"] != N:
                continue
            c["complist"] = rng.choice([[], [name]])
            pool.append(c)
    else:   # compilers without a device: gbs, gaussian, gaussian_unitary, gaussian_merge, passive
        for j in range(k):
            n = rng.randint(1, 4)
            d = gaussian_desc(rng, n)
            if name in ("gaussian_unitary", "passive"):
                d["ops"] = [o for o in d["ops"] if o["cls"] != "MeasureFock" and (name != "passive" or o["cls"] in ("Rgate", "BSgate"))] or \
                    [dict(cls="Rgate", regs=[0], pars=[0.5])]
            pool.append(dict(kind="plain", comp=name, desc=d))
    return pool


def prepare_inst(sf, fx, case):
    if case["kind"] == "plain":
        return build_prog(sf, case["desc"]), None, case["comp"]
    return prepare_any(sf, fx, case)


INSTANCE_CLASSES = ["borealis", "borealis", "TDM", "TD2", "Xcov", "Xunitary", "Xstrict", "gbs", "gaussian", "gaussian_unitary", "gaussian_merge", "passive"]


def run_instance_sequence(ctx, sf, fx, name, pool, report=True):
    """ONE compiler instance for the whole sequence; every result must equal that of a fresh instance on an equal, freshly built
    program (both under a freshly reset class, so only what the INSTANCE remembers can make a difference)"""
    from strawberryfields.compilers import compiler_db
    cls = compiler_db[name]
    inst = cls()
    hist = []
    for i, case in enumerate(pool):
        hist.append(i)
        cls.reset_circuit()
        prog, dev, _ = prepare_inst(sf, fx, case)
        want = outcome_inst(sf, prog, dev, cls())
        cls.reset_circuit()
        prog2, dev2, _ = prepare_inst(sf, fx, case)
        got = outcome_inst(sf, prog2, dev2, inst)
        cls.reset_circuit()
        ctx.oracle_cases += 1
        if got != want:
            if report:
                def brief(o):
                    return o[0] + ("/" + o[1] if o[0] == "err" else "")
                detail = ""
                if got[0] == want[0] == "ok" and got[2] and want[2]:
                    ch = [sum(1 for a, b in zip(x, y) if a != b) for x, y in zip(got[2], want[2])]
                    detail = f"; changed per-bin values per gate-argument array: {ch}"
                ctx.fail(f"instance-state:{name}", f"{name}: program {i} of a sequence compiled with ONE compiler instance gives {brief(got)}, a fresh instance gives "
                         f"{brief(want)}{detail} (sequence: {[ {k_: v for k_, v in c.items() if k_ in ('offsets', 'loop_phases', 'mut', 'N', 'comp', 'target')} for c in pool[:i + 1]]})",
                         dict(kind="instance", name=name, pool=pool[:i + 1]))
            return True
    return False


def instance_oracle(ctx, sf, fx):
    rng = ctx.rng
    for rep in range(ctx.n(1, 6)):
        for name in INSTANCE_CLASSES:
            try:
                pool = instance_pool(ctx, sf, fx, name)
                ctx.count(f"instance:{name}", None, True)
                if len(pool) >= 2:
                    run_instance_sequence(ctx, sf, fx, name, pool)
            except Exception as e:  # noqa: BLE001
                ctx.fail(f"instance-oracle-crash:{name}:{type(e).__name__}", f"{name}: {type(e).__name__} {str(e)[:150]}", dict(kind="none"))
    ctx.extra.pop("_inst_flip", None)
    hard_reset(sf)


def history_oracle(ctx, sf, fx):
    """compilers keep the layout (and its graph) as class attributes between compiles: the outcome of a compile must not
    depend on what was compiled before, given the documented `reset_circuit()` — and without a reset only through the
    documented 'Circuit already set' CircuitError"""
    from strawberryfields.compilers import compiler_db
    rng, nprng = ctx.rng, ctx.nprng(31)
    strip = lambda t: (t or "").replace("\n", "")
    for _ in range(ctx.n(3, 30)):
        pool = []
        comp = rng.choice(["Xunitary", "Xcov", "Xstrict"])
        for _k in range(3):
            c = gen_x_case(rng, nprng)
            tries = 0
            while (c["comp"] != comp or c.get("gp")) and tries < 40:
                c = gen_x_case(rng, nprng); tries += 1
            c["complist"] = [c["comp"]]              # default compiler == requested one: the layout is stored in the class
            pool.append(c)
        tgt = rng.choice(["TDM", "TD2"])
        for _k in range(3):
            c = gen_tdm1_case(rng)
            c["target"] = tgt
            c["mut"] = None if _k < 2 else rng.choice([None, "sq-value", "bs-swapped"])
            c["sqfix"] = [0.5643, 0.3, rng.choice([0.5643, 0.3])][_k]
            c["alpha"] = [min(a, 6.0) for a in c["alpha"]]
            c["phi"] = [x if 0 <= x <= PI else 0.5 for x in c["phi"]]
            pool.append(c)
        b = gen_borealis_case(rng)
        b.update(L=10, args=[a[:10] for a in b["args"]], mut=None, loss=False, via_utils=False)
        pool.append(b)
        fresh = []
        for c in pool:
            hard_reset(sf)
            prog, dev, cn = prepare_any(sf, fx, c)
            fresh.append(outcome_any(sf, prog, dev, cn))
        hard_reset(sf)
        # scripted pairs first: two programs accepted on a fresh class, same compiler class, different layouts
        steps = []
        layouts = [strip(prepare_any(sf, fx, c)[1].layout) for c in pool]
        names = [(c.get("comp") or c.get("target") or "borealis") for c in pool]
        pairs = [(i, j) for i in range(len(pool)) for j in range(len(pool)) if i != j and names[i] == names[j]
                 and layouts[i] != layouts[j] and fresh[i][0] == "ok" and fresh[j][0] == "ok"]
        for (i, j) in pairs[:2]:
            steps += [(i, "reset"), (j, "reset"), (i, "reset"), (j, "none"), (j, "reset"), (j, "none")]
        steps += [(rng.randrange(len(pool)), rng.choice(["reset", "reset", "none"])) for _ in range(8)]
        hist = []
        for i, policy in steps:
            c = pool[i]
            prog, dev, cn = prepare_any(sf, fx, c)
            name = cn or dev.default_compiler
            cls = compiler_db[name]
            if policy == "reset":
                cls.reset_circuit()
            clash = bool(cls._layout) and strip(cls._layout) != strip(dev.layout) and dev.default_compiler == cls.short_name
            got = outcome_any(sf, prog, dev, cn)
            hist.append((i, policy))
            ctx.oracle_cases += 1
            ctx.count("history:" + policy + (":clash" if clash else ""), None, True)
            want = ("err", "CircuitError") if clash else fresh[i]
            if got != want:
                rp = dict(kind="history", pool=pool, hist=hist)
                ctx.fail(f"history-dependent:{name}", f"{name}: after the compile history {hist} (reset = reset_circuit() before the compile) the outcome is "
                         f"{got[0]}{'/' + got[1] if got[0] == 'err' else ''}, on a fresh class it is {want[0]}{'/' + want[1] if want[0] == 'err' else ''}", rp)
                break
        hard_reset(sf)


def replay_history(ctx, sf, fx, rp):
    from strawberryfields.compilers import compiler_db
    pool, hist = rp["pool"], rp["hist"]
    strip = lambda t: (t or "").replace("\n", "")
    fresh = {}
    for i, _ in hist:
        if i not in fresh:
            hard_reset(sf)
            prog, dev, cn = prepare_any(sf, fx, pool[i])
            fresh[i] = outcome_any(sf, prog, dev, cn)
    hard_reset(sf)
    bad = False
    for i, policy in hist:
        prog, dev, cn = prepare_any(sf, fx, pool[i])
        cls = compiler_db[cn or dev.default_compiler]
        if policy == "reset":
            cls.reset_circuit()
        clash = bool(cls._layout) and strip(cls._layout) != strip(dev.layout) and dev.default_compiler == cls.short_name
        got = outcome_any(sf, prog, dev, cn)
        bad = got != (("err", "CircuitError") if clash else fresh[i])
    hard_reset(sf)
    if bad:
        ctx.fail("history-dependent", "outcome depends on the compile history", rp)


def helpers_oracle(ctx, sf, fx):
    """public helpers of the anchored files that the compile path or its users rely on: documented behaviour pinned"""
    from strawberryfields.tdm import utils as tu
    rng = ctx.rng
    # get_mode_indices: n[i] = sum(delays[i:]), N = sum(delays) + 1
    for _ in range(ctx.n(10, 60)):
        delays = [rng.randint(1, 40) for _ in range(rng.randint(1, 4))]
        d0 = list(delays)
        n, N = tu.get_mode_indices(delays)
        ctx.oracle_cases += 1
        if list(map(int, n)) != [sum(delays[i:]) for i in range(len(delays) + 1)] or N != sum(delays) + 1 or delays != d0:
            ctx.fail("tdm-utils:get_mode_indices", f"get_mode_indices({d0}) = {list(n)}, {N}", dict(kind="helpers"))
    # to_args_list / to_args_dict: the documented order, inverse of each other, inputs untouched
    dev = borealis_device(sf, fx, [0.1, -0.1, 3.0])[0]
    for _ in range(ctx.n(6, 40)):
        L = rng.randint(1, 6)
        d = {"Sgate": [rng.random() for _ in range(L)],
             "loops": {i: {"Rgate": [rng.random() for _ in range(L)], "BSgate": [rng.random() for _ in range(L)]} for i in range(3)}}
        d0 = copy.deepcopy(d)
        want = [d["Sgate"]] + [d["loops"][i][g] for i in range(3) for g in ("Rgate", "BSgate")]
        ctx.oracle_cases += 1
        try:
            l1, l2 = tu.to_args_list(d, dev), tu.to_args_list(d)
            back = tu.to_args_dict(l1, dev)
            ok = l1 == want and l2 == want and back == d0 and d == d0
        except Exception as e:  # noqa: BLE001
            ok = False
        if not ok:
            ctx.fail("tdm-utils:to_args", "to_args_list / to_args_dict do not give the documented order / are not inverse of each other", dict(kind="helpers"))
    # Device.create_program: the layout with the given values, first allowed value for the others; validate_target
    for _ in range(ctx.n(6, 40)):
        N = rng.choice([2, 3, 4])
        spec = hw12.x_spec(N, rng.choice([[0, 1], [1, 0]]), [0, [0, hw12.TWO_PI]], compiler=rng.choice([[], ["Xstrict"], ["Xcov"]]))
        spec0 = copy.deepcopy(spec)
        dev = sf.Device(spec)
        names = sorted(spec["gate_parameters"])
        given = {k: (rng.choice([0, 1]) if k.startswith("squeezing") else dy(rng, 0, 6)) for k in rng.sample(names, rng.randint(0, len(names)))}
        for i in range(N):          # the unitary compilers need the same final phases on both halves
            a, b = f"final_phase_{i}", f"final_phase_{i + N}"
            if a in given or b in given:
                given[a] = given[b] = given.get(a, given.get(b))
        g0 = dict(given)
        ctx.oracle_cases += 1
        reset_compilers(sf)
        try:
            prog = dev.create_program(**given)
            sk = hw12.circuit_skeleton(prog)
            full = {k: g0.get(k, spec0["gate_parameters"][k][0]) for k in names}
            lay = [(c, m, [float(full[p_]) if isinstance(p_, str) else p_ for p_ in ps]) for c, m, ps in hw12.x_layout_skeleton(N)]
            ok = hw12.wires_view(sk) == hw12.wires_view(lay)
            why = "program does not have the layout's structure"
            if ok and dev.default_compiler == "Xstrict":
                ok = sorted(map(repr, sk)) == sorted(map(repr, [(c, m, [float(x) for x in ps]) for c, m, ps in lay]))
                why = "program differs from the layout instance"
            elif ok:
                _, N1, M1 = ref_state(2 * N, sk).alpha_N_M()
                _, N2, M2 = ref_state(2 * N, lay).alpha_N_M()
                f_ = (lambda z: z) if dev.default_compiler == "Xunitary" else np.abs
                ok = max(float(np.max(np.abs(f_(N1) - f_(N2)))), float(np.max(np.abs(f_(M1) - f_(M2))))) < 1e-6
                why = "program does not prepare the state of the layout instance"
        except Exception as e:  # noqa: BLE001
            ok, why = False, f"{type(e).__name__}: {str(e)[:80]}"
        finally:
            reset_compilers(sf)
        if ok and (spec != spec0 or given != g0 and set(g0) - set(given)):
            ok, why = False, "inputs changed in place"
        if not ok:
            ctx.fail("device:create_program", f"Device.create_program on a {2 * N}-mode X layout: {why}", dict(kind="helpers"))
        # target of the specification must be the target of the layout
        bad = dict(spec0, target="other")
        try:
            sf.Device(bad)
            ctx.fail("device:validate_target", "Device accepts a specification whose target differs from the layout's target", dict(kind="helpers"))
        except ValueError:
            pass



# ====================================================================== function-level property oracles (independent of the model)
def _spec_in_ranges(v, entries):
    """the documented meaning of a device-spec range list: single values and [lower, upper] pairs, tolerance 1e-5"""
    for e in entries:
        lo, hi = (e, e) if not isinstance(e, (list, tuple)) else (e[0], e[-1])
        if lo - 1e-5 <= v <= hi + 1e-5:
            return True
    return False


def _flatten(v):
    if isinstance(v, (list, tuple, np.ndarray)):
        for x in v:
            yield from _flatten(x)
    else:
        yield v


def fn_ranges(ctx, sf, case, fx=None):
    from strawberryfields.compilers import Ranges
    entries, vals = case["ranges"], case["values"]
    bad_spec = any(len(e) == 2 and e[1] < e[0] for e in entries)
    try:
        R = Ranges(*entries)
    except ValueError:
        if not bad_spec:
            ctx.fail("fn:Ranges:rejects-valid-spec", f"Ranges{entries} raises ValueError", dict(kind="fn", fn="ranges", case=case))
        return
    for v in vals:
        got, want = bool(v in R), _spec_in_ranges(v, [e if len(e) == 2 else e[0] for e in entries])
        if got != want:
            ctx.fail("fn:Ranges:contains", f"{v} in Ranges{entries} is {got}", dict(kind="fn", fn="ranges", case=dict(ranges=entries, values=[v])))
            return


def fn_validate(ctx, sf, case, fx=None):
    gp, params = case["gp"], case["params"]
    dev = sf.Device({"target": "t", "layout": "", "modes": 2, "compiler": [], "gate_parameters": None if case.get("none") else gp})
    snap = copy.deepcopy(params)
    try:
        dev.validate_parameters(**params)
        accepted = True
    except ValueError:
        accepted = False
    if params != snap:
        ctx.fail("fn:validate_parameters:input-mutated", "validate_parameters changed its arguments", dict(kind="fn", fn="validate", case=case))
    if case.get("none"):
        valid, why = True, ""
    else:
        valid, why = True, ""
        for name, v in params.items():
            if name not in gp:
                valid, why = False, f"parameter {name} unknown"
                break
            badv = [x for x in _flatten(v) if not _spec_in_ranges(float(x), gp[name])]
            if badv:
                valid, why = False, f"{name} contains {badv[0]}, allowed {gp[name]}"
                break
    if accepted and not valid:
        ctx.fail("fn:validate_parameters:accepts-invalid", f"Device.validate_parameters accepts although {why} (values {params})",
                 dict(kind="fn", fn="validate", case=case))
    elif valid and not accepted:
        ctx.fail("fn:validate_parameters:rejects-valid", f"Device.validate_parameters rejects {params} although every value is allowed by {gp}",
                 dict(kind="fn", fn="validate", case=case))


def fn_init(ctx, sf, case, fx=None):
    from strawberryfields.compilers import Compiler
    from strawberryfields.program_utils import CircuitError

    class Scratch(Compiler):
        interactive = False
        primitives = set()
        decompositions = {}
    state, k = None, 0
    for ev in case["events"]:
        k += 1
        if ev[0] == "reset":
            Scratch.reset_circuit()
            state = None
            ok = want = True
        else:
            try:
                Scratch.init_circuit(ev[1]); ok = True
            except CircuitError:
                ok = False
            if state:
                want = state.replace("\n", "") == ev[1].replace("\n", "")
            else:
                want, state = True, ev[1]
        if ok != want or Scratch._layout != state:
            ctx.fail("fn:init_circuit", f"after {case['events'][:k]}: call accepted={ok} (documented: {want}), stored layout {Scratch._layout!r} (documented: {state!r})",
                     dict(kind="fn", fn="init", case=dict(events=case["events"][:k])))
            return


def _build_meas_prog(sf, case):
    import strawberryfields.ops as ops
    prog = sf.Program(case["n"])
    free = list(case["order"])
    with prog.context as q:
        if case.get("sgate"):
            ops.Sgate(0.5) | q[0]
        for m, k in case["meas"]:
            regs = [free.pop() for _ in range(k)]
            op = getattr(ops, m)
            op = (op(0.3) if m == "MeasureHomodyne" else op()) if isinstance(op, type) else op
            op | tuple(q[r] for r in regs)
    return prog


def fn_assert(ctx, sf, case, fx=None):
    from strawberryfields.program_utils import CircuitError
    prog = _build_meas_prog(sf, case)
    dev = sf.Device({"target": "abc", "layout": "", "modes": case["modes"], "compiler": [], "gate_parameters": {}})
    try:
        prog.assert_modes(dev); ok = True
    except CircuitError:
        ok = False
    if isinstance(case["modes"], int):
        want = case["n"] <= case["modes"]
    else:
        cnt = {"pnr": 0, "homodyne": 0, "heterodyne": 0}
        kind = {"MeasureFock": "pnr", "MeasureHomodyne": "homodyne", "MeasureX": "homodyne", "MeasureP": "homodyne",
                "MeasureHeterodyne": "heterodyne", "MeasureHD": "heterodyne"}
        for m, k in case["meas"]:
            if m in kind:
                cnt[kind[m]] += k
        lim = case["modes"]
        want = cnt["pnr"] <= lim["pnr_max"] and cnt["homodyne"] <= lim["homodyne_max"] and cnt["heterodyne"] <= lim["heterodyne_max"]
    if ok != want:
        ctx.fail("fn:assert_modes", f"Program.assert_modes {'accepts' if ok else 'rejects'} measurements {case['meas']} on {case['n']} modes for device modes {case['modes']}",
                 dict(kind="fn", fn="assert", case=case))


def fn_tdm_assert(ctx, sf, case, fx=None):
    import strawberryfields.ops as ops
    from strawberryfields.program_utils import CircuitError
    N, tb, lim = case["N"], case["timebins"], case["lim"]
    prog = sf.TDMProgram(N=N)
    args = [[0.1] * tb for _ in range(len(N))]
    with prog.context(*args) as (p, q):
        off = 0
        for k, nk in enumerate(N):
            ops.Rgate(p[k]) | q[off]
            ops.MeasureHomodyne(0.0) | q[off]
            off += nk
    dev = sf.Device({"target": "abc", "layout": "", "modes": lim, "compiler": [], "gate_parameters": {}})
    try:
        prog.assert_modes(dev); ok = True
    except CircuitError:
        ok = False
    want = tb <= lim["temporal_max"] and sum(N) == lim["concurrent"] and len(N) == lim["spatial"]
    if ok != want:
        ctx.fail("fn:tdm_assert_modes", f"TDMProgram.assert_modes {'accepts' if ok else 'rejects'} N={N}, {tb} time bins for {lim}",
                 dict(kind="fn", fn="tdm_assert", case=case))


def fn_dups(ctx, sf, case, fx=None):
    import strawberryfields.compilers.xunitary as xu
    keys = [tuple(k) for k in case["seq"]]
    got = [(tuple(k), list(l)) for k, l in xu.list_duplicates(keys)]
    first = []
    for k in keys:
        if k not in first:
            first.append(k)
    want = [(k, [i for i, x in enumerate(keys) if x == k]) for k in first if keys.count(k) > 1]
    if got != want:
        ctx.fail("fn:list_duplicates", f"list_duplicates({keys}) = {got}", dict(kind="fn", fn="dups", case=case))


def _borealis_layout(sf, fx):
    import blackbird
    import strawberryfields.io as sio
    import strawberryfields.compilers.tdm as tdmc
    lay_prog = sio.to_program(blackbird.loads(fx["borealis_layout"]))
    comp = tdmc.Borealis()
    lay = [[type(c.op).__name__, sorted(r.ind for r in c.reg), bool(comp._is_loop_offset(c.op))] for c in lay_prog.circuit]
    return lay_prog, lay


def run_offset_insert(sf, fx, seq, lay_prog):
    import strawberryfields.compilers.tdm as tdmc
    from strawberryfields.program_utils import CircuitError, Command
    import strawberryfields.ops as ops
    regs = {r.ind: r for r in lay_prog.register}
    cmds = []
    for cls, wires in seq:
        op = {"Sgate": ops.Sgate(0.1), "Rgate": ops.Rgate(0.2), "BSgate": ops.BSgate(0.3, PI / 2), "MeasureFock": ops.MeasureFock()}[cls]
        cmds.append(Command(op, [regs[w] for w in wires]))
    orig = tdmc.TDM.compile
    tdmc.Borealis.reset_circuit()
    tdmc.Borealis.init_circuit(fx["borealis_layout"])
    got = {}
    tdmc.TDM.compile = lambda self, s, r, _g=got: _g.setdefault("seq", list(s))
    c = tdmc.Borealis()
    try:
        c.compile(list(cmds), lay_prog.register)
        return dict(seq=[[type(x.op).__name__, sorted(r.ind for r in x.reg), bool(c._is_loop_offset(x.op))] for x in got["seq"]],
                    flags=list(c._user_offsets))
    except CircuitError:
        return None
    finally:
        tdmc.TDM.compile = orig
        tdmc.Borealis.reset_circuit()


def fn_offsets(ctx, sf, case, fx=None):
    lay_prog, lay = _borealis_layout(sf, fx)
    seq = case["seq"]
    impl = run_offset_insert(sf, fx, seq, lay_prog)
    if impl is None:
        return          # a CircuitError is always a permitted answer
    out, flags = impl["seq"], impl["flags"]
    why = None
    if len(out) < len(lay) or any(out[i][:2] != lay[i][:2] for i in range(len(lay))):
        why = "the sequence handed on does not follow the device layout position by position"
    elif [[c, sorted(w)] for c, w, ins in out if not ins] != [[c, sorted(w)] for c, w in seq]:
        why = "apart from inserted loop offsets the sequence is not the user's"
    else:
        offs_pos = [i for i, l in enumerate(lay) if l[2]]
        if len(flags) != len(offs_pos) or any(flags[k] != (not out[i][2]) for k, i in enumerate(offs_pos)):
            why = f"user-offset flags {flags} do not say which loop offsets the user set"
    if why:
        ctx.fail("fn:offset_insertion", f"Borealis.compile on {seq}: {why} (got {out})", dict(kind="fn", fn="offsets", case=case))


def fn_update(ctx, sf, case, fx=None):
    """Borealis.update_params by itself: every compensated phase = requested phase + accumulated offset of its loop − accumulated
    offset of the last compensated loop before it (mod pi; mod 2 pi when that value is within the modulators' range), inside
    [-pi/2, pi/2]; loops whose offset the user set keep their phases.  The accumulation is done here, in floats."""
    import strawberryfields.compilers.tdm as tdmc
    L, offs, user, phis = case["L"], case["offs"], case["user"], case["phis"]
    params = [[0.0] * L]
    for i in range(3):
        params += [[x * PI for x in phis[i]], [0.0] * L]
    fake = types.SimpleNamespace(tdm_params=copy.deepcopy(params), circuit=[])
    dev = types.SimpleNamespace(certificate={"loop_phases": [o * PI for o in offs]})
    c = tdmc.Borealis()
    c._user_offsets = list(user)
    c.update_params(fake, dev)
    prev = np.zeros(L)
    for i in range(3):
        src = np.array(params[1 + 2 * i], dtype=float)
        new = np.array(fake.tdm_params[1 + 2 * i], dtype=float)
        if user[i]:
            if L and np.max(np.abs(new - src)) > 1e-12:
                ctx.fail("fn:update_params:user-loop-changed", f"loop {i}: offset set by the user but its phases were changed", dict(kind="fn", fn="update", case=case))
                return
            continue
        corr = np.array([offs[i] * PI * (j // DELAYS[i]) for j in range(L)])
        target = src + corr - prev
        w = wrap_to_pi(target)
        dpi = np.abs(wrap_to_pi(2 * (new - target))) / 2
        d2 = np.abs(wrap_to_pi(new - target))
        inr = np.abs(w) < PI / 2 - 1e-9
        edge = np.abs(np.abs(w) - PI) < 1e-9            # +-pi: either representative is right
        if L and (np.max(dpi) > 1e-8 or (inr.any() and np.max(d2[inr]) > 1e-8) or np.max(np.abs(new)) > PI / 2 + 1e-9):
            j = int(np.argmax(np.maximum(dpi, np.where(inr, d2, 0))))
            if np.max(dpi) <= 1e-8 and not (inr.any() and np.max(d2[inr]) > 1e-8):
                j = int(np.argmax(np.abs(new)))
                ctx.fail("fn:update_params:out-of-modulator-range", f"certificate loop phases {[o * PI for o in offs]}, loop {i}, time bin {j}: phase {new[j]} "
                         "left outside [-pi/2, pi/2]", dict(kind="fn", fn="update", case=case))
                return
            ctx.fail("fn:update_params:compensation", f"certificate loop phases {[o * PI for o in offs]}, loop {i}, time bin {j}: compensated phase {new[j]} "
                     f"but requested phase + accumulated loop offsets = {target[j]} (mod {'2 pi' if inr[j] else 'pi'})", dict(kind="fn", fn="update", case=case))
            return
        prev = corr


def fn_compat(ctx, sf, case, fx=None):
    """tdm.utils.make_phases_compatible by itself (own float accumulation): loop 0 unchanged, other phases changed by 0 or pi, and
    afterwards phase + accumulated offset of the loop − accumulated offset of the loop before lies in [-pi/2, pi/2] (mod 2 pi)"""
    from strawberryfields.tdm import utils as tu
    L, offs, phis = case["L"], case["offs"], case["phis"]
    d = {"Sgate": [0.0] * L, "loops": {i: {"Rgate": [x * PI for x in phis[i]], "BSgate": [0.0] * L} for i in range(3)}}
    out = tu.make_phases_compatible(d, types.SimpleNamespace(certificate={"loop_phases": [o * PI for o in offs]}))
    prev = np.zeros(L)
    for i in range(3):
        src = np.array([x * PI for x in phis[i]], dtype=float)
        new = np.array(out["loops"][i]["Rgate"], dtype=float)
        corr = np.array([offs[i] * PI * (j // DELAYS[i]) for j in range(L)])
        if i == 0:
            bad = L and np.max(np.abs(new - src)) > 0
        else:
            w = wrap_to_pi(new + corr - prev)
            bad = L and (np.max(np.abs(wrap_to_pi(2 * (new - src))) / 2) > 1e-9 or np.max(np.abs(w)) > PI / 2 + 1e-9)
        if bad:
            ctx.fail("fn:make_phases_compatible", f"certificate loop phases {[o * PI for o in offs]}: loop {i} phases are not the input up to pi with the "
                     "compensated value inside [-pi/2, pi/2]", dict(kind="fn", fn="compat", case=case))
            return
        prev = corr


FN_ORACLES = dict(ranges=fn_ranges, validate=fn_validate, init=fn_init, **{"assert": fn_assert}, tdm_assert=fn_tdm_assert, dups=fn_dups,
                  offsets=fn_offsets, update=fn_update, compat=fn_compat)


def fn_check(ctx, sf, name, case, fx=None):
    ctx.oracle_cases += 1
    try:
        FN_ORACLES[name](ctx, sf, case, fx)
    except Exception as e:  # noqa: BLE001
        ctx.fail(f"fn-crash:{name}:{type(e).__name__}", f"{name}: {type(e).__name__} {str(e)[:150]}", dict(kind="fn", fn=name, case=case))


# ====================================================================== correspondence
F = hw12.frac


def corr_ranges(ctx, sf):
    from strawberryfields.compilers import Ranges
    rng = ctx.rng
    reqs, pend = [], []
    for _ in range(ctx.n(150, 1500)):
        entries = []
        for _ in range(rng.randint(1, 3)):
            x = dy(rng, -4, 4)
            if rng.random() < 0.4:
                entries.append([x])
            else:
                y = x + dy(rng, -0.25 if rng.random() < 0.1 else 0, 3)
                entries.append([x, y])
        vals = []
        for e in entries:
            for b in (e[0], e[-1]):
                vals += [b + k * 1e-5 for k in (-2.0, -1.01, -0.99, -0.5, 0.0, 0.5, 0.99, 1.01, 2.0)]
        vals += [dy(rng, -5, 8) for _ in range(3)]
        try:
            R = Ranges(*entries)
            impl = [bool(v in R) for v in vals]
        except ValueError:
            impl = "ValueError"
        case = dict(ranges=entries, values=vals)
        ctx.count("corr:ranges", case, len(entries) >= 2)
        reqs.append(dict(op="hw.ranges", ranges=[[F(x) for x in e] for e in entries], values=[F(v) for v in vals]))
        pend.append(("Ranges.__contains__", case, impl))
        fn_check(ctx, sf, "ranges", case)
    return reqs, pend


def corr_validate(ctx, sf):
    rng = ctx.rng
    reqs, pend = [], []
    names = ["s", "r0", "bs0", "phase_1", "final_phase_2"]
    for _ in range(ctx.n(120, 1200)):
        gp_spec = {}
        for nm in rng.sample(names, rng.randint(1, 4)):
            ent = []
            for _ in range(rng.randint(1, 3)):
                x = dy(rng, -2, 2)
                ent.append(x if rng.random() < 0.4 else [x, x + dy(rng, 0, 2)])
            gp_spec[nm] = ent
        none_gp = rng.random() < 0.05
        dev = sf.Device({"target": "t", "layout": "", "modes": 2, "compiler": [], "gate_parameters": None if none_gp else gp_spec})
        params, flat = {}, []
        for nm in rng.sample(names, rng.randint(1, 4)):
            def val():
                if rng.random() < 0.75 and nm in gp_spec:
                    e = rng.choice(gp_spec[nm])
                    lo, hi = (e, e) if not isinstance(e, list) else e
                    return rng.choice([lo, hi, (lo + hi) / 2, lo - 2e-5, hi + 0.5e-5])
                return dy(rng, -3, 3)
            shape = rng.choice(["scalar", "list", "nested", "gap"])
            allowed_pts = []
            if nm in gp_spec:
                for e in gp_spec[nm]:
                    allowed_pts += ([e] if not isinstance(e, list) else [e[0], e[1]])
            if shape == "gap" and len(allowed_pts) >= 2:
                # a per-time-bin array whose smallest and largest values are allowed, with values in between that may fall in a gap
                lo_, hi_ = min(allowed_pts), max(allowed_pts)
                inner = [lo_ + (hi_ - lo_) * rng.choice([0.25, 0.5, 0.75, 0.1, 0.9]) for _ in range(rng.randint(1, 5))]
                v = [lo_] + inner + [hi_]
                rng.shuffle(v)
                if rng.random() < 0.3:
                    v = [v[: len(v) // 2], v[len(v) // 2:]]
                fl = list(_flatten(v))
            elif shape in ("scalar", "gap"):
                v = val(); fl = [v]
            elif shape == "list":
                v = [val() for _ in range(rng.randint(0, 4))]; fl = list(v)
            else:
                v = [[val() for _ in range(rng.randint(1, 3))] for _ in range(rng.randint(1, 2))]; fl = [x for r in v for x in r]
            params[nm] = v
            flat.append([nm, [F(x) for x in fl]])
        try:
            dev.validate_parameters(**params)
            impl = dict(err="ok")
        except ValueError as e:
            msg = str(e)
            if "not a valid parameter" in msg:
                impl = dict(err="unknown", p=msg.split("'")[1])
            else:
                p = msg.split("'")[1]
                v = float(msg.split("has invalid value ")[1].split(". Only")[0])
                impl = dict(err="invalid", p=p, v=F(v))
        case = dict(gp=gp_spec, params=params, none=none_gp)
        ctx.count("corr:validate", case, impl["err"] != "ok")
        gpj = None if none_gp else [[nm, [[F(x) for x in (e if isinstance(e, list) else [e])] for e in ent]] for nm, ent in gp_spec.items()]
        reqs.append(dict(op="hw.validate", gp=gpj, params=flat))
        pend.append(("Device.validate_parameters", case, impl))
        fn_check(ctx, sf, "validate", case)
    return reqs, pend


def corr_layout_cache(ctx, sf):
    from strawberryfields.compilers import Compiler
    from strawberryfields.program_utils import CircuitError
    rng = ctx.rng
    reqs, pend = [], []
    layouts = ["a\nb", "ab", "ab\n", "\nab", "c", "a b", "", "\n", "S2gate(0) | [0, 1]\nMeasureFock() | [0, 1]\n",
               "S2gate(0) | [0, 1]MeasureFock() | [0, 1]"]
    for _ in range(ctx.n(80, 600)):
        class Scratch(Compiler):
            interactive = False
            primitives = set()
            decompositions = {}
        evs, flags = [], []
        for _ in range(rng.randint(1, 7)):
            if rng.random() < 0.2:
                Scratch.reset_circuit(); evs.append(["reset"]); flags.append(True)
            else:
                l = rng.choice(layouts)
                evs.append(["init", l])
                try:
                    Scratch.init_circuit(l); flags.append(True)
                except CircuitError:
                    flags.append(False)
        impl = dict(flags=flags, state=Scratch._layout)
        case = dict(events=evs)
        ctx.count("corr:init_circuit", case, len(evs) >= 3)
        reqs.append(dict(op="hw.layout", events=evs))
        pend.append(("Compiler.init_circuit history", case, impl))
        fn_check(ctx, sf, "init", case)
    return reqs, pend


def corr_assert_modes(ctx, sf):
    import strawberryfields.ops as ops
    from strawberryfields.program_utils import CircuitError
    rng = ctx.rng
    reqs, pend = [], []
    errs = {"fock measurements": "pnr", "homodyne measurements": "homodyne", "heterodyne measurements": "heterodyne",
            "only supports a": "total", "temporal modes": "temporal", "concurrent modes": "concurrent", "spatial modes": "spatial"}

    def err_of(fn):
        try:
            fn()
            return "ok"
        except CircuitError as e:
            for k, v in errs.items():
                if k in str(e):
                    return v
            return "CircuitError?"
    meas = ["MeasureFock", "MeasureHomodyne", "MeasureX", "MeasureP", "MeasureHeterodyne", "MeasureHD", "MeasureThreshold"]
    for _ in range(ctx.n(100, 800)):
        n = rng.randint(1, 6)
        order = list(range(n))
        rng.shuffle(order)
        left, meas_l = n, []
        while left and rng.random() < 0.8:
            m = rng.choice(meas)
            k = rng.randint(1, min(3, left)) if m in ("MeasureFock", "MeasureThreshold") else 1
            meas_l.append([m, k])
            left -= k
        base = dict(n=n, order=order, sgate=rng.random() < 0.5, meas=meas_l)
        prog = _build_meas_prog(sf, base)
        circ = [[str(c.op), len(c.reg)] for c in prog.circuit]
        if rng.random() < 0.35:
            dm = rng.randint(1, 7)
            dev = sf.Device({"target": "abc", "layout": "", "modes": dm, "compiler": [], "gate_parameters": {}})
            impl = err_of(lambda: prog.assert_modes(dev))
            reqs.append(dict(op="hw.assertInt", total=n, modes=dm))
            case = dict(base, modes=dm)
        else:
            lim = dict(pnr_max=rng.randint(0, 4), homodyne_max=rng.randint(0, 3), heterodyne_max=rng.randint(0, 2))
            dev = sf.Device({"target": "abc", "layout": "", "modes": lim, "compiler": [], "gate_parameters": {}})
            impl = err_of(lambda: prog.assert_modes(dev))
            reqs.append(dict(op="hw.assertDict", circ=circ, pnr=lim["pnr_max"], hom=lim["homodyne_max"], het=lim["heterodyne_max"]))
            case = dict(base, modes=lim, circ=circ)
        ctx.count("corr:assert_modes", case, impl != "ok")
        pend.append(("Program.assert_modes", case, impl))
        fn_check(ctx, sf, "assert", case)
    for _ in range(ctx.n(40, 300)):
        N = rng.choice([[2], [3], [1, 2], [2, 2]])
        tb = rng.randint(1, 6)
        prog = sf.TDMProgram(N=N)
        args = [[0.1] * tb for _ in range(len(N))]
        with prog.context(*args) as (p, q):
            off = 0
            for k, nk in enumerate(N):
                ops.Rgate(p[k]) | q[off]
                ops.MeasureHomodyne(0.0) | q[off]
                off += nk
        lim = {"temporal_max": rng.randint(1, 7), "concurrent": rng.choice([sum(N), sum(N), 2, 3]), "spatial": rng.choice([len(N), len(N), 1, 2])}
        dev = sf.Device({"target": "abc", "layout": "", "modes": lim, "compiler": [], "gate_parameters": {}})
        impl = err_of(lambda: prog.assert_modes(dev))
        case = dict(N=N, timebins=tb, lim=lim)
        ctx.count("corr:tdm_assert_modes", case, impl != "ok")
        reqs.append(dict(op="hw.assertTdm", timebins=prog.timebins, concurr=prog.concurr_modes, spatial=prog.spatial_modes,
                         tmax=lim["temporal_max"], dconc=lim["concurrent"], dspat=lim["spatial"]))
        pend.append(("TDMProgram.assert_modes", case, impl))
        fn_check(ctx, sf, "tdm_assert", case)
    return reqs, pend


def corr_template(ctx, sf):
    """rectangular_symmetric mode pairs, Interferometer._decompose skeleton, Xunitary / Xcov output skeleton"""
    import strawberryfields.ops as ops
    import strawberryfields.decompositions as dec
    from strawberryfields.compilers import Xunitary, Xcov
    nprng = ctx.nprng(12)
    rng = ctx.rng
    reqs, pend = [], []
    for N in range(1, ctx.n(9, 12)):
        for uk in ("haar", "identity", "perm"):
            U = hw12.rand_unitary(nprng, N, uk)
            tl, _, none = dec.rectangular_symmetric(U)
            impl = dict(compiled=[int(t[0]) for t in tl], pairs_ok=all(int(t[1]) == int(t[0]) + 1 for t in tl) and none is None,
                        layout=hw12.mesh_layers(N))
            prog = sf.Program(N)
            cmds = ops.Interferometer(U, mesh="rectangular_symmetric", drop_identity=False)._decompose(prog.register)
            impl["decompose"] = [[type(c.op).__name__, [r.ind for r in c.reg]] for c in cmds]
            case = dict(N=N, U=uk)
            ctx.count("corr:mesh", case, N >= 3)
            reqs.append(dict(op="hw.mz", N=N))
            pend.append(("rectangular_symmetric mode pairs", case, impl))
    for _ in range(ctx.n(24, 120)):
        N = rng.randint(1, 6)
        comp = rng.choice(["Xunitary", "Xcov"])
        n = 2 * N
        order = list(range(N))
        rng.shuffle(order)
        U = hw12.rand_unitary(nprng, N, rng.choice(U_KINDS if N >= 2 else ["identity"]))
        prog = sf.Program(n)
        with prog.context as q:
            for i in order:
                ops.S2gate(dy(rng, 0, 1), 0.0) | (q[i], q[i + N])
            ops.Interferometer(U) | tuple(q[:N])
            ops.Interferometer(U) | tuple(q[N:])
            ops.MeasureFock() | tuple(q)
        seq = (Xunitary if comp == "Xunitary" else Xcov)().decompose(prog.circuit)
        out = (Xunitary if comp == "Xunitary" else Xcov)().compile(seq, prog.register)
        sk = [[type(c.op).__name__, [r.ind for r in c.reg]] for c in out]
        s2order = [m[0] for c, m in sk if c == "S2gate"]
        case = dict(N=N, comp=comp, order=order)
        ctx.count("corr:xskel", case, N >= 2)
        reqs.append(dict(op="hw.xskel", N=N, s2order=s2order))
        pend.append(("X compile skeleton", case, dict(compiled=sk, layout=[[c, m] for c, m, _ in hw12.x_layout_skeleton(N)],
                                                      s2perm=sorted(s2order) == list(range(N)))))
    return reqs, pend


def corr_merge(ctx, sf):
    import strawberryfields.ops as ops
    import strawberryfields.compilers.xunitary as xu
    from strawberryfields.program_utils import CircuitError
    rng = ctx.rng
    reqs, pend = [], []
    for _ in range(ctx.n(150, 1500)):
        keys = [(rng.randrange(4), rng.randrange(2)) for _ in range(rng.randint(0, 9))]
        impl = [[list(k), list(l)] for k, l in xu.list_duplicates(keys)]
        case = dict(seq=keys)
        ctx.count("corr:list_duplicates", case, len(impl) >= 2)
        reqs.append(dict(op="hw.dups", seq=[list(k) for k in keys]))
        pend.append(("xunitary.list_duplicates", case, impl))
        fn_check(ctx, sf, "dups", dict(seq=[list(k) for k in keys]))
    orig = xu.group_operations
    for _ in range(ctx.n(150, 1200)):
        N = rng.randint(1, 5)
        n = 2 * N
        s2 = gen_s2(rng, N, [0.0, 0.5, 1.0, 1.5], p_dup=0.55)
        wrong = rng.random() < 0.05 and N >= 2
        prog = sf.Program(n)
        with prog.context as q:
            for k, (i, r, phi) in enumerate(s2):
                b = i + N if not (wrong and k == 0) else (i + 1) % N + N
                g = ops.S2gate(r, phi)
                (g.H if rng.random() < 0.2 else g) | (q[i], q[b])
            ops.MeasureFock() | tuple(q)
        captured = []

        def spy(seq, pred, _c=captured):
            A, B, C = orig(seq, pred)
            if not _c and B and all(isinstance(c.op, ops.S2gate) for c in B):
                _c.append([[c.reg[0].ind, c.reg[1].ind, float(c.op.p[0]), float(c.op.p[1]), bool(c.op.dagger)] for c in B])
            return A, B, C
        xu.group_operations = spy
        try:
            out = xu.Xunitary().compile(list(prog.circuit), prog.register)
            impl = dict(ok=[[c.reg[0].ind, c.reg[1].ind, F(c.op.p[0]), F(c.op.p[1]), bool(c.op.dagger)] for c in out if isinstance(c.op, ops.S2gate)])
        except CircuitError:
            impl = dict(err="CircuitError")
        except Exception as e:  # noqa: BLE001
            impl = dict(err=type(e).__name__)
        finally:
            xu.group_operations = orig
        B = captured[0] if captured else []
        present = {b[0] for b in B}
        nmiss = N - len(present)
        if "ok" in impl:
            missing = [e[0] for e in impl["ok"][:nmiss]][::-1]
            if sorted(missing) != sorted(set(range(N)) - present):
                missing = sorted(set(range(N)) - present)
        else:
            missing = sorted(set(range(N)) - present)
        case = dict(N=N, s2=s2, B=B)
        keys = [b[0] for b in B]
        ctx.count("corr:s2merge", case, len({k for k in keys if keys.count(k) > 1}) >= 2)
        ctx.tally("corr:s2merge:" + ("ok" if "ok" in impl else impl["err"]))
        reqs.append(dict(op="hw.s2merge", half=N, B=[[b[0], b[1], F(b[2]), F(b[3]), b[4]] for b in B], missing=missing))
        pend.append(("Xunitary S2 merge", case, impl))
    return reqs, pend


def corr_borealis(ctx, sf, fx):
    import blackbird
    import strawberryfields.io as sio
    import strawberryfields.compilers.tdm as tdmc
    from strawberryfields.program_utils import CircuitError, Command
    import strawberryfields.ops as ops
    rng = ctx.rng
    reqs, pend = [], []
    layout = fx["borealis_layout"]
    lay_prog = sio.to_program(blackbird.loads(layout))
    comp = tdmc.Borealis()
    lay = [[type(c.op).__name__, sorted(r.ind for r in c.reg), bool(comp._is_loop_offset(c.op))] for c in lay_prog.circuit]
    regs = {r.ind: r for r in lay_prog.register}
    # ---- offset insertion: Borealis.compile with the final topology check switched off (TDM.compile spied)
    orig = tdmc.TDM.compile
    for _ in range(ctx.n(80, 600)):
        seq = []
        for cls, wires, off in lay:
            u = rng.random()
            if off:
                if u < 0.6:
                    continue                      # left to the compiler
                seq.append([cls, wires])          # set by the user
            elif u < 0.04:
                continue                          # dropped
            elif u < 0.08:
                seq.append([rng.choice(["Rgate", "Sgate", "MeasureFock"]), wires[:1]])
            elif u < 0.11:
                seq.append([cls, [rng.choice([0, 36, 42, 43])] if len(wires) == 1 else wires[::-1]])
            else:
                seq.append([cls, wires])
        if rng.random() < 0.1 and seq:
            seq = seq[:rng.randint(0, len(seq))]
        if rng.random() < 0.05:
            seq.append(["Rgate", [0]])
        cmds = []
        for cls, wires in seq:
            op = {"Sgate": ops.Sgate(0.1), "Rgate": ops.Rgate(0.2), "BSgate": ops.BSgate(0.3, PI / 2), "MeasureFock": ops.MeasureFock()}[cls]
            cmds.append(Command(op, [regs[w] for w in wires]))
        tdmc.Borealis.reset_circuit()
        tdmc.Borealis.init_circuit(layout)
        got = {}
        tdmc.TDM.compile = lambda self, s, r, _g=got: _g.setdefault("seq", list(s))
        c = tdmc.Borealis()
        try:
            c.compile(list(cmds), lay_prog.register)
            impl = dict(seq=[[type(x.op).__name__, sorted(r.ind for r in x.reg), bool(c._is_loop_offset(x.op))] for x in got["seq"]],
                        flags=list(c._user_offsets))
        except CircuitError:
            impl = None
        finally:
            tdmc.TDM.compile = orig
            tdmc.Borealis.reset_circuit()
        case = dict(seq=seq)
        ctx.count("corr:offset_insert", case, impl is not None and len(seq) >= 8)
        ctx.tally("corr:offset_insert:" + ("ok" if impl else "CircuitError"))
        reqs.append(dict(op="hw.offsets", layout=lay, seq=[[c_, sorted(w), False] for c_, w in seq]))
        pend.append(("Borealis.compile offset insertion", case, impl))
        fn_check(ctx, sf, "offsets", case, fx)
    # ---- update_params on rational multiples of pi
    for _ in range(ctx.n(60, 500)):
        L = rng.randint(1, 45)
        den = rng.choice([7, 9, 11, 13])
        offs = [rng.choice([0.0, 0.0, rng.randint(-2 * den, 2 * den) / den, rng.randint(-2 * den, 2 * den) / den, 1 / (den * 30)]) for _ in range(3)]
        user = [rng.random() < 0.2 for _ in range(3)]
        phis = [[rng.randint(-3 * den, 3 * den) / (den * rng.choice([1, 2, 3])) for _ in range(L)] for _ in range(3)]
        params = [[0.0] * L]
        for i in range(3):
            params += [[x * PI for x in phis[i]], [0.0] * L]
        fake = types.SimpleNamespace(tdm_params=copy.deepcopy(params), circuit=[])
        dev = types.SimpleNamespace(certificate={"loop_phases": [o * PI for o in offs]})
        c = tdmc.Borealis()
        c._user_offsets = list(user)
        c.update_params(fake, dev)
        impl = [[float(v) / PI for v in fake.tdm_params[1 + 2 * i]] for i in range(3)]
        case = dict(L=L, offs=offs, user=user, phis=phis)
        ctx.count("corr:update_params", case, L >= 7)
        from fractions import Fraction
        fr = lambda x: [Fraction(x).limit_denominator(1000).numerator, Fraction(x).limit_denominator(1000).denominator]
        reqs.append(dict(op="hw.update", len=L, loops=[[fr(offs[i]), DELAYS[i], user[i], [fr(x) for x in phis[i]]] for i in range(3)]))
        pend.append(("Borealis.update_params", case, impl))
        fn_check(ctx, sf, "update", case)
    return reqs, pend


def corr_xchecks(ctx, sf):
    """numpy.allclose model, thewalrus expand model, and the validation verdicts of Xunitary / Xcov on the symplectic
    matrix GaussianUnitary hands them (spied), incl. inputs a few percent on either side of the tolerances"""
    import strawberryfields.ops as ops
    import strawberryfields.compilers.xunitary as xu
    import strawberryfields.compilers.xcov as xc
    from strawberryfields.compilers.gaussian_unitary import GaussianUnitary
    from strawberryfields.decompositions import takagi
    from strawberryfields.program_utils import CircuitError
    from thewalrus.symplectic import expand
    from thewalrus.quantum import Amat
    rng = ctx.rng
    nprng = ctx.nprng(77)
    reqs, pend = [], []
    # ---- allclose on complex scalars
    pairs, impl = [], []
    for _ in range(ctx.n(300, 3000)):
        b = complex(rng.choice([0.0, rng.uniform(-1, 1)]), rng.choice([0.0, rng.uniform(-1, 1)])) * rng.choice([1, 1e-3, 1e-6])
        thr = 1e-8 + 1e-5 * abs(b)
        f = rng.choice([0.0, 0.5, 0.97, 1.03, 2.0, 50.0])
        a = b + thr * f * np.exp(1j * rng.uniform(0, 2 * PI))
        pairs.append([[F(a.real), F(a.imag)], [F(b.real), F(b.imag)]])
        impl.append(bool(np.allclose(a, b)))
        ctx.count("corr:allclose", None, True)
    reqs.append(dict(op="hw.close", pairs=pairs))
    pend.append(("numpy.allclose (complex scalars)", dict(n=len(pairs)), impl))
    # ---- expand
    for _ in range(ctx.n(30, 200)):
        N = rng.randint(1, 5)
        k = rng.randint(1, N)
        modes = rng.sample(range(N), k)
        S = nprng.integers(-9, 9, size=(2 * k, 2 * k)).astype(float)
        out = expand(S, modes, N)
        case = dict(N=N, modes=modes)
        ctx.count("corr:expand", case, k >= 2 and modes != sorted(modes))
        reqs.append(dict(op="hw.expand", S=[[F(x) for x in r] for r in S], modes=modes, N=N))
        pend.append(("thewalrus expand", case, [[F(x) for x in r] for r in out]))
    # ---- Xunitary / Xcov verdicts
    msgs = {"do not correspond to an interferometer": "not-interferometer", "cannot mix": "mix", "must be identical": "not-identical"}

    def spy_class(store):
        class Spy(GaussianUnitary):
            def compile(self, seq, registers):
                out = super().compile(seq, registers)
                store.append(out)
                return out
        return Spy

    for k in range(ctx.n(70, 600)):
        comp = "Xunitary" if k % 2 == 0 else "Xcov"
        N = rng.choice([1, 2, 2, 3, 3, 4])
        n = 2 * N
        variant = rng.choice(["sym", "sym", "eps-after", "eps-before", "mix-eps", "mix", "squeeze", "squeeze-idler", "s2-idler", "s2-signal",
                              "partial", "none", "badpair"])
        prog = sf.Program(n)
        eps = rng.choice([5e-6, 9e-6, 1.2e-5, 2e-5, 1e-4, 1e-3])
        th = rng.choice([1e-9, 4e-9, 2.5e-8, 1e-6, 0.3])
        with prog.context as q:
            for i in range(N):
                b = i + N if not (variant == "badpair" and i == 0 and N >= 2) else 1 + N
                ops.S2gate(rng.choice([0.5, 1.0, 0.25])) | (q[i], q[b])
            if variant != "none":
                if variant == "partial" and N >= 2:
                    ops.Rgate(0.5) | q[0]; ops.Rgate(0.5) | q[N]
                else:
                    U = hw12.rand_unitary(nprng, N, rng.choice(["haar", "real", "phased_perm"]))
                    D = np.diag(np.exp(1j * eps * np.ones(N)))
                    U2 = D @ U if variant == "eps-after" else (U @ D if variant == "eps-before" else U)
                    ops.Interferometer(U) | tuple(q[:N])
                    ops.Interferometer(U2) | tuple(q[N:])
                if variant in ("mix-eps", "mix"):
                    ops.BSgate(th if variant == "mix-eps" else 0.4, 0.0) | (q[0], q[N])
                if variant == "squeeze":
                    ops.Sgate(0.3) | q[0]
                if variant == "squeeze-idler":
                    ops.Sgate(rng.choice([0.3, 1e-9, 3e-8])) | q[rng.randrange(N, n)]
                if variant in ("s2-idler", "s2-signal") and N >= 2:
                    o_ = N if variant == "s2-idler" else 0
                    ops.S2gate(rng.choice([0.4, 2e-9, 5e-8])) | (q[o_], q[o_ + 1])
            ops.MeasureFock() | tuple(q)
        mod = xu if comp == "Xunitary" else xc
        store = []
        origGU = mod.GaussianUnitary
        mod.GaussianUnitary = spy_class(store)
        cls = xu.Xunitary if comp == "Xunitary" else xc.Xcov
        try:
            seq = cls().decompose(prog.circuit)
            out = cls().compile(seq, prog.register)
            verdict = "ok"
        except CircuitError as e:
            verdict = next((v for m, v in msgs.items() if m in str(e)), None)
            out = None
        finally:
            mod.GaussianUnitary = origGU
        if verdict is None or not store:
            ctx.tally("corr:xcheck:skipped")
            continue
        gu = store[0]
        if gu and not isinstance(gu[0].op, ops.MeasureFock):
            S = np.array(gu[0].op.p[0], dtype=float)
            used = [r.ind for r in gu[0].reg]
        else:
            S, used = np.identity(2 * n), list(range(n))
        case = dict(comp=comp, N=N, variant=variant, eps=eps, th=th)
        ctx.count(f"corr:xcheck:{comp}", case, variant not in ("sym", "none"))
        ctx.tally(f"corr:xcheck:{comp}:{verdict}")
        if comp == "Xunitary":
            reqs.append(dict(op="hw.xunitaryCheck", half=N, S=[[F(x) for x in r] for r in S], used=used))
            pend.append(("Xunitary validation verdict", case, verdict))
        else:
            S2 = expand(S, used, n) if len(used) != n else S
            A = Amat((sf.hbar / 2) * S2 @ S2.T, hbar=sf.hbar)
            reqs.append(dict(op="hw.xcovCheck", half=N, A=[[[F(z.real), F(z.imag)] for z in r] for r in A]))
            pend.append(("Xcov validation verdict", case, verdict))
            if verdict == "ok" and out is not None:
                # which Takagi value squeezes which pair
                sqs, _ = takagi(A[:N, N:n])
                got = [(c.reg[0].ind, c.reg[1].ind, float(c.op.p[0])) for c in out if isinstance(c.op, ops.S2gate)]
                impl = []
                for a, b, r in got:
                    cands = [j for j in range(N) if abs(np.tanh(r) - sqs[j]) < 1e-9]
                    impl.append([a, b, a if a in cands else (cands[0] if cands else -1)])
                reqs.append(dict(op="hw.xcovSqueezers", half=N))
                pend.append(("Xcov squeezer bookkeeping", case, impl))
    return reqs, pend


def corr_extra(ctx, sf, fx):
    """Borealis.add_loss, tdm.utils.make_phases_compatible, the hard-coded-parameter rule of Compiler.compile and the
    fixed-value rule of validate_gate_parameters"""
    import blackbird
    import strawberryfields.ops as ops
    import strawberryfields.compilers.tdm as tdmc
    import strawberryfields.program_utils as pu
    from strawberryfields.compilers import Compiler
    from strawberryfields.parameters import par_evaluate
    from strawberryfields.tdm import utils as tu
    from fractions import Fraction
    rng = ctx.rng
    reqs, pend = [], []
    # ---- add_loss on arbitrary TDM circuits
    for _ in range(ctx.n(40, 300)):
        tb = rng.randint(1, 20)
        seq = []
        for _k in range(rng.randint(1, 7)):
            c = rng.choice(["Sgate", "Rgate", "BSgate", "BSgate"])
            seq.append([c, rng.sample(range(3), 2) if c == "BSgate" else [rng.randrange(3)]])
        seq.append(["MeasureFock", [0]])
        prog = sf.TDMProgram(N=3)
        with prog.context([0.1] * tb, [0.2] * tb, [0.3] * tb) as (p, q):
            for c, regs in seq:
                if c == "Sgate":
                    ops.Sgate(p[0]) | q[regs[0]]
                elif c == "Rgate":
                    ops.Rgate(p[1]) | q[regs[0]]
                elif c == "BSgate":
                    ops.BSgate(p[2], PI / 2) | (q[regs[0]], q[regs[1]])
                else:
                    ops.MeasureFock() | q[0]
        nloops = rng.randint(0, 4)
        cert = {"common_efficiency": dy(rng, 0, 1), "loop_efficiencies": [dy(rng, 0, 1) for _ in range(nloops)],
                "relative_channel_efficiencies": [0.5 + 0.03125 * k for k in range(16)]}
        cert0 = copy.deepcopy(cert)
        dev = types.SimpleNamespace(certificate=cert)
        try:
            tdmc.Borealis().add_loss(prog, dev)
            impl = []
            for c in prog.circuit:
                if isinstance(c.op, ops.LossChannel):
                    try:
                        impl.append(["LossChannel", [r.ind for r in c.reg], F(float(par_evaluate(c.op.p[0])))])
                    except Exception:  # noqa: BLE001
                        impl.append(["LossChannel", [r.ind for r in c.reg], "param"])
                else:
                    impl.append([type(c.op).__name__, [r.ind for r in c.reg]])
            tiled = (cert0["relative_channel_efficiencies"] * ((tb + 15) // 16))[:tb]
            if [float(x) for x in prog.tdm_params[-1]] != tiled or cert != cert0:
                ctx.fail("fn:add_loss:efficiencies", "add_loss: per-bin detection efficiencies are not the tiled certificate values, or the certificate was edited",
                         dict(kind="none"))
        except IndexError:
            impl = None
        case = dict(seq=seq, nloops=nloops)
        ctx.count("corr:add_loss", case, impl is not None and sum(1 for c, _ in seq if c == "BSgate") >= 2)
        reqs.append(dict(op="hw.addLoss", circ=seq, glob=F(cert0["common_efficiency"]), loops=[F(x) for x in cert0["loop_efficiencies"]]))
        pend.append(("Borealis.add_loss", case, impl))
    # ---- make_phases_compatible on rational multiples of pi (odd denominators: no value sits on the +-pi/2 boundary)
    for _ in range(ctx.n(50, 400)):
        L = rng.randint(1, 45)
        den = rng.choice([7, 9, 11, 13])
        offs = [rng.choice([0.0, rng.randint(-2 * den, 2 * den) / den, rng.randint(-2 * den, 2 * den) / den]) for _ in range(3)]
        phis = [[rng.randint(-3 * den, 3 * den) / (den * rng.choice([1, 3])) for _ in range(L)] for _ in range(3)]
        d = {"Sgate": [0.0] * L, "loops": {i: {"Rgate": [x * PI for x in phis[i]], "BSgate": [0.0] * L} for i in range(3)}}
        d0 = copy.deepcopy(d)
        out = tu.make_phases_compatible(d, types.SimpleNamespace(certificate={"loop_phases": [o * PI for o in offs]}))
        impl = [[float(v) / PI for v in out["loops"][i]["Rgate"]] for i in range(3)]
        if d != d0:
            ctx.fail("fn:make_phases_compatible:input-mutated", "make_phases_compatible changed its input", dict(kind="none"))
        case = dict(L=L, offs=offs, phis=phis)
        ctx.count("corr:make_phases_compatible", case, L >= 7)
        fr = lambda x: [Fraction(x).limit_denominator(1000).numerator, Fraction(x).limit_denominator(1000).denominator]
        reqs.append(dict(op="hw.compatible", len=L, loops=[[fr(offs[i]), DELAYS[i], [fr(x) for x in phis[i]]] for i in range(3)]))
        pend.append(("tdm.utils.make_phases_compatible", case, impl))
        fn_check(ctx, sf, "compat", case)
    # ---- GBS.compile: options of the combined Fock measurement (modes in any order, several commands, partial options)
    from strawberryfields.compilers.gbs import GBS
    for _ in range(ctx.n(60, 500)):
        n = rng.randint(2, 6)
        modes_ = list(range(n))
        rng.shuffle(modes_)
        k = rng.randint(1, n)
        modes_ = modes_[:k] if rng.random() < 0.3 else modes_
        cuts = sorted(rng.sample(range(1, len(modes_)), min(rng.randint(0, 2), len(modes_) - 1))) if len(modes_) > 1 else []
        parts = [modes_[a:b] for a, b in zip([0] + cuts, cuts + [len(modes_)])]
        kind = rng.choice(["none", "select-all", "select-some", "dark-all", "dark-some", "both"])
        B = []
        for pi_, regs in enumerate(parts):
            d = dict(regs=regs, select=None, dark=None)
            if kind == "select-all" or (kind in ("select-some", "both") and pi_ == 0):
                d["select"] = [rng.randint(0, 3) for _ in regs]
            if kind == "dark-all" or (kind == "dark-some" and rng.random() < 0.6) or (kind == "both" and pi_ == len(parts) - 1):
                d["dark"] = [rng.choice([0.0, 0.125, 0.5]) for _ in regs]
            if d["select"] is not None and d["dark"] is not None:
                d["dark"] = None
            B.append(d)
        prog = sf.Program(n)
        with prog.context as q:
            ops.Sgate(0.3) | q[0]
            for d in B:
                ops.MeasureFock(select=d["select"], dark_counts=d["dark"]) | tuple(q[r] for r in d["regs"])
        try:
            out = GBS().compile(list(prog.circuit), prog.register)
            last = out[-1]
            impl = dict(modes=[r.ind for r in last.reg], select=(None if last.op.select is None else [int(x) for x in last.op.select]),
                        dark=(None if last.op.dark_counts is None else [F(float(x)) for x in last.op.dark_counts]))
        except pu.CircuitError:
            impl = "CircuitError"
        case = dict(B=B)
        ctx.count("corr:gbs_options", case, len(B) >= 2 and kind != "none")
        ctx.tally("corr:gbs_options:" + ("CircuitError" if impl == "CircuitError" else "ok"))
        reqs.append(dict(op="hw.gbsOptions", B=[dict(regs=d["regs"], select=d["select"], dark=None if d["dark"] is None else [F(x) for x in d["dark"]]) for d in B]))
        pend.append(("GBS.compile options", case, impl))
    # ---- rectangular_symmetric: the phase push-through on top of rectangular_MZ (public), angles compared on the circle
    import strawberryfields.decompositions as dec
    nprng = ctx.nprng(53)
    for _ in range(ctx.n(30, 250)):
        N = rng.randint(2, 7)
        V = hw12.rand_unitary(nprng, N, rng.choice(["haar", "haar", "real", "phased_perm", "block", "identity"]))
        ti, dg, tl = dec.rectangular_MZ(V)
        nt, nd, _none = dec.rectangular_symmetric(V)
        fr_ = lambda x: [Fraction(float(x) / PI).limit_denominator(10 ** 12).numerator, Fraction(float(x) / PI).limit_denominator(10 ** 12).denominator]
        blk = lambda t: [int(t[0]), int(t[1]), fr_(t[2]), fr_(t[3])]
        impl = dict(tlist=[[int(t[0]), int(t[1]), float(t[2]) / PI, float(t[3]) / PI] for t in nt], diags=[float(np.angle(z)) / PI for z in nd])
        case = dict(N=N, n_push=len(tl))
        ctx.count("corr:symmetric_push", case, len(tl) >= 2)
        reqs.append(dict(op="hw.symPush", tilist=[blk(t) for t in ti], tlist=[blk(t) for t in tl], diags=[fr_(np.angle(z)) for z in dg]))
        pend.append(("rectangular_symmetric phase push", case, impl))
        # property level: the returned blocks and diagonal reproduce the matrix (own product of the documented blocks)
        def mz(m_, n_, pi_, pe_):
            c_, s_ = math.cos(pi_ / 2), math.sin(pi_ / 2)
            M = np.identity(N, dtype=complex)
            g = 1j * np.exp(1j * pi_ / 2)
            M[m_, m_], M[m_, n_], M[n_, m_], M[n_, n_] = g * s_ * np.exp(1j * pe_), g * c_, g * c_ * np.exp(1j * pe_), -g * s_
            return M
        W = np.identity(N, dtype=complex)
        for t in nt:
            W = mz(int(t[0]), int(t[1]), t[2], t[3]) @ W
        W = np.diag(nd) @ W
        ctx.oracle_cases += 1
        if np.max(np.abs(W - V)) > 1e-8:
            ctx.fail("fn:rectangular_symmetric:reconstruction", f"rectangular_symmetric on a {N}x{N} unitary: diag · product of the Mach-Zehnder blocks differs from "
                     f"the input by {np.max(np.abs(W - V)):.3g}", dict(kind="symrec", V=enc_U(V)))
    # ---- parameter rules: Compiler.compile (hard-coded layout parameters), validate_gate_parameters (fixed layout values)
    for _ in range(ctx.n(60, 500)):
        def larg():
            u = rng.random()
            return rng.choice([0.5, 0.0, 0.25]) if u < 0.5 else ("sym:r%d" % rng.randint(0, 1) if u < 0.85 else "2*r0")
        def parg():
            u = rng.random()
            return rng.choice([0.5, 0.0, 0.25, 0.500004, 0.50002]) if u < 0.8 else "x"
        la, pa = [larg(), larg()], [parg(), parg()]
        enc = lambda a: ([Fraction(a).limit_denominator(10 ** 7).numerator, Fraction(a).limit_denominator(10 ** 7).denominator] if not isinstance(a, str) else a)
        txt = lambda a: ("{" + a[4:] + "}") if isinstance(a, str) and a.startswith("sym:") else ("2*{r0}" if a == "2*r0" else repr(a))
        layout = f"name t\nversion 1.0\n\nSgate({txt(la[0])}, {txt(la[1])}) | 0\n"
        prog = sf.Program(1)
        x = prog.params("x")
        with prog.context as q:
            ops.Sgate(*[x if a == "x" else a for a in pa]) | q[0]

        class Scratch(Compiler):
            interactive = False
            primitives = {"Sgate"}
            decompositions = {}
        Scratch.init_circuit(layout)
        try:
            Scratch().compile(prog.circuit, prog.register)
            clash = False
        except pu.CircuitError as e:
            clash = "parameter values" in str(e)
        impl = dict(clash=clash)
        if "x" not in pa:
            bbp = blackbird.loads("name t\nversion 1.0\n\nSgate(%r, %r) | 0\n" % (pa[0], pa[1]))
            impl["fixed"] = bool(pu._fixed_layout_values_match(blackbird.loads(layout), bbp))
        if rng.random() < 0.4:
            # the program's argument is a per-time-bin array variable (TDM program through to_blackbird)
            import strawberryfields.io as sio_
            tb = rng.randint(1, 5)
            base_ = rng.choice([0.5, 0.25])
            arr_ = [base_ + rng.choice([0.0, 0.0, 0.0, 4e-6, 2e-5, 0.25]) for _ in range(tb)]
            la = [rng.choice(["sym:r0", 0.5, 0.25]), rng.choice([0.5, 0.25, "sym:r1"])]
            tprog = sf.TDMProgram(N=1)
            with tprog.context([0.1] * tb, arr_) as (p_, q_):
                ops.Sgate(p_[0], p_[1]) | q_[0]
                ops.MeasureHomodyne(0.0) | q_[0]
            layout2 = f"name t\nversion 1.0\n\nSgate({txt(la[0])}, {txt(la[1])}) | 0\nMeasureHomodyne(0.0) | 0\n"
            impl = dict(fixed=bool(pu._fixed_layout_values_match(blackbird.loads(layout2), sio_.to_blackbird(tprog))))
            case = dict(layout=la, arr=arr_)
            ctx.count("corr:param_rules:array", case, impl["fixed"] is False)
            reqs.append(dict(op="hw.paramRules", layout=[enc(a) for a in la], prog=[dict(arr=[enc(0.1)] * tb), dict(arr=[enc(x) for x in arr_])]))
            pend.append(("parameter rules", case, impl))
            continue
        case = dict(layout=la, prog=pa)
        ctx.count("corr:param_rules", case, clash or impl.get("fixed") is False)
        reqs.append(dict(op="hw.paramRules", layout=[enc(a) for a in la], prog=[enc(a) for a in pa]))
        pend.append(("parameter rules", case, impl))
    return reqs, pend


def canon(pair, model, impl, case):
    """returns (model', impl') to be compared exactly, or None when they agree by the pair's own rule"""
    if pair == "rectangular_symmetric mode pairs":
        N = case["N"]
        mz = [["MZgate", [p, p + 1]] for p in model["compiled"]] + [["Rgate", [i]] for i in range(N)]
        m = dict(compiled=model["compiled"], pairs_ok=True, layout=model["layout"], decompose=mz)
        return m, impl
    if pair == "X compile skeleton":
        m = dict(compiled=[list(x) for x in model["compiled"]], layout=[list(x) for x in model["layout"]], s2perm=True)
        return m, impl
    if pair == "rectangular_symmetric phase push":
        circ = lambda x, y: min((x - y) % 2, 2 - (x - y) % 2)
        mt, md = model["tlist"], model["diags"]
        if len(mt) != len(impl["tlist"]) or len(md) != len(impl["diags"]):
            return model, impl
        for a_, b_ in zip(mt, impl["tlist"]):
            if a_[0] != b_[0] or a_[1] != b_[1] or circ(a_[2][0] / a_[2][1], b_[2]) > 1e-8 or circ(a_[3][0] / a_[3][1], b_[3]) > 1e-8:
                return model, impl
        for a_, b_ in zip(md, impl["diags"]):
            if circ(a_[0] / a_[1], b_) > 1e-8:
                return model, impl
        return None
    if pair == "Borealis.add_loss":
        return model, (None if impl is None else [list(x) for x in impl])
    if pair == "parameter rules":
        return ({k: model[k] for k in impl}, impl)
    if pair == "tdm.utils.make_phases_compatible":
        if len(model) != len(impl):
            return model, impl
        for lm, li in zip(model, impl):
            if len(lm) != len(li):
                return model, impl
            for (p_, q_), y in zip(lm, li):
                d_ = abs(p_ / q_ - y) % 2
                if min(d_, 2 - d_) > 1e-9:
                    return model, impl
        return None
    if pair == "Borealis.update_params":
        # exact rationals vs float64: compare at 1e-9, except where the exact value sits on a branch boundary
        if len(model) != len(impl):
            return model, impl
        for lm, li in zip(model, impl):
            if len(lm) != len(li):
                return model, impl
            for (p, q), y in zip(lm, li):
                x = p / q
                if abs(x - y) > 1e-9 and abs(abs(x) - 0.5) > 1e-9 and abs(abs(x - y) - 1) > 1e-9:
                    return model, impl
                if abs(abs(x - y) - 1) <= 1e-9 and abs(abs(x) - 0.5) > 1e-9:
                    return model, impl
        return None
    return model, impl


def compare(ctx, reqs, pend):
    if not ctx.proof_ok or not reqs:
        return
    res = ctx.lean(reqs)
    for (pair, case, impl), model in zip(pend, res):
        ctx.corr_cases += 1
        c = canon(pair, model, impl, case)
        if c is None:
            continue
        m, i = c
        if m != i:
            ctx.disagree(f"HwCompile vs {pair}", case, m, i)


# ====================================================================== corpus, run, replay
def corpus_cases():
    S = lambda i, N, r, phi=0.0: dict(cls="S2gate", regs=[i, i + N], pars=[r, phi])
    M = lambda n: dict(cls="MeasureFock", regs=list(range(n)), pars=[])
    base = dict(kind="x", sq="wide", ph="fixture", complist=[], kinds=["corpus"])
    out = []
    # two duplicate groups, interleaved and consecutive (stale positions in the S2-merge loop)
    out.append(dict(base, N=2, modes=4, comp="Xunitary", desc=dict(n=4, ops=[S(0, 2, .5), S(1, 2, .25), S(0, 2, .5), S(1, 2, .75), M(4)])))
    out.append(dict(base, N=2, modes=4, comp="Xunitary", desc=dict(n=4, ops=[S(0, 2, .5), S(0, 2, .5), S(1, 2, .25), S(1, 2, .75), M(4)])))
    # stale positions still in range: a third pair's squeezer is popped instead
    out.append(dict(base, N=3, modes=6, comp="Xunitary",
                    desc=dict(n=6, ops=[S(1, 3, .5), S(1, 3, .5), S(2, 3, .25), S(2, 3, .25), S(0, 3, 1.0), M(6)])))
    out.append(dict(base, N=3, modes=6, comp="Xunitary",
                    desc=dict(n=6, ops=[S(0, 3, .25), S(1, 3, .5), S(2, 3, .5), S(1, 3, .5), S(2, 3, .5), S(0, 3, .25), M(6)])))
    return out


def corpus_tdm():
    L = 10
    args = [[0.5] * L] + [[0.1 * (k + 1)] * L for k in range(6)]
    return [dict(kind="borealis", L=L, loop_phases=[0.1, -0.1, 3.0], args=args, offsets=[None, None, None], mut="no-measure"),
            dict(kind="borealis", L=L, loop_phases=[0.1, -0.1, 3.0], args=args, offsets=[0.1, None, None], mut=None)]


def run(ctx, sf):
    fx = fixture_ns(sf)
    # anchor of the synthetic layouts: N = 4 must be the X8_01 fixture
    import blackbird
    b1, b2 = blackbird.loads(fx["X8_layout"]), blackbird.loads(hw12.x_layout_text(4))
    if b1.operations != b2.operations or fx["X8_spec"]["gate_parameters"] != hw12.x_gate_parameters(4, [0, 1], [0, [0, hw12.TWO_PI]]):
        ctx.notes.append("synthetic X layout for N=4 differs from the X8_01 fixture of the checkout")
        ctx.tally("anchor:x8-fixture-differs")
    else:
        ctx.tally("anchor:x8-fixture-equal")
    # ---- corpus first (corpus/C12/*.json: minimised past failures)
    import json
    from lib import core
    for f in sorted((core.VERIF / "corpus" / "C12").glob("*.json")):
        case = json.loads(f.read_text())
        ctx.tally("corpus")
        if case["kind"] == "x":
            x_oracle(ctx, sf, case)
        elif case["kind"] == "borealis":
            borealis_oracle(ctx, sf, fx, case)
        elif case["kind"] == "instance":
            run_instance_sequence(ctx, sf, fx, case["name"], case["pool"])
        else:
            tdm1_oracle(ctx, sf, case)
    # ---- correspondence
    for fn in (corr_ranges, corr_validate, corr_layout_cache, corr_assert_modes, corr_template, corr_merge, corr_xchecks):
        reqs, pend = fn(ctx, sf)
        compare(ctx, reqs, pend)
    reqs, pend = corr_borealis(ctx, sf, fx)
    compare(ctx, reqs, pend)
    reqs, pend = corr_extra(ctx, sf, fx)
    compare(ctx, reqs, pend)
    # ---- oracle
    rng = ctx.rng
    nprng = ctx.nprng(5)
    for _ in range(ctx.n(230, 4000)):
        x_oracle(ctx, sf, gen_x_case(rng, nprng, ctx.tier == "thorough"))
    # every non-implementable ingredient on every position class and stage, for every compiler
    for N_ in ((2, 3) if ctx.tier == "quick" else (1, 2, 3, 4)):
        for ci, combo in enumerate(sweep_combos(N_)):
            for comp_ in (("Xcov", "Xunitary", "Xstrict") if ctx.tier != "quick" else (("Xcov",) + (("Xunitary",) if (ci + N_) % 2 == 0 else ("Xstrict",)))):
                x_oracle(ctx, sf, gen_sweep_case(rng, nprng, N_, comp_, combo))
    for _ in range(ctx.n(45, 500)):
        borealis_oracle(ctx, sf, fx, gen_borealis_case(rng))
    for _ in range(ctx.n(40, 400)):
        tdm1_oracle(ctx, sf, gen_tdm1_case(rng))
    history_oracle(ctx, sf, fx)
    instance_oracle(ctx, sf, fx)
    helpers_oracle(ctx, sf, fx)


def directed(ctx, sf, fx, d):
    """end-to-end inputs derived from a correspondence disagreement: the disagreeing case is turned into programs / devices on
    which the property-level oracles can show the difference as a concrete failing input"""
    pair, case = d["pair"], d["case"]
    rng, nprng = ctx.rng, ctx.nprng(91)
    fnmap = {"Ranges.__contains__": "ranges", "Device.validate_parameters": "validate", "Compiler.init_circuit history": "init",
             "Program.assert_modes": "assert", "TDMProgram.assert_modes": "tdm_assert", "xunitary.list_duplicates": "dups",
             "Borealis.compile offset insertion": "offsets", "Borealis.update_params": "update"}
    name = next((v for k, v in fnmap.items() if k in pair), None)
    if name:
        fn_check(ctx, sf, name, case if name != "dups" else dict(seq=[list(k) for k in case["seq"]]), fx)
    if "Borealis.update_params" in pair:
        L = max(case["L"], 2)
        lp = [o * PI for o in case["offs"]]
        for scale in (1.0, None):
            args = [[0.5] * L]
            for i in range(3):
                ph = [x * PI for x in (case["phis"][i] + [0.0] * L)[:L]]
                if scale is None:                      # the same phases brought inside the modulators' range
                    ph = [float(wrap_to_pi(np.array(x))) / 2.3 for x in ph]
                args += [ph, [0.7] * L]
            for LL in (L, 48):
                a2 = [(a * (LL // len(a) + 1))[:LL] for a in args]
                borealis_oracle(ctx, sf, fx, dict(kind="borealis", L=LL, loop_phases=lp, args=a2, mut=None, via_utils=False, loss=False,
                                                  offsets=[lp[i] if case["user"][i] else None for i in range(3)]), count=False)
    elif "Device.validate_parameters" in pair and not case.get("none"):
        for nm, v in case["params"].items():
            if nm not in case["gp"]:
                continue
            vals = [float(x) for x in _flatten(v)]
            if not vals:
                continue
            ent = case["gp"][nm]
            zero = [0.0] * len(vals)
            for slot in ("alpha", "phi", "theta"):
                gp = {"bs": [0], "r": [0], "m": [0]}
                gp[{"alpha": "bs", "phi": "r", "theta": "m"}[slot]] = ent
                c = dict(kind="tdm1", target=rng.choice(["TDM", "TD2"]), c=1, alpha=zero, phi=zero, theta=zero, mut=None, sqfix=0.5643, gp=gp)
                c[slot] = vals
                tdm1_oracle(ctx, sf, c, count=False)
    elif "assert_modes" in pair:
        for _ in range(20):
            c = gen_tdm1_case(rng)
            c["mut"] = rng.choice(["concurrent", "temporal", None])
            tdm1_oracle(ctx, sf, c, count=False)
            x = gen_x_case(rng, nprng)
            x["modes"] = 2 * x["N"] - 2
            x_oracle(ctx, sf, x, count=False)
    elif "S2 merge" in pair:
        N = case["N"]
        ops_ = [dict(cls="S2gate", regs=[b[0], b[1]], pars=[b[2], b[3]], **({"dagger": True} if len(b) > 4 and b[4] else {})) for b in case["B"]]
        ops_.append(dict(cls="MeasureFock", regs=list(range(2 * N)), pars=[]))
        for share in (False, True):
            x_oracle(ctx, sf, dict(kind="x", N=N, comp="Xunitary", sq="wide", ph="fixture", complist=[], modes=2 * N, kinds=["directed"],
                                   desc=dict(n=2 * N, ops=ops_, share=share)), count=False)
    elif "mode pairs" in pair or "skeleton" in pair or "verdict" in pair or "bookkeeping" in pair:
        N = max(case.get("N", 2), 1)
        comps = [case["comp"]] if case.get("comp") in ("Xunitary", "Xcov") else ["Xunitary", "Xcov"]
        for comp in comps:
            for uk in ("haar", "real", "phased_perm"):
                U = hw12.rand_unitary(nprng, N, uk)
                sq = [rng.choice([0.25, 0.5, 1.0]) for _ in range(N)]
                for U2 in (U, U @ np.diag(np.exp(1j * 1e-4 * np.ones(N))), np.diag(np.exp(1j * 3e-5 * np.ones(N))) @ U):
                    ops_ = [dict(cls="S2gate", regs=[i, i + N], pars=[sq[i], 0.0]) for i in range(N)]
                    ops_ += [dict(cls="Interferometer", regs=list(range(N)), U=enc_U(U)), dict(cls="Interferometer", regs=list(range(N, 2 * N)), U=enc_U(U2)),
                             dict(cls="MeasureFock", regs=list(range(2 * N)), pars=[])]
                    x_oracle(ctx, sf, dict(kind="x", N=N, comp=comp, sq="wide", ph="fixture", complist=[], modes=2 * N, kinds=["directed"],
                                           desc=dict(n=2 * N, ops=ops_)), count=False)
    elif "offset insertion" in pair:
        for _ in range(15):
            c = gen_borealis_case(rng)
            c.update(L=10, args=[a[:10] for a in c["args"]], loss=False, via_utils=False)
            borealis_oracle(ctx, sf, fx, c, count=False)
    elif "init_circuit" in pair:
        history_oracle(ctx, sf, fx)


def search(ctx, sf):
    fx = fixture_ns(sf)
    per_pair = {}
    for d in list(ctx.disagreements):
        per_pair[d["pair"]] = per_pair.get(d["pair"], 0) + 1
        if per_pair[d["pair"]] > 6:
            continue
        try:
            directed(ctx, sf, fx, d)
        except Exception as e:  # noqa: BLE001
            ctx.fail(f"directed-crash:{type(e).__name__}", f"directed search from {d['pair']}: {type(e).__name__} {str(e)[:150]}", dict(kind="none"))
        if len(ctx.failures) >= 5:
            return
    run(ctx, sf)


def replay(ctx, rp):
    import strawberryfields as sf
    n0 = len(ctx.failures)
    if rp["kind"] == "x":
        x_oracle(ctx, sf, rp, count=False)
    elif rp["kind"] == "borealis":
        borealis_oracle(ctx, sf, fixture_ns(sf), rp, count=False)
    elif rp["kind"] == "tdm1":
        tdm1_oracle(ctx, sf, rp, count=False)
    elif rp["kind"] == "none":
        return False
    elif rp["kind"] == "symrec":
        import strawberryfields.decompositions as dec
        V = dec_U(rp["V"]); N = len(V)
        nt, nd, _ = dec.rectangular_symmetric(V)
        W = np.identity(N, dtype=complex)
        for t in nt:
            pi_, pe_, m_, n_ = t[2], t[3], int(t[0]), int(t[1])
            M = np.identity(N, dtype=complex); g = 1j * np.exp(1j * pi_ / 2)
            M[m_, m_], M[m_, n_], M[n_, m_], M[n_, n_] = g * math.sin(pi_ / 2) * np.exp(1j * pe_), g * math.cos(pi_ / 2), g * math.cos(pi_ / 2) * np.exp(1j * pe_), -g * math.sin(pi_ / 2)
            W = M @ W
        return bool(np.max(np.abs(np.diag(nd) @ W - V)) > 1e-8)
    elif rp["kind"] == "fn":
        fn_check(ctx, sf, rp["fn"], rp["case"], fixture_ns(sf))
    elif rp["kind"] == "instance":
        return run_instance_sequence(ctx, sf, fixture_ns(sf), rp["name"], rp["pool"], report=True)
    elif rp["kind"] == "history":
        replay_history(ctx, sf, fixture_ns(sf), rp)
    elif rp["kind"] == "helpers":
        helpers_oracle(ctx, sf, fixture_ns(sf))
    return len(ctx.failures) > n0
