"""C11 — Gaussian-merging compilers (gaussian_unitary, passive, gaussian_merge) return a program with the
same net action.

(a) correspondence: `Program.compile(compiler='gaussian_unitary' / 'passive')`, `_apply_symp_one_mode_gate`,
    `_apply_symp_two_mode_gate`, `_apply_one_mode_gate`, `_apply_two_mode_gate`, `thewalrus.symplectic.expand`
    against the Lean model `SFV.Model.GaussCompile` on rational-atom circuits (exact model, float64 code, 1e-9);
    for `gaussian_merge` every step of `merge_a_gaussian_op` is turned into a witness and validated by the proved
    checker `checkMerge`.
(b) oracle on the real code: the emitted matrices/registers against an independent ordered product of the
    documented blocks (lib/gcompile.py, lib/sim.py), source vs compiled program on the gaussian back end from a
    correlated state, hybrid circuits on the fock back end (truncation-escalation rule), error class.
(c) replay of stored failing inputs."""
import copy
import itertools
import math

import numpy as np

from lib import gcompile as gc
from lib import sim

RULE = ("rational-atom circuits of 1-9 commands over the primitives of gaussian_unitary / passive on index sets "
        "such as {8,1}, {0,9,17}, 9-12 modes of a register of up to 20, 35 % daggered gates, ordered (also "
        "descending) mode pairs, 1-4-mode Interferometer / GaussianTransform / PassiveChannel blocks; float circuits "
        "additionally over the decomposable operations (Pgate, CXgate, CZgate, Xgate, Zgate, Fouriergate); hybrid "
        "circuits with Kgate/Vgate/CKgate/MeasureFock/MeasureHomodyne for gaussian_merge, also on non-contiguous index "
        "sets, with Del/New holes, GraphEmbed/BipartiteGraphEmbed/Gaussian; equal operations are ONE shared Operation "
        "instance within and across programs; programs are compiled twice / interleaved / by two compilers in "
        "sequence and snapshotted before and after.  Non-trivial = at least two "
        "commands sharing a mode and (a used-mode list that is not 0..k-1 or a daggered command); distinct by spec.")
ASSUMPTIONS = [
    "the blocks of Dgate/Rgate/Sgate/BSgate/S2gate/MZgate/sMZgate and of their inverses are computed by the model from "
    "the parameter atoms (rational circle/hyperbola points) and compared at 1e-9 with the float64 result of the real "
    "compiler (thewalrus.symplectic.*, np.linalg.inv, the MZ matrices); Interferometer/GaussianTransform/PassiveChannel "
    "matrices are user data and travel as data; thewalrus.symplectic.expand is modelled by embedRows/xpRows and compared",
    "np.allclose thresholds of the emission (identity matrix / zero displacement) are compared as thresholds",
    "gaussian_merge: commands without a common wire commute; the meaning of an emitted block is validated numerically "
    "against the ordered product of its members for every merge step",
    "Fock-space comparison uses the truncation-escalation rule of DESIGN 1.6",
]
TRUSTED = ["modelled: GaussianUnitary.compile, _apply_symp_one/two_mode_gate, Passive.compile, _apply_one/two_mode_gate "
           "(used_modes, dict_indices, ord_reg, emission, documented gate blocks), the graph surgery of "
           "merge_a_gaussian_op (edge set compared on every step); validated per instance by a proved checker: the "
           "result of every gaussian_merge step",
           "the selection of the commands gaussian_merge merges (NetworkX iteration order) is not modelled"]

TOL = 1e-9


def maxabs(a):
    return float(np.max(np.abs(a), initial=0.0))


def nontrivial(spec):
    used = sorted({m for o in spec["ops"] for m in o["regs"]})
    share = any(set(a["regs"]) & set(b["regs"]) for a, b in itertools.combinations(spec["ops"], 2))
    return share and (used != list(range(len(used))) or any(o.get("dagger") for o in spec["ops"]))


def circuit_error():
    import strawberryfields.program_utils as pu
    return pu.CircuitError


# ---------------------------------------------------------------------------------------------------------------
# oracle for gaussian_unitary / passive on the real code (independent reference)
# ---------------------------------------------------------------------------------------------------------------

OP_CACHE = {}        # equal operations are ONE shared instance within and across the programs of a run
LAST = {}            # compiler -> (program, signature of its compiled circuit) of the previous case


def source_untouched(ctx, before, prog, compiler, rp):
    after = gc.snapshot(prog)
    for k in before:
        if before[k] != after[k]:
            ctx.fail(f"{compiler}:source-modified", f"compile(compiler='{compiler}') changed the source program ({k})", rp)
            return False
    return True


def compile_or_error(ctx, spec, compiler, rp, via=None):
    """returns (prog, compiled) or None when compilation raised; a non-circuit error is a failure.
    Also: the source program is left untouched, compiling twice gives the same circuit, and compiling another
    program in between does not change the result (compilers must not keep state)."""
    prog, cmds = gc.build(spec, op_cache=OP_CACHE)
    before = gc.snapshot(prog)
    try:
        src = prog if via is None else prog.compile(compiler=via, warn_connected=False)
        comp = src.compile(compiler=compiler, warn_connected=False)
    except circuit_error():
        ctx.tally(f"{compiler}:CircuitError")
        source_untouched(ctx, before, prog, compiler, rp)
        return None
    except Exception as e:  # noqa: BLE001
        ctx.fail(f"{compiler}:raises:{type(e).__name__}",
                 f"compile(compiler='{compiler}') raised {type(e).__name__}: {str(e)[:80]} (neither a compiled program nor a CircuitError)", rp)
        return None
    if not source_untouched(ctx, before, prog, compiler, rp):
        return None
    if via is None:
        sig = gc.circuit_signature(list(comp.circuit))
        try:
            if ctx.rng.random() < 0.3:
                again = gc.circuit_signature(list(prog.compile(compiler=compiler, warn_connected=False).circuit))
                ctx.tally(f"{compiler}:compiled-twice")
                if again != sig:
                    ctx.fail(f"{compiler}:second-compile-differs", f"compiling the same program twice with '{compiler}' gives different circuits", rp)
                    return None
            if compiler in LAST and ctx.rng.random() < 0.3:
                p0, sig0, rp0 = LAST[compiler]
                again = gc.circuit_signature(list(p0.compile(compiler=compiler, warn_connected=False).circuit))
                ctx.tally(f"{compiler}:recompiled-previous")
                if again != sig0:
                    ctx.fail(f"{compiler}:history-dependent", f"'{compiler}' compiles a program differently after another program was compiled",
                             dict(rp0, then=rp.get("spec")))
                    return None
        except Exception as e:  # noqa: BLE001
            ctx.fail(f"{compiler}:second-compile-raises:{type(e).__name__}", f"a repeated compile with '{compiler}' raised {type(e).__name__}: {str(e)[:80]}", rp)
            return None
        LAST[compiler] = (prog, sig, rp)
    return prog, comp


def oracle_gu(ctx, spec, run_engine=False, via=None):
    """returns the observed (regs, S, disp) for the correspondence, or None.
    `via='gaussian_merge'`: the program is first compiled with that compiler, the result with gaussian_unitary."""
    rp = dict(kind="gu", spec=gc.strip_ex(spec), engine=run_engine, via=via)
    ctx.oracle_cases += 1
    res = compile_or_error(ctx, spec, "gaussian_unitary", rp, via=via)
    if res is None:
        return None
    prog, comp = res
    if any(o["cls"] == "Del" for o in spec["ops"]):
        ctx.fail("gu:accepted-delete", "gaussian_unitary compiled a circuit that deletes a mode into a single transformation", rp)
        return None
    modes = sorted({m for o in spec["ops"] for m in o["regs"]})
    n = len(modes)
    regs, S, disp, problems = gc.emitted_gu(list(comp.circuit))
    for p in problems:
        ctx.fail("gu:malformed-output", f"gaussian_unitary: {p}", rp)
        return None
    # reference from the *decomposed* source is not used: every op has its own documented block
    ref = gc.net_reference(spec["ops"], modes)
    if ref is None:
        return None
    Sref, dref = ref
    scale = max(1.0, maxabs(Sref))
    if S is None:
        if maxabs(Sref - np.eye(2 * n)) > 2e-5 * scale:
            ctx.fail("gu:transform-dropped", f"no GaussianTransform emitted although the net matrix differs from 1 by {maxabs(Sref - np.eye(2 * n)):.3g}", rp)
            return None
    else:
        if via is not None and regs != modes and set(regs) <= set(modes) and S.shape == (2 * len(regs),) * 2:
            # two compilers in sequence: the first may legitimately drop a mode on which the net action is the
            # identity (e.g. BSgate(0, 2 pi)); compare on the source's modes with the identity on the dropped ones
            E, _ = gc.embed(S, [modes.index(m) for m in regs], n)
            regs, S = modes, E
        if regs != modes:
            ctx.fail("gu:registers", f"GaussianTransform acts on {regs}, the source used modes {modes}", rp)
            return None
        if maxabs(S - Sref) > TOL * scale:
            ctx.fail("gu:matrix", f"net symplectic differs from the ordered product of the source blocks by {maxabs(S - Sref):.3g} "
                     f"(modes {modes}, daggers {[bool(o.get('dagger')) for o in spec['ops']]})", rp)
            return None
    for i, m in enumerate(modes):
        dx, dp = disp.get(m, (0.0, 0.0))
        err = max(abs(dx - dref[i]), abs(dp - dref[i + n]))
        lim = 4e-8 if m not in disp else TOL * max(1.0, maxabs(dref))
        if err > lim:
            ctx.fail("gu:displacement", f"net displacement of mode {m} is ({dx:.6g}, {dp:.6g}), the source gives ({dref[i]:.6g}, {dref[i + n]:.6g})", rp)
            return None
    for m in disp:
        if m not in modes:
            ctx.fail("gu:registers", f"Dgate on mode {m} which the source does not use", rp)
    if run_engine:
        engine_compare(ctx, spec, prog, comp, "gaussian_unitary", rp)
    return regs, S, disp


def oracle_passive(ctx, spec, run_engine=False):
    rp = dict(kind="passive", spec=gc.strip_ex(spec), engine=run_engine)
    ctx.oracle_cases += 1
    res = compile_or_error(ctx, spec, "passive", rp)
    if res is None:
        return None
    prog, comp = res
    if any(o["cls"] == "Del" for o in spec["ops"]):
        ctx.fail("passive:accepted-delete", "passive compiled a circuit that deletes a mode into a single transformation", rp)
        return None
    modes = sorted({m for o in spec["ops"] for m in o["regs"]})
    cmds = list(comp.circuit)
    if len(cmds) != 1 or cmds[0].op.__class__.__name__ != "PassiveChannel":
        ctx.fail("passive:malformed-output", f"passive: output is {[c.op.__class__.__name__ for c in cmds]}", rp)
        return None
    regs = [r.ind for r in cmds[0].reg]
    from strawberryfields.parameters import par_evaluate
    T = np.asarray(par_evaluate(cmds[0].op.p)[0], dtype=complex)
    if regs != modes:
        ctx.fail("passive:registers", f"PassiveChannel acts on {regs}, the source used modes {modes}", rp)
        return None
    if T.shape != (len(regs), len(regs)):
        ctx.fail("passive:malformed-output", f"PassiveChannel of shape {T.shape} on {len(regs)} registers", rp)
        return None
    Tref = gc.passive_reference(spec["ops"], modes)
    if Tref is None:
        return None
    if maxabs(T - Tref) > TOL * max(1.0, maxabs(Tref)):
        ctx.fail("passive:matrix", f"transfer matrix differs from the ordered product of the source blocks by {maxabs(T - Tref):.3g} "
                 f"(modes {modes}, daggers {[bool(o.get('dagger')) for o in spec['ops']]})", rp)
        return None
    if run_engine:
        engine_compare(ctx, spec, prog, comp, "passive", rp)
    return regs, T


def prefix_spec(rng_seed, spec):
    """a deterministic correlated, displaced, mixed Gaussian state on the used modes (+ one spectator)"""
    import random
    rng = random.Random(rng_seed)
    modes = sorted({m for o in spec["ops"] for m in o["regs"]})
    spect = [m for m in range(spec["n"]) if m not in modes][:1]
    ms = modes + spect
    ops = []
    for m in ms:
        ops.append(dict(cls="Sgate", regs=[m], pars=[round(rng.uniform(0.1, 0.4), 3) * rng.choice([1, -1]), round(rng.uniform(-3, 3), 3)]))
        ops.append(dict(cls="Dgate", regs=[m], pars=[round(rng.uniform(0.1, 0.5), 3), round(rng.uniform(-3, 3), 3)]))
    for a, b in zip(ms, ms[1:]):
        ops.append(dict(cls="BSgate", regs=[a, b], pars=[round(rng.uniform(0.3, 1.2), 3), round(rng.uniform(-3, 3), 3)]))
    ops.append(dict(cls="LossChannel", regs=[ms[0]], pars=[0.8]))
    return dict(n=spec["n"], ops=ops)


def engine_compare(ctx, spec, prog, comp, compiler, rp):
    """Result.state of source vs compiled program, both run after the same state preparation"""
    import strawberryfields as sf
    pre = prefix_spec(len(spec["ops"]) * 7919 + spec["n"], spec)
    states = []
    for second in (prog, comp):
        p0, _ = gc.build(pre, "prefix")
        eng = sf.Engine("gaussian")
        try:
            eng.run(p0)
            st = eng.run(second).state
        except circuit_error():
            ctx.tally(f"{compiler}:engine:CircuitError")
            return
        except Exception as e:  # noqa: BLE001
            if second is prog:
                ctx.tally(f"source-not-runnable:{type(e).__name__}")
                return
            # the emitted matrix was already checked; failures of the matrix decompositions that *run* a
            # GaussianTransform belong to C02/C17 and are only counted here
            ctx.tally(f"{compiler}:compiled-run-error:{type(e).__name__}")
            return
        states.append((np.asarray(st.means()), np.asarray(st.cov())))
    d = max(maxabs(states[0][0] - states[1][0]), maxabs(states[0][1] - states[1][1]))
    ctx.tally(f"{compiler}:engine-compared")
    if d > 1e-6 * max(1.0, maxabs(states[0][1])):
        ctx.fail(f"{compiler}:state", f"state of compiled program differs from the source by {d:.3g} (gaussian back end, correlated input)", rp)


# ---------------------------------------------------------------------------------------------------------------
# correspondence with the Lean model
# ---------------------------------------------------------------------------------------------------------------

def fr(q):
    return q[0] / q[1]


def corr_gu(ctx, spec, reqs, pending):
    obs = oracle_gu(ctx, spec)
    ctx.count("gu:exact", gc.strip_ex(spec), nontrivial(spec), sample=dict(spec=gc.strip_ex(spec)))
    if obs is None:
        return
    prog, _ = gc.build(spec)
    registers = [r.ind for r in prog.register]
    reqs.append(dict(op="gc.gu", registers=registers,
                     cmds=[dict(regs=o["regs"], dagger=o["dagger"], **o["ex"]) for o in spec["ops"]]))
    pending.append(("gu", gc.strip_ex(spec), obs))


def corr_passive(ctx, spec, reqs, pending):
    obs = oracle_passive(ctx, spec)
    ctx.count("passive:exact", gc.strip_ex(spec), nontrivial(spec), sample=dict(spec=gc.strip_ex(spec)))
    if obs is None:
        return
    prog, _ = gc.build(spec)
    registers = [r.ind for r in prog.register]
    reqs.append(dict(op="gc.passive", registers=registers,
                     cmds=[dict(regs=o["regs"], dagger=o["dagger"], **o["ex"]) for o in spec["ops"]]))
    pending.append(("passive", gc.strip_ex(spec), obs))


def corr_functions(ctx, rng, reqs, pending):
    """the anchored helper functions on integer matrices (exact)"""
    from strawberryfields.compilers import gaussian_unitary as gu
    from strawberryfields.compilers import passive as pv
    from thewalrus.symplectic import expand
    M = rng.randint(2, 5)
    S0 = np.array([[rng.randint(-3, 3) for _ in range(2 * M)] for _ in range(2 * M)], dtype=float)
    r0 = np.array([rng.randint(-3, 3) for _ in range(2 * M)], dtype=float)
    ints = lambda A: [[[int(x), 1] for x in row] for row in A]
    base = [dict(regs=list(range(M)), dagger=False, op="blkN", g=ints(S0))] + \
        [dict(regs=[m], dagger=False, op="disp", dx=[int(r0[m]), 1], dp=[int(r0[m + M]), 1]) for m in range(M)]
    # one-mode
    i = rng.randrange(M)
    G = np.array([[rng.randint(-3, 3) for _ in range(2)] for _ in range(2)], dtype=float)
    S, r = gu._apply_symp_one_mode_gate(G, S0.copy(), r0.copy(), i)
    reqs.append(dict(op="gc.gu", registers=list(range(M)), cmds=base + [dict(regs=[i], dagger=False, op="blk1", g=ints(G), gi=ints(G))]))
    pending.append(("fn", dict(fn="_apply_symp_one_mode_gate", M=M, i=i), (S.tolist(), r.tolist())))
    # two-mode, ordered pair
    i, j = rng.sample(range(M), 2)
    G = np.array([[rng.randint(-3, 3) for _ in range(4)] for _ in range(4)], dtype=float)
    S, r = gu._apply_symp_two_mode_gate(G, S0.copy(), r0.copy(), i, j)
    reqs.append(dict(op="gc.gu", registers=list(range(M)), cmds=base + [dict(regs=[i, j], dagger=False, op="blk2", g=ints(G), gi=ints(G))]))
    pending.append(("fn", dict(fn="_apply_symp_two_mode_gate", M=M, i=i, j=j), (S.tolist(), r.tolist())))
    # expand (hypothesis validation of the third-party embedding)
    k = rng.randint(2, min(M, 3))
    w = rng.sample(range(M), k)
    G = np.array([[rng.randint(-4, 4) for _ in range(2 * k)] for _ in range(2 * k)], dtype=float)
    reqs.append(dict(op="gc.expand", g=ints(G), w=w, N=M))
    pending.append(("expand", dict(fn="thewalrus.expand", w=w, N=M), expand(G, w, M).tolist()))
    # passive helpers: complex integer matrices
    T0 = np.array([[complex(rng.randint(-3, 3), rng.randint(-3, 3)) for _ in range(M)] for _ in range(M)])
    cints = lambda A: [[[[int(z.real), 1], [int(z.imag), 1]] for z in row] for row in A]
    pbase = [dict(regs=list(range(M)), dagger=False, op="many", g=cints(T0))]
    g1 = complex(rng.randint(-3, 3), rng.randint(-3, 3))
    i = rng.randrange(M)
    T = pv._apply_one_mode_gate(g1, T0.copy(), i)
    reqs.append(dict(op="gc.passive", registers=list(range(M)),
                     cmds=pbase + [dict(regs=[i], dagger=False, op="one", g=[[int(g1.real), 1], [int(g1.imag), 1]], gi=[[0, 1], [0, 1]])]))
    pending.append(("pfn", dict(fn="_apply_one_mode_gate", M=M, i=i), T))
    i, j = rng.sample(range(M), 2)
    G2 = np.array([[complex(rng.randint(-3, 3), rng.randint(-3, 3)) for _ in range(2)] for _ in range(2)])
    T = pv._apply_two_mode_gate(G2, T0.copy(), i, j)
    reqs.append(dict(op="gc.passive", registers=list(range(M)), cmds=pbase + [dict(regs=[i, j], dagger=False, op="two", g=cints(G2), gi=cints(G2))]))
    pending.append(("pfn", dict(fn="_apply_two_mode_gate", M=M, i=i, j=j), T))


def compare(ctx, reqs, pending):
    if not ctx.proof_ok or not reqs:
        return
    for (kind, case, obs), model in zip(pending, ctx.lean(reqs)):
        ctx.corr_cases += 1
        if isinstance(model, dict) and "__error__" in model:
            ctx.disagree(f"GaussCompile.{kind}", case, model, "model error")
            continue
        if kind == "gu":
            regs, S, disp = obs
            n = model["n"]
            Sm = np.array([[fr(x) for x in row] for row in model["S"]]).reshape(2 * n, 2 * n)
            rm = np.array([fr(x) for x in model["r"]])
            dev = maxabs(Sm - np.eye(2 * n))
            bad = None
            if S is not None:
                if regs != model["regs"]:
                    bad = ("regs", model["regs"], regs)
                elif S.shape != Sm.shape or maxabs(S - Sm) > TOL * max(1.0, maxabs(Sm)):
                    bad = ("S", Sm.tolist(), S.tolist())
                elif not model["hasGT"]:
                    bad = ("hasGT", False, True)
            elif dev > 2e-5:
                bad = ("hasGT", model["hasGT"], False)
            if bad is None:
                for i, m in enumerate(model["regs"]):
                    dx, dp = disp.get(m, (0.0, 0.0))
                    lim = 4e-8 if m not in disp else TOL * max(1.0, maxabs(rm))
                    if max(abs(dx - rm[i]), abs(dp - rm[i + n])) > lim:
                        bad = ("r", rm.tolist(), disp)
                emitted = sorted(e[0] for e in model["dgates"])
                sure = sorted(m for i, m in enumerate(model["regs"]) if math.hypot(rm[i], rm[i + n]) > 1e-6)
                if not set(sure) <= set(disp) or not set(disp) <= set(emitted):
                    bad = ("dgates", emitted, sorted(disp))
            if bad:
                ctx.disagree(f"GaussCompile.compileGU vs GaussianUnitary.compile [{bad[0]}]", case, bad[1], bad[2])
        elif kind == "passive":
            regs, T = obs
            n = model["n"]
            Tm = np.array([[complex(fr(z[0]), fr(z[1])) for z in row] for row in model["T"]]).reshape(n, n)
            if regs != model["regs"]:
                ctx.disagree("GaussCompile.compileP vs Passive.compile [regs]", case, model["regs"], regs)
            elif T.shape != Tm.shape or maxabs(T - Tm) > TOL * max(1.0, maxabs(Tm)):
                ctx.disagree("GaussCompile.compileP vs Passive.compile [T]", case, Tm.tolist(), T.tolist())
        elif kind == "fn":
            S, r = obs
            Sm = [[fr(x) for x in row] for row in model["S"]]
            rm = [fr(x) for x in model["r"]]
            if Sm != S or rm != r:
                ctx.disagree(f"GaussCompile.applyOne/applyTwo vs {case['fn']}", case, [Sm, rm], [S, r])
        elif kind == "expand":
            Em = [[fr(x) for x in row] for row in model]
            if Em != obs:
                ctx.disagree("GaussCompile.embedRows/xpRows vs thewalrus.symplectic.expand", case, Em, obs)
        elif kind == "pfn":
            Tm = np.array([[complex(fr(z[0]), fr(z[1])) for z in row] for row in model["T"]])
            if Tm.shape != obs.shape or maxabs(Tm - obs) != 0:
                ctx.disagree(f"GaussCompile.mix1/mix2 vs {case['fn']}", case, Tm.tolist(), obs.tolist())
        elif kind == "surgery":
            m = sorted({(a, b) for a, b in model})
            if m != [tuple(x) for x in obs]:
                ctx.disagree("GaussCompile.surgeryEdges vs new_DAG of merge_a_gaussian_op", case,
                             dict(only_model=sorted(set(m) - set(obs)), only_real=sorted(set(obs) - set(m))), "edge sets differ")
        elif kind == "merge-step":
            if model is not True:
                ctx.disagree("GaussCompile.checkMerge vs python twin on a gaussian_merge step", case, model, True)
        elif kind == "merge-step-bad":
            if model is not False:
                ctx.disagree("GaussCompile.checkMerge vs python twin on a rejected gaussian_merge step", case, model, False)


# ---------------------------------------------------------------------------------------------------------------
# float circuits incl. decomposable operations
# ---------------------------------------------------------------------------------------------------------------

def rand_float_op(rng, ms, which):
    if which == "gu":
        one = ["Dgate", "Rgate", "Sgate", "Pgate", "Xgate", "Zgate", "Fouriergate"]
        two = ["BSgate", "S2gate", "MZgate", "sMZgate", "CXgate", "CZgate"]
    else:
        one = ["Rgate", "LossChannel"]
        two = ["BSgate", "MZgate", "sMZgate"]
    if len(ms) >= 2 and rng.random() < 0.5:
        cls, regs = rng.choice(two), rng.sample(ms, 2)
    else:
        cls, regs = rng.choice(one), [rng.choice(ms)]
    ang = lambda: sim.angle(rng)
    pars = {"Dgate": lambda: [round(rng.uniform(0, 1), 3), ang()], "Rgate": lambda: [ang()],
            "Sgate": lambda: [round(rng.uniform(-0.8, 0.8), 3), ang()], "Pgate": lambda: [round(rng.uniform(-0.8, 0.8), 3)],
            "Xgate": lambda: [round(rng.uniform(-1, 1), 3)], "Zgate": lambda: [round(rng.uniform(-1, 1), 3)],
            "Fouriergate": lambda: [], "BSgate": lambda: [ang(), ang()],
            "S2gate": lambda: [round(rng.uniform(-0.6, 0.6), 3), ang()], "MZgate": lambda: [ang(), ang()],
            "sMZgate": lambda: [ang(), ang()], "CXgate": lambda: [round(rng.uniform(-0.8, 0.8), 3)],
            "CZgate": lambda: [round(rng.uniform(-0.8, 0.8), 3)],
            "LossChannel": lambda: [rng.choice([0.0, 0.3, 0.5, 0.81, 1.0])]}[cls]()
    return dict(cls=cls, regs=regs, pars=pars, dagger=(cls != "LossChannel" and rng.random() < 0.35))


def repeat_some(rng, ops, ms):
    """re-apply earlier operations (same class, parameters and dagger flag -> the SAME Operation instance through
    OP_CACHE) to other registers: `bs = BSgate(..)` created once and used several times"""
    out = list(ops)
    for o in list(ops):
        if o["cls"] in ("Del", "New") or len(o["regs"]) > len(ms) or rng.random() > 0.25:
            continue
        c = {k: (copy.deepcopy(v) if k != "regs" else rng.sample(ms, len(o["regs"]))) for k, v in o.items()}
        out.insert(rng.randint(0, len(out)), c)
    return out


def rand_embed_op(rng, ms):
    """GraphEmbed / BipartiteGraphEmbed / Gaussian (decomposable; Gaussian decomposes into preparations -> CircuitError)"""
    u = rng.random()
    if u < 0.45 and len(ms) >= 2:
        k = rng.randint(2, min(3, len(ms)))
        while True:     # graph_embed rejects (ValueError) matrices with tiny singular values: not a compile matter
            A = np.array([[round(rng.uniform(-1, 1), 2) for _ in range(k)] for _ in range(k)])
            A = ((A + A.T) / 2).round(3)
            if np.linalg.svd(A, compute_uv=False).min() > 0.05:
                break
        return dict(cls="GraphEmbed", regs=rng.sample(ms, k), pars=[dict(rmat=A.tolist())],
                    kw=dict(mean_photon_per_mode=rng.choice([0.2, 0.5, 1.0])), dagger=False)
    if u < 0.85 and len(ms) >= 2:
        k = 1 if len(ms) < 4 else rng.randint(1, 2)
        while True:
            B = [[round(rng.uniform(-1, 1), 2) for _ in range(k)] for _ in range(k)]
            if np.linalg.svd(np.array(B), compute_uv=False).min() > 0.05:
                break
        return dict(cls="BipartiteGraphEmbed", regs=rng.sample(ms, 2 * k), pars=[dict(rmat=B)],
                    kw=dict(mean_photon_per_mode=rng.choice([0.2, 0.5]), edges=True), dagger=False)
    k = 1
    V = [[rng.choice([1.0, 2.0, 0.5]), 0.0], [0.0, rng.choice([1.0, 2.0])]]
    return dict(cls="Gaussian", regs=rng.sample(ms, k), pars=[dict(rmat=V)], dagger=False)


def rand_float_circuit(rng, which, big=False):
    n, ms = gc.rand_modes(rng, big)
    ops = [rand_float_op(rng, ms, which) for _ in range(rng.randint(1, 10))]
    ops = repeat_some(rng, ops, ms)
    if which == "gu" and rng.random() < 0.2:
        ops.insert(rng.randint(0, len(ops)), rand_embed_op(rng, ms))
    if rng.random() < 0.05:     # deleting a mode cannot be expressed by one transformation: must be rejected
        ops.append(dict(cls="Del", regs=[rng.choice(ms)], pars=[], dagger=False))
    return dict(n=n, ops=ops)


# ---------------------------------------------------------------------------------------------------------------
# gaussian_merge
# ---------------------------------------------------------------------------------------------------------------

GAUSSIAN = ["Dgate", "BSgate", "S2gate", "Sgate", "GaussianTransform", "Rgate", "Interferometer", "MZgate", "sMZgate"]


def rand_hybrid(rng, small=False):
    if small or rng.random() < 0.6:
        n = rng.randint(1, 3) if small else rng.randint(1, 5)
        ms = list(range(n))
    else:                       # non-contiguous / multi-digit index sets in a larger register
        n, ms = gc.rand_modes(rng)
        ms = ms[:5]
    ops = []
    measured = set()
    amp = 0.25 if small else 0.6

    def one(free):
        u = rng.random()
        if u < 0.55:
            op = rand_float_op(rng, free, "gu")
            if op["cls"] in ("Sgate", "S2gate", "Pgate", "CXgate", "CZgate", "Dgate", "Xgate", "Zgate"):
                op["pars"][0] = round(op["pars"][0] * amp / 0.8, 3)
        elif u < 0.75:
            op = dict(cls=rng.choice(["Kgate", "Vgate"]), regs=[rng.choice(free)], dagger=rng.random() < 0.2)
            op["pars"] = [round(rng.uniform(-0.3, 0.3), 3)] if op["cls"] == "Kgate" else [round(rng.uniform(-0.04, 0.04), 3)]
        elif u < 0.9 and len(free) >= 2:
            op = dict(cls="CKgate", regs=rng.sample(free, 2), pars=[round(rng.uniform(-0.3, 0.3), 3)], dagger=False)
        elif not small:
            k = rng.randint(1, min(2, len(free)))
            regs = rng.sample(free, k)
            if k == 1 and rng.random() < 0.5:
                op = dict(cls="MeasureHomodyne", regs=regs, pars=[0.0], dagger=False)
            else:
                op = dict(cls="MeasureFock", regs=regs, pars=[], dagger=False)
            measured.update(regs)
        else:
            op = dict(cls="Kgate", regs=[rng.choice(free)], pars=[0.1], dagger=False)
        return op
    for _ in range(rng.randint(2, 7 if small else 10)):
        free = [m for m in ms if m not in measured]
        if not free:
            break
        ops.append(one(free))
    if not small:
        free = [m for m in ms if m not in measured]
        if free and rng.random() < 0.3:
            ops = repeat_some(rng, ops, free) if not measured else ops
        if len(free) >= 2 and rng.random() < 0.12:
            ops.insert(rng.randint(0, len(ops)) if not measured else 0, rand_embed_op(rng, free))
        # holes in the register: delete a mode after its last use, create modes later and use them
        if free and rng.random() < 0.3:
            d = rng.choice(free)
            last = max([i for i, o in enumerate(ops) if d in o["regs"]], default=-1)
            t = rng.randint(last + 1, len(ops))
            ops.insert(t, dict(cls="Del", regs=[d], pars=[], dagger=False))
            free = [m for m in free if m != d]
            if rng.random() < 0.6:
                k = rng.randint(1, 2)
                new = list(range(n, n + k))
                t2 = rng.randint(t + 1, len(ops))
                tail = [dict(cls="New", regs=new, pars=[], dagger=False)]
                for _ in range(rng.randint(1, 4)):
                    tail.append(one(new + free))
                ops = ops[:t2] + tail + ops[t2:] if not measured else ops + tail
    return dict(n=n, ops=ops)


NEG_OK = {"Rgate": 1, "Sgate": 2, "Dgate": 2, "Xgate": 1, "Zgate": 1, "Pgate": 1, "BSgate": 2, "S2gate": 2, "CXgate": 1, "CZgate": 1}


def cancelling_block(rng, free, displaced=False):
    """Gaussian commands (>= 2) that compose exactly to the identity: G(a); G(-a) / G; G.H (one shared instance and
    its .H) / Fourier pairs / nested G1; G2; G2.H; G1.H, on one or two modes of `free`"""
    def gate():
        while True:
            o = rand_float_op(rng, free, "gu")
            o["dagger"] = False
            if o["cls"] in ("Sgate", "S2gate", "Pgate", "CXgate", "CZgate", "Dgate", "Xgate", "Zgate"):
                o["pars"][0] = round(o["pars"][0] * 0.3, 3)
            if o["cls"] == "Fouriergate" or abs(o["pars"][0]) > 1e-3:
                return o
    g = gate()
    inv = lambda o: dict(copy.deepcopy(o), dagger=not o["dagger"])
    u = rng.random()
    if displaced:
        # the symplectic part cancels, displacements remain (on every mode of the block, or on some of them):
        # G; D..; G.H  /  G1; G2; D..; G2.H; G1.H  -- GaussianUnitary then returns Dgates only
        while g["cls"] in ("Dgate", "Xgate", "Zgate"):
            g = gate()
        modes = sorted({m for m in g["regs"]} | (set(free) if rng.random() < 0.5 else set()))
        keep = [m for m in modes if rng.random() < 0.85] or modes[:1]
        rng.shuffle(keep)
        ds = [dict(cls=rng.choice(["Dgate", "Dgate", "Xgate", "Zgate"]), regs=[m], pars=None, dagger=rng.random() < 0.2) for m in keep]
        for d in ds:
            d["pars"] = [round(rng.uniform(0.1, 0.4), 3), sim.angle(rng)] if d["cls"] == "Dgate" else [round(rng.uniform(0.1, 0.5) * rng.choice([-1, 1]), 3)]
        if u < 0.75:
            return [g] + ds + [inv(g)]
        g2 = gate()
        while g2["cls"] in ("Dgate", "Xgate", "Zgate"):
            g2 = gate()
        return [g, g2] + ds + [inv(g2), inv(g)]
    if u < 0.35 and g["cls"] in NEG_OK:
        h = copy.deepcopy(g)
        h["pars"][0] = -h["pars"][0]
        return [g, h]
    if u < 0.8:
        return [g, inv(g)] if rng.random() < 0.7 else [inv(g), g]
    g2 = gate()
    return [g, g2, inv(g2), inv(g)]


def rand_cancelling_hybrid(rng, small=False):
    """a cancelling Gaussian block between two non-commuting non-Gaussian operations on a shared mode, the one
    before it with more ancestors (two-mode non-Gaussian gate fed by other operations), plus random surroundings"""
    if small or rng.random() < 0.7:
        n = rng.randint(2, 3) if small else rng.randint(2, 5)
        ms = list(range(n))
    else:
        n, ms = gc.rand_modes(rng)
        ms = ms[:4]
        if len(ms) < 2:
            ms = [ms[0], ms[0] + 1]
            n = max(n, ms[1] + 1)
    amp = 0.25 if small else 0.6
    ng1 = lambda m: dict(cls="Vgate", regs=[m], pars=[round(rng.choice([-1, 1]) * rng.uniform(0.03, 0.08), 3)], dagger=False) \
        if rng.random() < 0.7 else dict(cls="Kgate", regs=[m], pars=[round(rng.uniform(-0.3, 0.3), 3)], dagger=False)
    ops = []
    b = rng.choice(ms)
    others = [m for m in ms if m != b]
    for _ in range(rng.randint(0, 3)):          # history of the other modes (ancestors of the gate before the block)
        o = rand_float_op(rng, ms, "gu") if rng.random() < 0.6 else ng1(rng.choice(ms))
        if o["cls"] in ("Sgate", "S2gate", "Pgate", "CXgate", "CZgate", "Dgate", "Xgate", "Zgate"):
            o["pars"][0] = round(o["pars"][0] * amp / 0.8, 3)
        ops.append(o)
    a = rng.choice(others)
    if rng.random() < 0.8:
        ops.append(ng1(a))
    if rng.random() < 0.75:
        ops.append(dict(cls="CKgate", regs=rng.choice([[a, b], [b, a]]), pars=[round(rng.uniform(0.2, 0.7), 3)], dagger=False))
    else:
        ops.append(ng1(b))
    displaced = rng.random() < 0.5
    bm = [b] + ([rng.choice(others)] if rng.random() < (0.75 if displaced else 0.5) else [])
    if displaced:
        # unmerged operations, themselves with predecessors, on the other mode(s) of the block as well
        for c in bm[1:]:
            if rng.random() < 0.8:
                ops.append(dict(cls="Sgate", regs=[c], pars=[round(rng.uniform(0.1, 0.3), 3), sim.angle(rng)], dagger=False))
                ops.append(ng1(c))
    block = cancelling_block(rng, bm, displaced)
    if not any(b in o["regs"] for o in block):
        block = cancelling_block(rng, [b], displaced)
    for o in block:
        ops.append(o)
        if rng.random() < 0.15:                  # an independent command written in between
            m = [x for x in others if all(x not in y["regs"] for y in block)]
            if m:
                ops.append(ng1(rng.choice(m)))
    ops.append(dict(cls="Vgate", regs=[b], pars=[round(rng.choice([-1, 1]) * rng.uniform(0.03, 0.08), 3)], dagger=False)
               if rng.random() < 0.7 else
               dict(cls="CKgate", regs=[b, rng.choice(others)], pars=[round(rng.uniform(0.2, 0.7), 3)], dagger=False))
    for _ in range(rng.randint(0, 2)):
        ops.append(rand_float_op(rng, ms, "gu") if rng.random() < 0.5 else ng1(rng.choice(ms)))
        if ops[-1]["cls"] in ("Sgate", "S2gate", "Pgate", "CXgate", "CZgate", "Dgate", "Xgate", "Zgate"):
            ops[-1]["pars"][0] = round(ops[-1]["pars"][0] * amp / 0.8, 3)
    return dict(n=n, ops=ops)


def wires_respected(before, after_groups, wires):
    """independent statement: `after_groups` (list of lists of ids) flattened is a permutation of `before` (ids) in
    which any two commands sharing a wire keep their order"""
    flat = [c for g in after_groups for c in g]
    if sorted(flat) != sorted(before):
        return "not the same commands"
    pos = {c: i for i, c in enumerate(flat)}
    for x, y in itertools.combinations(before, 2):
        if wires[x] & wires[y] and pos[x] > pos[y]:
            return f"commands {x} and {y} share a mode but were swapped"
    return None


def block_affine(ops_list, modes):
    """(S, d) of a list of Gaussian spec-like ops on the ascending list `modes`"""
    return gc.net_reference(ops_list, modes)


def check_merge(ctx, spec, reqs, pending, fock=False):
    """run gaussian_merge through Program.compile with a recording compiler; validate every merge step"""
    import strawberryfields as sf  # noqa: F401
    from strawberryfields.compilers import gaussian_merge as gm
    from strawberryfields.compilers.gaussian_unitary import GaussianUnitary
    rp = dict(kind="merge", spec=spec, fock=fock)
    ctx.oracle_cases += 1
    steps, calls = [], []

    class RecGU(GaussianUnitary):
        def compile(self, seq, registers):
            out = super().compile(seq, registers)
            calls.append((list(seq), list(out)))
            return out

    class NoTermination(Exception):
        pass

    class RecMerge(gm.GaussianMerge):
        def merge_a_gaussian_op(self, registers):
            before = list(self.curr_seq)
            if len(steps) > 30 * (len(before) + 5):      # every merge removes >= 1 command: far beyond any terminating run
                raise NoTermination()
            n0 = len(calls)
            r = super().merge_a_gaussian_op(registers)
            dag = getattr(self, "new_DAG", None) if r else None
            steps.append((before, list(self.curr_seq), bool(r), calls[n0:],
                          None if dag is None else (list(dag.nodes), list(dag.edges))))
            return r

    prog, cmds = gc.build(spec, op_cache=OP_CACHE)
    snap = gc.snapshot(prog)
    orig = gm.GaussianUnitary
    gm.GaussianUnitary = RecGU
    try:
        comp = prog.compile(compiler=RecMerge(), warn_connected=False)
    except circuit_error():
        ctx.tally("gaussian_merge:CircuitError")
        source_untouched(ctx, snap, prog, "gaussian_merge", rp)
        return
    except NoTermination:
        last = steps[-1]
        ctx.fail("merge:does-not-terminate",
                 f"compile(compiler='gaussian_merge') keeps merging without end: {len(steps)} merge steps on a circuit of "
                 f"{len(steps[0][0])} commands; the last step turned {[str(c)[:40] for c in last[0]][:8]} into {[str(c)[:40] for c in last[1]][:8]}", rp)
        return
    except Exception as e:  # noqa: BLE001
        ctx.fail(f"merge:raises:{type(e).__name__}",
                 f"compile(compiler='gaussian_merge') raised {type(e).__name__}: {str(e)[:80]} (neither a compiled program nor a CircuitError)", rp)
        return
    finally:
        gm.GaussianUnitary = orig
    out = list(comp.circuit)
    if not source_untouched(ctx, snap, prog, "gaussian_merge", rp):
        return
    if ctx.rng.random() < 0.4:      # the compiler looked up by name, a second time, after other programs were compiled
        try:
            again = gc.circuit_signature(list(prog.compile(compiler="gaussian_merge", warn_connected=False).circuit))
        except Exception as e:  # noqa: BLE001
            ctx.fail(f"merge:second-compile-raises:{type(e).__name__}", f"a repeated gaussian_merge compile raised {type(e).__name__}: {str(e)[:80]}", rp)
            return
        ctx.tally("gaussian_merge:compiled-twice")
        if again != gc.circuit_signature(out):
            ctx.fail("merge:second-compile-differs", "compiling the same program twice with 'gaussian_merge' gives different circuits", rp)
            return
    nt = any(s[2] for s in steps) and any(c.op.__class__.__name__ not in GAUSSIAN for c in out)
    ctx.count("merge:hybrid", spec, nt, sample=dict(spec=spec, out=[str(c) for c in out][:8]))
    # ids of command objects (kept alive in `keep`)
    ids, keep = {}, []

    def cid(c):
        if id(c) not in ids:
            ids[id(c)] = len(keep)
            keep.append(c)
        return ids[id(c)]
    if steps and [cid(c) for c in steps[-1][1]] != [cid(c) for c in out]:
        ctx.fail("merge:result-not-last-step", "compiled circuit is not the command list after the last merge step", rp)
        return
    ok = True
    for before, after, merged, cl, dag in steps:
        if not merged:
            if [cid(c) for c in before] != [cid(c) for c in after]:
                ctx.fail("merge:changed-without-merge", "a step that reports no merge changed the circuit", rp)
                ok = False
            continue
        if not cl:
            ctx.disagree("gaussian_merge step / GaussianUnitary.compile calls", spec, ">= 1 call per merge", len(cl))
            return
        members, emitted = cl[-1]      # earlier calls belong to candidate merges that were skipped
        if not emitted:
            ctx.tally("merge:cancelled-block-steps")
        elif len(emitted) >= 2 and all(c.op.__class__.__name__ == "Dgate" for c in emitted):
            ctx.tally("merge:displacements-only-steps(>=2 modes)")
        b_ids, a_ids = [cid(c) for c in before], [cid(c) for c in after]
        m_ids = [i for i in b_ids if i in {cid(c) for c in members}]
        e_ids = [i for i in a_ids if i in {cid(c) for c in emitted}]
        wires = {cid(c): set(r.ind for r in c.reg) | set(r.ind for r in c.get_dependencies() if hasattr(r, "ind")) for c in before + after}
        why = None
        if sorted(e_ids) != sorted(cid(c) for c in emitted) or len(set(m_ids)) != len(members):
            why = "emitted block commands missing from the circuit (or members not in it)"
        kept_b = [i for i in b_ids if i not in m_ids]
        kept_a = [i for i in a_ids if i not in e_ids]
        if why is None and sorted(kept_b) != sorted(kept_a):
            why = "commands outside the merged block were lost or duplicated"
        segs = []
        if why is None:
            # canonical intermediate order: the output order with the block collected at its first emitted command
            # (a block that emitted nothing - its members cancel - may sit at any position)
            def layout(pos):
                sg, src_groups, out_groups = [], [], []
                first = True
                for k, i in enumerate(a_ids + [None]):
                    if (pos is not None and k == pos) or (i is not None and i in e_ids and first):
                        sg.append(dict(block=0)); src_groups.append(m_ids); out_groups.append(e_ids)
                        first = False
                    if i is not None and i not in e_ids:
                        sg.append(dict(keep=i)); src_groups.append([i]); out_groups.append([i])
                return sg, src_groups, out_groups
            w1 = w2 = None
            for pos in ([None] if e_ids else range(len(a_ids) + 1)):
                segs, src_groups, out_groups = layout(pos)
                w1 = wires_respected(b_ids, src_groups, wires)
                w2 = wires_respected([c for g in out_groups for c in g], [[i] for i in a_ids], wires)
                if not w1 and not w2:
                    break
            if w1:
                why = "making the merged commands adjacent is not a legal reordering of the circuit: " + w1
            elif w2:
                why = "emitted block is interleaved with a command it does not commute with: " + w2
        if why is None and dag is not None and len(dag[0]) == len(after):
            # the order must not be left to the topological sort: commands sharing a mode have to be connected
            import networkx as nx
            G = nx.DiGraph()
            G.add_nodes_from(cid(c) for c in dag[0])
            G.add_edges_from((cid(a), cid(b)) for a, b in dag[1])
            reach = {v: nx.descendants(G, v) for v in G.nodes}
            for x, y in itertools.combinations(a_ids, 2):
                if wires[x] & wires[y] and y not in reach.get(x, ()) and x not in reach.get(y, ()):
                    segs = []
                    why = (f"interleaved: the graph after the merge does not order {keep[x]} and {keep[y]} although they share a mode "
                           "(their order is left to the topological sort)")
                    break
            ctx.tally("merge:dag-checked")
        if why is None:
            # numeric meaning of the block
            mops = [gc.cmd_to_op(keep[i]) for i in m_ids]
            eops = [gc.cmd_to_op(keep[i]) for i in e_ids]
            modes = sorted({m for o in mops for m in o["regs"]})
            if not {m for o in eops for m in o["regs"]} <= set(modes):
                why = "emitted block acts on a mode none of its members uses"
            else:
                a, b = block_affine(mops, modes), block_affine(eops, modes)
                if a is None or b is None:
                    why = "block contains a command that is not a Gaussian unitary"
                else:
                    dS, dd = maxabs(a[0] - b[0]), maxabs(a[1] - b[1])
                    if dS > 1e-8 * max(1.0, maxabs(a[0])) + 2e-5 * (not any(o["cls"] == "GaussianTransform" for o in eops)) or dd > 5e-8:
                        why = f"emitted block differs from the ordered product of its members (matrix {dS:.3g}, displacement {dd:.3g})"
        lean_cmds = lambda l: [dict(id=i, cls=keep[i].op.__class__.__name__, regs=[r.ind for r in keep[i].reg],
                                    deps=sorted(wires[i] - set(r.ind for r in keep[i].reg))) for i in l]
        if why is not None:
            kind = ("order" if "legal reordering" in why or "interleaved" in why else "block" if "block" in why else "commands")
            ctx.fail(f"merge:step:{kind}", f"gaussian_merge: {why}", rp)
            ok = False
            if segs and kind == "order":
                reqs.append(dict(op="gc.checkMerge", src=lean_cmds(b_ids), out=lean_cmds(a_ids),
                                 blocks=[dict(members=m_ids, emitted=e_ids)], segs=segs))
                pending.append(("merge-step-bad", spec, None))
            break
        reqs.append(dict(op="gc.checkMerge", src=lean_cmds(b_ids), out=lean_cmds(a_ids),
                         blocks=[dict(members=m_ids, emitted=e_ids)], segs=segs))
        pending.append(("merge-step", spec, None))
        ctx.tally("merge:steps-certified")
        if dag is not None:
            # the graph after the surgery against the model's edge set (surgeryEdges / surgeryEdgesNil)
            real = sorted({(cid(a), cid(b)) for a, b in dag[1]})
            reqs.append(dict(op="gc.surgery", l=lean_cmds(b_ids), ms=m_ids, emitted=lean_cmds([cid(c) for c in emitted])))
            pending.append(("surgery", dict(spec=spec, members=m_ids, emitted=[cid(c) for c in emitted]), real))
    if ok and fock:
        fock_compare(ctx, spec, prog, comp, rp)


def fock_compare(ctx, spec, prog, comp, rp):
    import strawberryfields as sf
    if any(o["cls"].startswith("Measure") for o in spec["ops"]):
        return

    def dist(D):
        kets = []
        for p in (prog, comp):
            eng = sf.Engine("fock", backend_options=dict(cutoff_dim=D))
            try:
                st = eng.run(p).state
            except Exception as e:  # noqa: BLE001
                ctx.tally(f"merge:fock-run-error:{type(e).__name__}")
                return None
            kets.append((np.asarray(st.ket()), st.trace()))
        ov = np.vdot(kets[1][0], kets[0][0])      # a global phase is not observable
        ph = ov / abs(ov) if abs(ov) > 1e-12 else 1.0
        return maxabs(kets[0][0] - ph * kets[1][0]), min(kets[0][1], kets[1][1])
    r = dist(8)
    if r is None:
        return
    d, tr = r
    ctx.tally("merge:fock-compared")
    if d > 10 * (1 - tr) + 1e-7:
        r2 = dist(14)
        if r2 is None:
            return
        d2, _ = r2
        if d2 > max(1e-6, d / 2):
            ctx.fail("merge:fock-state", f"Fock state of the compiled hybrid circuit differs from the source by {d:.3g} at cutoff 8 and {d2:.3g} at cutoff 14", rp)


# ---------------------------------------------------------------------------------------------------------------

def corpus():
    R = lambda m, t=0.5, dag=False: dict(cls="Rgate", regs=[m], pars=[t], dagger=dag)
    return [
        ("gu", dict(n=9, ops=[dict(cls="Sgate", regs=[8], pars=[0.5, 0.0], dagger=False), dict(cls="Dgate", regs=[1], pars=[0.3, 0.0], dagger=False),
                              dict(cls="BSgate", regs=[8, 1], pars=[0.4, 0.2], dagger=False)])),
        ("gu", dict(n=1, ops=[dict(cls="Sgate", regs=[0], pars=[0.5, 0.0], dagger=True), R(0, 0.3, True),
                              dict(cls="Dgate", regs=[0], pars=[0.3, 0.2], dagger=True)])),
        ("gu", dict(n=2, ops=[dict(cls="Pgate", regs=[1], pars=[0.4], dagger=True), dict(cls="CXgate", regs=[1, 0], pars=[0.3], dagger=True),
                              dict(cls="MZgate", regs=[1, 0], pars=[0.3, 0.7], dagger=True), dict(cls="sMZgate", regs=[0, 1], pars=[0.3, 0.7], dagger=True)])),
        ("passive", dict(n=9, ops=[R(8), dict(cls="BSgate", regs=[8, 1], pars=[0.3, 0.1], dagger=False),
                                   dict(cls="LossChannel", regs=[1], pars=[0.5], dagger=False)])),
        ("passive", dict(n=2, ops=[R(0, 0.5, True), dict(cls="BSgate", regs=[1, 0], pars=[0.3, 0.1], dagger=True),
                                   dict(cls="MZgate", regs=[0, 1], pars=[0.3, 0.9], dagger=True)])),
        ("merge", dict(n=2, ops=[R(0, 0.6), R(0, 0.2), dict(cls="Kgate", regs=[0], pars=[0.4], dagger=False), R(0, 0.1),
                                 dict(cls="Dgate", regs=[0], pars=[0.01, 0.0], dagger=False)])),
    ]


def run_case(ctx, kind, spec, reqs, pending, engine=True, fock=False, via=None):
    if kind == "gu":
        oracle_gu(ctx, spec, run_engine=engine, via=via)
    elif kind == "passive":
        oracle_passive(ctx, spec, run_engine=engine)
    else:
        check_merge(ctx, spec, reqs, pending, fock=fock)


def load_corpus_files():
    import json
    from lib import core
    out = []
    for p in sorted((core.VERIF / "corpus" / "C11").glob("*.json")):
        j = json.loads(p.read_text())
        out.append((j["kind"], j["spec"]))
    return out


def guarded(ctx, kind, spec, fn, *a, **kw):
    """an exception of the code under test inside an oracle becomes a failing input, not a harness crash"""
    try:
        return fn(*a, **kw)
    except Exception as e:  # noqa: BLE001
        import traceback
        where = traceback.extract_tb(e.__traceback__)[-1]
        ctx.fail(f"{kind}:crash:{type(e).__name__}", f"{type(e).__name__}: {str(e)[:100]} at {where.name}:{where.lineno} while checking a {kind} case",
                 dict(kind=kind, spec=gc.strip_ex(spec)))


def exact_circuit(rng, which, big):
    spec = gc.rand_exact_circuit(rng, which, big=big)
    ms = sorted({m for o in spec["ops"] for m in o["regs"]})
    spec["ops"] = repeat_some(rng, spec["ops"], ms)
    return spec


def run(ctx, sf):
    assert abs(sf.hbar - 2) < 1e-12
    rng = ctx.rng
    OP_CACHE.clear(); LAST.clear()
    reqs, pending = [], []
    for kind, spec in corpus() + load_corpus_files():
        guarded(ctx, kind, spec, run_case, ctx, kind, spec, reqs, pending, engine=True, fock=(kind == "merge"))
        ctx.count(f"corpus:{kind}", spec, nontrivial(spec))
    # (a) correspondence on rational-atom circuits
    for k in range(ctx.n(220, 2500)):
        spec = exact_circuit(rng, "gu", k % 9 == 0)
        guarded(ctx, "gu", spec, corr_gu, ctx, spec, reqs, pending)
        spec = exact_circuit(rng, "passive", k % 9 == 4)
        guarded(ctx, "passive", spec, corr_passive, ctx, spec, reqs, pending)
        if k % 4 == 0:
            corr_functions(ctx, rng, reqs, pending)
        if len(reqs) > 600:
            compare(ctx, reqs, pending); reqs, pending = [], []
    # (b) float circuits incl. decomposable operations; engine comparison on a third; every fifth gaussian_unitary
    #     case is compiled with gaussian_merge first (two compilers in sequence)
    for k in range(ctx.n(300, 4000)):
        spec = rand_float_circuit(rng, "gu", big=(k % 11 == 0))
        guarded(ctx, "gu", spec, oracle_gu, ctx, spec, run_engine=(k % 3 == 0), via=("gaussian_merge" if k % 5 == 2 else None))
        ctx.count("gu:float" + (":via-merge" if k % 5 == 2 else ""), spec, nontrivial(spec))
        spec = rand_float_circuit(rng, "passive", big=(k % 11 == 5))
        guarded(ctx, "passive", spec, oracle_passive, ctx, spec, run_engine=(k % 3 == 1))
        ctx.count("passive:float", spec, nontrivial(spec))
    # (c) gaussian_merge: certificate per step on hybrid circuits, Fock comparison on a sample
    for k in range(ctx.n(250, 3000)):
        spec = rand_cancelling_hybrid(rng) if k % 4 == 0 else rand_hybrid(rng)
        guarded(ctx, "merge", spec, check_merge, ctx, spec, reqs, pending)
        if len(reqs) > 600:
            compare(ctx, reqs, pending); reqs, pending = [], []
    for k in range(ctx.n(25, 300)):
        spec = rand_cancelling_hybrid(rng, small=True) if k % 3 == 0 else rand_hybrid(rng, small=True)
        guarded(ctx, "merge", spec, check_merge, ctx, spec, reqs, pending, fock=True)
    compare(ctx, reqs, pending)


def search(ctx, sf):
    run(ctx, sf)


def replay(ctx, rp):
    n0 = len(ctx.failures)
    ctx.proof_ok = False
    OP_CACHE.clear(); LAST.clear()
    if rp.get("then") is not None:      # history-dependence: the other program first
        guarded(ctx, rp["kind"], rp["then"], run_case, ctx, rp["kind"], rp["then"], [], [], engine=False)
    guarded(ctx, rp["kind"], rp["spec"], run_case, ctx, rp["kind"], rp["spec"], [], [], engine=rp.get("engine", True),
            fock=rp.get("fock", False), via=rp.get("via"))
    return len(ctx.failures) > n0
