"""C15 — physical predictions do not depend on the hbar convention.

(a) correspondence: the front-end rescalings of ops.py (Xgate, Zgate, Vgate, Dgate/Coherent, Gaussian, MeasureHomodyne
    select / result, MSgate result) are observed as the *arguments the real operations hand to a recording back end* at
    several hbar values and compared with the Lean model `SFV.Hbar` (`hbar.compile`); the state-object rescalings and
    polynomial observables of `BaseGaussianState` / `BaseBosonicState` (means, cov, displacement, mean_photon,
    quad_expectation, is_coherent / is_squeezed / squeezing inputs, reduced_gaussian) are compared with `hbar.state`
    along random *histories* of method calls.
(b) oracle: one generated circuit, written in hbar = 2 units, is rescaled by the documented units to a second hbar and run
    on the same back end (gaussian, bosonic, fock pure / mixed); samples, ancilla samples and a random history of state
    method calls, normalised with the documented power of sqrt(hbar/2), must agree to 1e-9.
(c) replay of a stored failing input."""
import math
from fractions import Fraction

import numpy as np

from lib import hbar15 as hb
from lib import hbar15corr as hc
from lib import sim

RULE = ("oracle: random programs (1-4 modes; Gaussian gates incl. Xgate/Zgate/Pgate/CXgate/CZgate and daggers, channels, "
        "re-preparations, Gaussian(V, r) with and without decomposition on 1-2 modes in any order, homodyne with and "
        "without select (seeded RNG), heterodyne select, feed-forward of homodyne outcomes into X/Z/R/D/V gates, MSgate "
        "average and single-shot, Cat/GKP/Fock first-op preparations on bosonic, Vgate/Kgate/Fock on fock) run at hbar = 2 "
        "and at one of {1, 0.5, 0.7, 3, 4.5, 0.98} on the same back end, then a random history of 6-14 state-method calls "
        "(repetitions included).  Non-trivial = the program contains an operation whose front-end code reads hbar; "
        "distinct by (program, backend, hbar, plan).  Correspondence: every hbar-reading op class x dagger x zero / non-zero "
        "parameter x hbar in {2, 1, 1/2, 0.7, 3, 4.5, 0.98}; state objects of 1-3 modes with rational data, histories of "
        "3-10 calls.")
ASSUMPTIONS = ["dimensionless results at two hbar values are compared at 1e-9 * scale (same back-end calls up to rounding)",
               "thewalrus routines taking (mu, cov, hbar) depend on them only through (mu / sqrt(hbar/2), cov / (hbar/2)): "
               "validated numerically by the oracle, not proved",
               "Bosonic(weights, means, covs) has no documented units and is not exercised",
               "unselected homodyne / single-shot MSgate are compared with a seeded NumPy RNG (same stream at both hbar)"]
TRUSTED = ["modelled: ops.{Xgate,Zgate}._decompose, ops.{Dgate,Coherent,Vgate,Gaussian,MeasureHomodyne,MSgate}._apply "
           "(+ Gate.apply zero-skip / dagger negation), Gaussian.__init__ covariance normalisation, "
           "BaseGaussianState.{__init__,means,cov,reduced_gaussian,displacement,is_coherent,is_squeezed,squeezing(inputs),"
           "mean_photon,quad_expectation}, BaseBosonicState.{__init__,mean_photon,displacement,quad_expectation} formulas, "
           "utils.states gaussian-basis constructors; oracle only: Fock-basis observables, wigner, thewalrus, bosonic "
           "non-Gaussian preparations"]

TOL = 1e-9
KAPPA_MAX = 1e5     # bosonic states with sum |weights| above this are cancellation dominated: observers skipped


# ---------------------------------------------------------------------------------------------- oracle

def raw_state(st, backend):
    if backend == "gaussian":
        return np.concatenate([np.ravel(st.means()), np.ravel(st.cov())])
    if backend == "bosonic":
        return hb._arr(np.concatenate([np.ravel(st.weights()), np.ravel(st.means()), np.ravel(st.covs())]))
    return hb._arr(np.asarray(st.data))


def collect(sf, spec, backend, h, plan, seed, op_cache=None):
    """run at hbar = h and evaluate the plan as one history on the returned state object; then change the global
    sf.hbar and ask again (a state object answers in the hbar it was generated with)"""
    try:
        res, st = hb.run(sf, spec, backend, h, seed, op_cache)
    except (NotImplementedError,) as e:
        sf.hbar = 2
        return dict(raised="NotImplementedError")
    except Exception as e:  # noqa: BLE001
        sf.hbar = 2
        return dict(raised=type(e).__name__, msg=str(e)[:200])
    try:
        s = hb.s_of(h)
        rerun = None
        if op_cache is not None:
            # the same Operation instances applied again (a second program built from the cache): nothing may have been
            # left behind in them by the first application
            try:
                _, st_b = hb.run(sf, spec, backend, h, seed, op_cache)
                rerun = hb.answers_differ(raw_state(st_b, backend), raw_state(st, backend), 1e-12, True)
            except Exception as e:  # noqa: BLE001
                rerun = "second run raised " + type(e).__name__
        homodyne_modes = {o["regs"][0] for o in spec["ops"] if o["cls"] == "MeasureHomodyne"}
        hetero_modes = {o["regs"][0] for o in spec["ops"] if o["cls"] == "MeasureHeterodyne"}
        samples = {}
        for m, vals in (res.samples_dict or {}).items():
            v = np.array([np.ravel(x)[0] for x in vals])
            if m in homodyne_modes and m in hetero_modes:
                continue     # mixed units on one mode: skip
            samples[int(m)] = hb._arr(v / s if m in homodyne_modes else v)
        anc = {}
        for m, vals in (getattr(res, "ancillae_samples", None) or {}).items():
            anc[int(m)] = hb._arr(np.array([np.ravel(x)[0] for x in vals]) / s)
        first = {}
        if backend == "gaussian":
            first = dict(means=hb.observe(sf, st, dict(m="means"), h), cov=hb.observe(sf, st, dict(m="cov"), h))
        elif backend == "bosonic":
            first = dict(means=hb.observe(sf, st, dict(m="means"), h), cov=hb.observe(sf, st, dict(m="covs"), h),
                         weights=hb.observe(sf, st, dict(m="weights"), h))
        answers = [hb.observe(sf, st, c, h) for c in plan]
        last = {}
        if backend == "gaussian":
            last = dict(means=hb.observe(sf, st, dict(m="means"), h), cov=hb.observe(sf, st, dict(m="cov"), h))
        elif backend == "bosonic":
            last = dict(means=hb.observe(sf, st, dict(m="means"), h), cov=hb.observe(sf, st, dict(m="covs"), h))
        kappa = float(np.sum(np.abs(st.weights()))) if backend == "bosonic" else 1.0
        sf.hbar = 0.7 if h == 2 else 2
        again = [hb.observe(sf, st, c, h) for c in plan]
        return dict(samples=samples, anc=anc, answers=answers, first=first, last=last, kappa=kappa, again=again,
                    rerun=rerun)
    finally:
        sf.hbar = 2


def fresh_answer(sf, spec, backend, h, call, seed):
    try:
        _, st = hb.run(sf, spec, backend, h, seed)
        return hb.observe(sf, st, call, h)
    finally:
        sf.hbar = 2


def check_case(ctx, sf, spec, backend, h, plan, seed, order="2h", share=False):
    """the property itself on the real code.  Returns True if it failed.
    order: the hbar values are used IN ONE PROCESS in the order 2,h / h,2 / h,2,h (caches keyed without hbar, state left
    behind by the previous run); share: equal operations are one shared Operation instance within and across the runs."""
    rp = dict(kind="twohbar", spec=spec, backend=backend, hbar=h, plan=plan, seed=seed, order=order, share=share)
    n0 = len(ctx.failures)
    cache = {} if share else None
    third = None
    if order == "2h":
        ref = collect(sf, spec, backend, 2.0, plan, seed, cache)
        if ref.get("raised") == "NotImplementedError":
            ctx.tally("skipped:not-implemented")
            return False
        out = collect(sf, spec, backend, h, plan, seed, cache)
    else:
        out = collect(sf, spec, backend, h, plan, seed, cache)
        if out.get("raised") == "NotImplementedError":
            ctx.tally("skipped:not-implemented")
            return False
        ref = collect(sf, spec, backend, 2.0, plan, seed, cache)
        if order == "h2h":
            third = collect(sf, spec, backend, h, plan, seed, cache)
    ctx.oracle_cases += 1
    if third is not None:
        same = third.get("raised") == out.get("raised")
        if same and "raised" not in out:
            same = not any(hb.answers_differ(a, b, 1e-12, True) for a, b in zip(third["answers"], out["answers"])) \
                and not any(hb.answers_differ(third["first"][k], out["first"][k], 1e-12) for k in out["first"]) \
                and all(k in third["samples"] and not hb.answers_differ(third["samples"][k], out["samples"][k], 1e-12)
                        for k in out["samples"])
        if not same:
            ctx.fail(f"{backend}:stale-after-hbar-switch", f"{backend}: the same program run at hbar={h}, then at hbar=2, then at "
                     f"hbar={h} again gives different results in the first and third run", rp)
    if "raised" in ref or "raised" in out:
        ctx.tally("raised:" + str(ref.get("raised")))
        if ref.get("raised") != out.get("raised"):
            ctx.fail(f"{backend}:raises-differently",
                     f"{backend} at hbar=2: {ref.get('raised', 'runs')}, at hbar={h}: {out.get('raised', 'runs')} "
                     f"{out.get('msg', '')}{ref.get('msg', '')}", rp)
        return len(ctx.failures) > n0
    for o, hh in ((out, h), (ref, 2.0)):
        if o.get("rerun"):
            ctx.fail(f"{backend}:shared-operations-rerun", f"{backend} hbar={hh}: a second program built from the same Operation "
                     f"instances gives a different state: {o['rerun']}"[:400], rp)
    for key, what in (("samples", "measurement samples"), ("anc", "ancilla samples")):
        a, b = out[key], ref[key]
        if set(a) != set(b):
            ctx.fail(f"{backend}:{key}-modes", f"{what}: measured modes {sorted(a)} vs {sorted(b)} at hbar={h}", rp)
            continue
        for m in sorted(a):
            d = hb.answers_differ(a[m], b[m], TOL)
            if d:
                ctx.fail(f"{backend}:{key}", f"{backend} hbar={h}: {what} of mode {m} / sqrt(hbar/2) differ: {d}", rp)
                break
    for key in ref["first"]:
        if key == "weights" and max(ref.get("kappa", 1.0), out.get("kappa", 1.0)) > KAPPA_MAX:
            continue      # weights of 1e10 after post-selection: products of exponentials, themselves ill-conditioned
        d = hb.answers_differ(out["first"][key], ref["first"][key], 1e-8 if backend == "bosonic" else TOL)
        if d:
            ctx.fail(f"{backend}:state-{key}", f"{backend} hbar={h}: state {key} do not scale with hbar: {d}", rp)
    bad_hist = False
    seen = set()
    kappa = max(ref.get("kappa", 1.0), out.get("kappa", 1.0))
    if kappa > KAPPA_MAX:
        ctx.tally("skipped:ill-conditioned-weights")
        return len(ctx.failures) > n0
    for i, c in enumerate(plan):
        tol = max(hb.METHOD_TOL.get(c["m"], TOL), 1e-12 * (kappa ** 2 if c["m"] == "purity" else kappa))
        if tol > 1e-6:
            continue
        wild = c["m"] in hb.NAN_WILD
        d = hb.answers_differ(out["answers"][i], ref["answers"][i], tol, wild)
        if not d:
            continue
        # classify: wrong on a fresh state object, or only after earlier calls
        fr = fresh_answer(sf, spec, backend, h, c, seed)
        fr2 = fresh_answer(sf, spec, backend, 2.0, c, seed)
        if hb.answers_differ(fr, fr2, tol, wild):
            sig = f"{backend}:{c['m']}"
            if backend == "gaussian" and c["m"] == "parity_expectation" and len(c["modes"]) < spec["n"]:
                sig += ":subset-of-modes"
            if sig not in seen:       # a call that is wrong by itself does not invalidate the later ones: go on
                seen.add(sig)
                ctx.fail(sig, f"{backend} hbar={h}: {c['m']}({ {k: v for k, v in c.items() if k != 'm'} }) "
                         f"depends on hbar: {d}"[:400], rp)
        else:
            bad_hist = True
            prev = [p["m"] for p in plan[:i]]
            ctx.fail(f"{backend}:{c['m']}:after-history", f"{backend} hbar={h}: {c['m']} is right on a fresh state object "
                     f"but wrong after the calls {prev}: {d}"[:400], rp)
            break                     # the state object is corrupted from here on
    for key in ref["last"]:
        d = hb.answers_differ(out["last"][key], out["first"][key], 1e-12)
        if d and not bad_hist:
            ctx.fail(f"{backend}:observer-mutates-{key}", f"{backend} hbar={h}: stored {key} changed after the observer "
                     f"calls {[p['m'] for p in plan]}: {d}"[:400], rp)
    if not bad_hist:
        # BaseState.hbar: "the value of hbar used in the generation of the state" - later changes of sf.hbar are irrelevant
        for which, o, hh in (("hbar", out, h), ("2", ref, 2.0)):
            for i, c in enumerate(plan):
                d = hb.answers_differ(o["again"][i], o["answers"][i], 1e-12, True)
                if d:
                    ctx.fail(f"{backend}:{c['m']}:reads-global-hbar-at-call", f"{backend}: {c['m']} of a state generated at "
                             f"hbar={hh} answers differently after sf.hbar was set to another value: {d}"[:400], rp)
                    break
    return len(ctx.failures) > n0


def utils_states_check(ctx, sf, rng):
    """utils.states gaussian-basis constructors against a run of the corresponding preparation at the same hbar"""
    from strawberryfields.utils import states as us
    h = rng.choice(hb.HBARS)
    r, phi = round(rng.uniform(0.1, 0.6), 2), sim.angle(rng)
    rs, ps = round(rng.uniform(-0.4, 0.4), 2), sim.angle(rng)
    table = [("Vacuum", [], lambda: us.vacuum_state(basis="gaussian", hbar=h)),
             ("Coherent", [r, phi], lambda: us.coherent_state(r, phi, basis="gaussian", hbar=h)),
             ("Squeezed", [rs, ps], lambda: us.squeezed_state(rs, ps, basis="gaussian", hbar=h)),
             ("DisplacedSqueezed", [r, phi, rs, ps], lambda: us.displaced_squeezed_state(r, phi, rs, ps, basis="gaussian", hbar=h))]
    for cls, pars, fn in table:
        spec = dict(n=1, ops=[dict(cls=cls, regs=[0], pars=pars)])
        rp = dict(kind="utils", cls=cls, pars=pars, hbar=h)
        ctx.count("utils:" + cls, rp, True)
        ctx.oracle_cases += 1
        try:
            _, st = hb.run(sf, spec, "gaussian", h)
            mu, V = fn()
        finally:
            sf.hbar = 2
        d = hb.answers_differ(np.concatenate([np.ravel(mu), np.ravel(V)]),
                              np.concatenate([np.ravel(st.means()), np.ravel(st.cov())]), TOL)
        if d:
            ctx.fail(f"utils.states:{cls}", f"utils.states {cls}{pars} at hbar={h} differs from the prepared state: {d}", rp)


def bosonic_prep_units_check(ctx, sf, rng):
    """`Bosonic(weights, means, covs)` documents no units.  Exercise both candidate conventions (data in hbar = 2 units,
    as the back end uses them today / data in units of the current hbar like `Gaussian(V, r)`): one of them has to give
    hbar-independent physics; which one is recorded in the input distribution, not judged."""
    h = rng.choice(hb.HBARS)
    s = hb.s_of(h)
    k = rng.randint(1, 3)
    w = [round(rng.uniform(0.2, 1.0), 2) for _ in range(k)]
    w = [x / sum(w) for x in w]
    mu = [[round(rng.uniform(-1, 1), 2), round(rng.uniform(-1, 1), 2)] for _ in range(k)]
    cov = []
    for _ in range(k):
        a, d, b = 1 + rng.choice([0.0, 0.5, 1.0]), 1 + rng.choice([0.0, 0.5]), rng.choice([0.0, 0.25])
        cov.append([[a, b], [b, d]])
    n = rng.choice([1, 2])
    tail = [dict(cls="Sgate", regs=[0], pars=[0.2, 0.3]), dict(cls=rng.choice(["Xgate", "Zgate"]), regs=[0], pars=[0.4])]
    if n == 2:
        tail.append(dict(cls="BSgate", regs=[0, 1], pars=[0.6, 0.2]))
    plan = [dict(m="means"), dict(m="covs"), dict(m="mean_photon", mode=0), dict(m="fidelity_vacuum"),
            dict(m="quad_expectation", mode=0, phi=0.4), dict(m="wigner", mode=0, x=[0.3, -0.8], p=[0.1, 0.9])]
    seed = 1

    def spec_with(mu_, cov_):
        return dict(n=n, ops=[dict(cls="Bosonic", regs=[0], pars=[w, mu_, cov_])] + tail)
    ref = collect(sf, spec_with(mu, cov), "bosonic", 2.0, plan, seed)
    ctx.oracle_cases += 1
    if "raised" in ref:
        ctx.tally("bosonic-prep-units:raised:" + ref["raised"])
        return
    verdict = []
    for name, sp in (("hbar2-units", spec_with(mu, cov)),
                     ("current-hbar-units", spec_with((np.array(mu) * s).tolist(), (np.array(cov) * s * s).tolist()))):
        out = collect(sf, sp, "bosonic", h, plan, seed)
        ok = "raised" not in out and not any(hb.answers_differ(a, b, 1e-8) for a, b in zip(out["answers"], ref["answers"]))
        if ok:
            verdict.append(name)
    ctx.tally("bosonic-prep-units:" + ("+".join(verdict) or "none"))
    rp = dict(kind="bosonic-prep", w=w, mu=mu, cov=cov, n=n, hbar=h)
    ctx.count("oracle:bosonic-prep-units", rp, True)
    if not verdict:
        ctx.fail("bosonic:Bosonic-prep:no-consistent-units", f"Bosonic(weights, means, covs) at hbar={h}: neither data in hbar=2 "
                 f"units nor data in units of the current hbar reproduces the hbar=2 results", rp)


def thewalrus_hypothesis_check(ctx, sf, rng):
    """hypothesis of `observables_invariant`: the thewalrus routines taking (mu, cov, hbar) depend on them only through
    (mu / sqrt(hbar/2), cov / (hbar/2))"""
    import thewalrus.quantum as twq
    h = rng.choice(hb.HBARS)
    s = hb.s_of(h)
    n = rng.choice([1, 2])
    V, r = hb.rand_cov(rng, n)
    V, r = np.array(V), np.array(r)
    V2, r2 = hb.rand_cov(rng, n)
    V2, r2 = np.array(V2), np.array(r2)
    nn = [rng.choice([0, 1, 2]) for _ in range(n)]
    table = [
        ("probabilities", lambda mu, cov, hh: twq.probabilities(mu, cov, 3, hbar=hh)),
        ("density_matrix_element", lambda mu, cov, hh: twq.density_matrix_element(mu, cov, nn, nn, hbar=hh)),
        ("density_matrix", lambda mu, cov, hh: twq.density_matrix(mu, cov, hbar=hh, normalize=True, cutoff=3)),
        ("photon_number_expectation", lambda mu, cov, hh: twq.photon_number_expectation(mu, cov, list(range(n)), hbar=hh)),
        ("photon_number_squared_expectation",
         lambda mu, cov, hh: twq.photon_number_squared_expectation(mu, cov, list(range(n)), hbar=hh)),
        ("fidelity", lambda mu, cov, hh: twq.fidelity(mu, cov, r2 * math.sqrt(hh / 2), V2 * (hh / 2), hbar=hh)),
    ]
    for name, fn in table:
        ctx.oracle_cases += 1
        ctx.tally("hypothesis:thewalrus:" + name)
        try:
            a = hb._arr(np.asarray(fn(r * s, V * s * s, h)))
            b = hb._arr(np.asarray(fn(r, V, 2.0)))
        except Exception as e:  # noqa: BLE001
            ctx.fail(f"hypothesis:thewalrus:{name}", f"thewalrus.quantum.{name} raised {type(e).__name__}", dict(kind="thewalrus"))
            continue
        d = hb.answers_differ(a, b, 1e-6 if name == "fidelity" else 1e-8)     # fidelity goes through sqrtm
        if d:
            ctx.fail(f"hypothesis:thewalrus:{name}", f"thewalrus.quantum.{name}(mu, cov, hbar={h}) is not a function of the "
                     f"normalised pair: {d}", dict(kind="thewalrus", fn=name, hbar=h, V=V.tolist(), r=r.tolist()))


def oracle(ctx, sf):
    rng = ctx.rng
    plans = dict(gaussian=(8, 16), bosonic=(6, 12))
    budget = [("gaussian", ctx.n(110, 4000)), ("bosonic", ctx.n(66, 2400)), ("fock-pure", ctx.n(28, 1000)),
              ("fock-mixed", ctx.n(22, 800))]
    for backend, count in budget:
        for it in range(count):
            spec = hb.rand_program(rng, backend)
            if backend != "bosonic" and rng.random() < 0.3:
                spec = hb.with_holes(rng, spec)
                ctx.tally("oracle:register-with-holes", int(any(o["cls"] == "Del" for o in spec["ops"])))
            n = hb.final_modes(spec)
            h = hb.HBARS[it % len(hb.HBARS)] if rng.random() < 0.8 else rng.choice(hb.HBARS)
            lo, hi = plans.get(backend, (4, 8))
            plan = hb.rand_plan(rng, backend, n, rng.randint(lo, hi))
            seed = rng.randrange(10 ** 6)
            order = rng.choice(["2h", "2h", "h2", "h2", "h2h"])
            share = rng.random() < 0.5
            ctx.tally(f"oracle:order={order}")
            ctx.tally("oracle:shared-op-instances", int(share))
            nt = hb.is_nontrivial(spec)
            ctx.count(f"oracle:{backend}:n={n}", dict(s=spec, b=backend, h=h, p=plan, o=order, sh=share), nt,
                      sample=dict(spec=spec, backend=backend, hbar=h, plan=plan[:3]))
            for o in spec["ops"]:
                if o["cls"] in ("Xgate", "Zgate", "Vgate", "Gaussian", "MeasureHomodyne", "MSgate"):
                    ctx.tally(f"op:{backend.split('-')[0]}:{o['cls']}")
            check_case(ctx, sf, spec, backend, h, plan, seed, order, share)
    # states near the absolute tolerances of the code, small / large hbar conventions, up to six modes
    for it in range(ctx.n(40, 600)):
        backend = "gaussian" if it % 4 else "bosonic"
        spec, kind = hb.threshold_program(rng, backend)
        n = spec["n"]
        h = hb.EXTREME[it % len(hb.EXTREME)] if rng.random() < 0.85 else rng.choice(hb.HBARS)
        plan = hb.rand_plan(rng, backend, n, rng.randint(6, 10))
        plan.insert(rng.randint(0, len(plan)), dict(m="is_pure") if backend == "gaussian" else dict(m="purity"))
        plan.append(dict(m="mean_photon", mode=rng.randrange(n)))
        seed = rng.randrange(10 ** 6)
        order = rng.choice(["2h", "h2"])
        ctx.tally(f"threshold:{kind}")
        ctx.count(f"oracle:threshold:{backend}:n={n}", dict(s=spec, b=backend, h=h, p=plan), True,
                  sample=dict(spec=spec, backend=backend, hbar=h, kind=kind))
        check_case(ctx, sf, spec, backend, h, plan, seed, order, False)
    for _ in range(ctx.n(3, 30)):
        utils_states_check(ctx, sf, rng)
    for _ in range(ctx.n(6, 60)):
        bosonic_prep_units_check(ctx, sf, rng)
    for _ in range(ctx.n(6, 60)):
        thewalrus_hypothesis_check(ctx, sf, rng)


# ---------------------------------------------------------------------------------------------- correspondence

def correspondence(ctx, sf):
    fcases = hc.frontend_cases(ctx, sf, ctx.n(210, 2100))
    rcases = hc.result_cases(ctx, sf, ctx.n(28, 280))
    scases = hc.state_cases(ctx, sf, ctx.n(210, 2100))
    ucases = []
    from strawberryfields.utils import states as us
    for it in range(ctx.n(14, 140)):
        h = hc.HBARS[it % len(hc.HBARS)]
        r, phi = ctx.rng.randint(0, 8) / 4, math.atan2(*reversed(hc.circle(ctx.rng)))
        a = r * complex(math.cos(phi), math.sin(phi))
        mu, V = us.coherent_state(r, phi, basis="gaussian", hbar=h)
        ucases.append((dict(op="hbar.utils", s=hc.fr(math.sqrt(h / 2)), re=hc.fr(a.real), im=hc.fr(a.imag)),
                       [float(mu[0]), float(mu[1]), float(V[0, 0]), float(V[1, 1]), float(V[0, 1])], dict(hbar=h, r=r, phi=phi)))
    dcases = hc.decomp_cases(ctx, sf, ctx.n(42, 420))
    bcases = hc.bstate_cases(ctx, sf, ctx.n(105, 1050))
    qcases = hc.fockquad_cases(ctx, sf, ctx.n(70, 700))
    pcases = hc.pure_cases(ctx, sf, ctx.n(64, 640))
    panswers = ctx.lean([c[0] for c in pcases])
    for (req, real, case), model in zip(pcases, panswers):
        ctx.corr_cases += 1
        ctx.count(f"corr:purity-decision:{case['site']}:hbar={case['hbar']}", case, case["hbar"] != 2)
        if isinstance(model, dict) and "__error__" in model:
            ctx.disagree("Hbar.pureNormalised vs purity flag", case, str(model)[:200], str(real))
            continue
        ctx.tally("corr:purity-decision:" + ("pure" if real else "mixed"))
        if abs(abs(hc.unfr(model["det"]) - 1) / float(hc.unfr(req["tol"])) - 1) < 0.9:
            ctx.tally("corr:purity-decision:too-close-to-threshold")     # generator promise broken: do not judge
            continue
        if model["normalised"] is not real:
            ctx.disagree("Hbar.pureNormalised vs Gaussian.__init__ / BaseGaussianState.__init__ purity flag", case,
                         str(model)[:200], str(real))
    answers = ctx.lean([c[0] for c in fcases + rcases + scases + ucases + dcases + bcases + qcases])
    k0 = len(fcases) + len(rcases) + len(scases) + len(ucases)
    for j, (req, real, case) in enumerate(dcases):
        model = answers[k0 + j]
        ctx.corr_cases += 1
        ctx.count("corr:decompose-tail", case, case["hbar"] != 2 and any(case["r"]))
        ctx.tally("corr:decompose-tail:gates", len(real))
        if isinstance(model, dict) or not hc.calls_equal(model, real):
            ctx.disagree("Hbar.gaussianDecompDisp vs Gaussian._decompose displacement tail", case, str(model)[:400], str(real)[:400])
    k0 += len(dcases)
    for j, (req, real, case) in enumerate(bcases):
        model = answers[k0 + j]
        ctx.corr_cases += 1
        ctx.count(f"corr:bosonic-state:k={case['k']}", case, case["hbar"] != 2 and case["k"] >= 2)
        d = "model error" if isinstance(model, dict) else hc.banswers_equal(model, real)
        if d:
            ctx.disagree("Hbar.bMeanPhoton/bDisplacement/bQuad/bRedIdx vs BaseBosonicState methods", case, str(d)[:300], str(real)[:300])
    k0 += len(bcases)
    for j, (req, real, case) in enumerate(qcases):
        model = answers[k0 + j]
        ctx.corr_cases += 1
        ctx.count(f"corr:fock-quad:D={case['D']}", case, case["hbar"] != 2)
        ok = not isinstance(model, dict) and abs(hc.unfr(model[0]) - real[0]) <= 1e-9 * max(1, abs(real[0])) \
            and abs(hc.unfr(model[1]) - real[1]) <= 1e-9 * max(1, abs(real[1]))
        if not ok:
            ctx.disagree("Hbar.fockQuad vs BaseFockState.quad_expectation", case, str(model)[:200], str(real)[:200])
    k = 0
    for req, real, case in fcases:
        model = answers[k]; k += 1
        ctx.corr_cases += 1
        nt = any(o["cls"] != "free" for o in case["ops"]) and case["hbar"] != 2
        ctx.count(f"corr:frontend:hbar={case['hbar']}" + (":built-at-other-hbar" if case["hbar_build"] != case["hbar"] else ""),
                  case, nt, sample=case)
        for o in case["ops"]:
            ctx.tally("corr:op:" + o["cls"] + (":dagger" if o.get("dagger") else ""))
        if isinstance(model, dict) or not hc.calls_equal(model, real):
            ctx.disagree("Hbar.compile vs ops.py _apply/_decompose argument trace", case, str(model)[:400], str(real)[:400])
    for req, real, case in rcases:
        model = answers[k]; k += 1
        ctx.corr_cases += 1
        ctx.count("corr:result", case, case["hbar"] != 2)
        ok = (not isinstance(model, dict) or "__error__" not in model) and real["avg"] is None \
            and hc.close(hc.unfr(model["homodyne"]), real["homodyne"]) and hc.close(hc.unfr(model["msgate"]), real["msgate"])
        if not ok:
            ctx.disagree("Hbar.homodyneResult/msgateResult vs MeasureHomodyne/MSgate._apply return value", case,
                         str(model)[:300], str(real)[:300])
    for req, real, case in scases:
        model = answers[k]; k += 1
        ctx.corr_cases += 1
        ctx.count(f"corr:state:n={case['n']}", case, case["hbar"] != 2)
        d = "model error" if isinstance(model, dict) else hc.answers_equal(model, real)
        if d:
            ctx.disagree("Hbar.history step vs BaseGaussianState methods", case, str(d)[:300], str(real)[:300])
    for req, real, case in ucases:
        model = answers[k]; k += 1
        ctx.corr_cases += 1
        ctx.count("corr:utils", case, case["hbar"] != 2)
        ok = not isinstance(model, dict)
        if ok:
            m = [hc.unfr(x) for x in model]
            ok = hc.close(m[0], real[0], 1e-12) and hc.close(m[1], real[1], 1e-12) and hc.close(m[2], real[2], 1e-12) \
                and hc.close(m[2], real[3], 1e-12) and real[4] == 0
        if not ok:
            ctx.disagree("Hbar.utilsCoherent vs utils.states.coherent_state", case, str(model)[:200], str(real)[:200])


# ---------------------------------------------------------------------------------------------- entry points

def run_corpus(ctx, sf):
    import json
    from lib import core
    d = core.VERIF / "corpus" / "C15"
    for f in sorted(d.glob("*.json")) if d.exists() else []:
        rp = json.loads(f.read_text())
        ctx.tally("corpus")
        _replay(ctx, sf, rp)


def _replay(ctx, sf, rp):
    n0 = len(ctx.failures)
    if rp["kind"] == "twohbar":
        check_case(ctx, sf, rp["spec"], rp["backend"], rp["hbar"], rp["plan"], rp.get("seed", 0), rp.get("order", "2h"),
                   rp.get("share", False))
    elif rp["kind"] in ("utils", "bosonic-prep", "thewalrus"):
        pass        # regenerated from the seed by the run itself
    return len(ctx.failures) > n0


def run(ctx, sf):
    sf.hbar = 2
    try:
        run_corpus(ctx, sf)
        if ctx.proof_ok:
            correspondence(ctx, sf)
        oracle(ctx, sf)
    finally:
        sf.hbar = 2


def search(ctx, sf):
    run(ctx, sf)


def replay(ctx, rp):
    import strawberryfields as sf
    try:
        return _replay(ctx, sf, rp)
    finally:
        sf.hbar = 2
