"""C13 — a time-domain program means its explicit loop, however it is unrolled.

(a) correspondence of SFV.Model.Tdm with the real code: `shift_by`, whole call histories
    (`unroll | space_unroll | roll | run | lock`) with every anchored state attribute and the circuit the
    engine executes compared after every call, `_get_mode_order`, `reshape_samples`, `get_delays`,
    `get_crop_value`, `vacuum_padding`;
(b) property-level oracle on the real code: the loop written out by hand with a fresh mode per pulse is
    run next to the shift-unrolled program with scripted homodyne outcomes (the predicted distribution of
    every outcome given the earlier ones is compared), the space-unrolled state is compared with the
    hand-written loop, samples must sit at (shot, band, bin), roll must restore circuit and register after
    any history, unrolling must not depend on the history;
(c) replay of every reported input."""
import copy
import itertools
import json
import warnings
from pathlib import Path

import numpy as np

from lib import tdm_c13 as T

RULE = ("rolled programs over N in {[1],[2],[3],[4],[1,2],[2,3],[2,2],[3,1],[1,1,2],[2,1,2]} (+[8,1] for the hash-order "
        "case), 1-5 time bins, 2-4 parameter arrays, default and integer shifts (incl. 0, negative, > register), "
        "squeezers/rotations/beamsplitters (also across bands, daggered), leading mode of each band measured; shots 1-3; "
        "call histories of length <= 4 exhaustively over a 10-letter alphabet on two programs plus random histories of "
        "length 5-8.  Non-trivial = >=2 time bins and (>=2 concurrent modes or >=2 shots); distinct by (program, calls).")
ASSUMPTIONS = [
    "a homodyne measurement leaves the measured mode in vacuum, so re-using it equals taking a fresh mode (the "
    "renaming theorem is about circuits; equality of states follows with this fact, and is checked numerically by the oracle)",
    "theorems assume well-formed programs: slots < number of concurrent modes, loop variables < number of parameter "
    "lists, every band non-empty",
    "space-unrolling is stated for one shot (the engine's use); with more shots the real code wraps around the register",
]
TRUSTED = ["modelled: tdm/program.py (shift_by, _unroll_program, apply_op, unroll, space_unroll, roll, _get_mode_order, "
           "reshape_samples, get_delays, get_crop_value), engine.get_tdm_options + roll-back, tdm/utils.vacuum_padding "
           "(crop arithmetic)",
           "Gaussian back end (gates, post-selected homodyne, reduced states) is used as the semantics of circuits in the oracle",
           "compilation by the 'gaussian' compiler keeps the primitive gates used here unchanged (checked: executed circuit "
           "is compared with the model)"]

# The Gaussian back end realises homodyne post-selection by projecting on a finitely squeezed state
# (eps = 2e-4) and draws a random value for the conjugate quadrature, which enters the conditional mean with
# weight eps^2 = 4e-8: predicted means carry noise of ~1e-7..1e-6.  NumPy's global RNG is seeded identically
# for the two runs, and the comparison tolerance is 2e-5 * max(1, std) (wrong circuits differ by >1e-2).
TOL = 2e-5
TAGS = [float(k) for k in range(4096)]


# =============================================================================== correspondence
def corr_shift(ctx, sf):
    from strawberryfields.tdm import shift_by
    rng = ctx.rng
    reqs, impl = [], []
    for _ in range(ctx.n(60, 400)):
        L = rng.randint(0, 7)
        l = list(range(10, 10 + L))
        n = rng.randint(-L - 2, L + 2)
        reqs.append(dict(op="tdm.shiftBy", l=l, n=n))
        impl.append((dict(l=l, n=n), list(shift_by(l, n))))
        ctx.count("shift_by", None, False)
    if ctx.proof_ok:
        for (case, iv), mv in zip(impl, ctx.lean(reqs)):
            ctx.corr_cases += 1
            if mv != iv:
                ctx.disagree("Tdm.shiftBy vs tdm.shift_by", case, mv, iv)


def tracker_step(mode, ev):
    """which form the user's program is in after an event (for choosing events that can be executed)"""
    k = ev["ev"]
    if k == "unroll":
        return "shift" if mode != "space" else "space"
    if k == "space_unroll":
        return "space"
    if k == "roll":
        return "rolled"
    return mode


def executes_space(mode, ev):
    return ev["ev"] == "run" and (ev.get("space") or mode == "space")


ALPHABET = [dict(ev="unroll", shots=1), dict(ev="unroll", shots=2), dict(ev="space_unroll", shots=1),
            dict(ev="space_unroll", shots=2), dict(ev="roll"), dict(ev="lock"),
            dict(ev="run", shots=1, space=False, crop=False), dict(ev="run", shots=2, space=False, crop=False),
            dict(ev="run", shots=None, space=True, crop=False), dict(ev="run", shots=None, space=False, crop=True)]


CROP_ERRORS = []


def crop_ok(sf, spec):
    """cropping is implemented for single-band programs without nested loops only"""
    if len(spec["N"]) > 1:
        return False
    try:
        T.build(sf, spec).get_crop_value()
        return True
    except NotImplementedError:
        return False
    except Exception as e:  # noqa: BLE001 -- reported as a failing input at the end of run()
        CROP_ERRORS.append((spec, "%s: %s" % (type(e).__name__, str(e)[:120])))
        return False


def legal_event(spec, mode, ev, cropok=None):
    """events the harness issues: crop only for single-band programs without nested loops"""
    ev = dict(ev)
    if ev["ev"] == "run":
        if len(spec["N"]) > 1 or cropok is False:
            ev["crop"] = False
        if ev.get("crop") and ev["shots"] is not None and not any(T.is_meas(o) and o["regs"][0] == 0 for o in spec["ops"]) \
                and any(T.is_meas(o) for o in spec["ops"]):
            ev["crop"] = False  # the engine crops samples_dict[0] only
    return ev


def gen_history(rng, spec, length, cropok=None):
    mode, evs = "rolled", []
    for _ in range(length):
        ev = copy.deepcopy(rng.choice(ALPHABET))
        if ev["ev"] in ("unroll", "space_unroll"):
            ev["shots"] = rng.choice([1, 1, 2, 3])
        if ev["ev"] == "run":
            ev = dict(ev="run", shots=rng.choice([1, 1, 2, 3, None]), space=rng.random() < 0.35, crop=rng.random() < 0.3)
        ev = legal_event(spec, mode, ev, cropok)
        evs.append(ev)
        mode = tracker_step(mode, ev)
    return evs


class Subject:
    """one real TDMProgram driven through a call history"""

    def __init__(self, sf, spec, opts=None, params=None):
        opts = opts or {}
        self.sf, self.spec = sf, spec
        self.prog = T.build(sf, spec, params=params, share=bool(opts.get("share")))
        self.inputs0 = T.inputs_of(self.prog)
        self.eng = sf.Engine("gaussian") if opts.get("reuse_engine") else None
        self.steps, self.runs, self.dead = [], [], False

    def call(self, ev, xs):
        if self.dead:
            return
        try:
            out = _one_call(self.sf, self.prog, ev, xs, self.runs, self.eng)
        except Exception as e:  # noqa: BLE001 -- every call the harness issues is legal: it must not raise
            self.steps.append(dict(out="raised %s: %s" % (type(e).__name__, str(e)[:120]), st=T.snapshot(self.prog)))
            self.dead = True
            return
        step = dict(out=out, st=T.snapshot(self.prog))
        inp = T.inputs_of(self.prog)
        if inp != self.inputs0:
            step["inputs_changed"] = [k for k in inp if inp[k] != self.inputs0[k]]
        self.steps.append(step)


def real_history(sf, spec, evs, xs, opts=None):
    """run the calls on the real code; returns (list of dict(out=, st=), per-run details, program)"""
    sub = Subject(sf, spec, opts)
    for ev in evs:
        sub.call(ev, xs)
    return sub.steps, sub.runs, sub.prog


def _one_call(sf, prog, ev, xs, runs, eng=None):
    if True:
        out = "ok"
        k = ev["ev"]
        if k == "unroll":
            try:
                prog.unroll(shots=ev["shots"])
            except ValueError:
                out = "ValueError"
        elif k == "space_unroll":
            prog.space_unroll(shots=ev["shots"])
        elif k == "roll":
            prog.roll()
        elif k == "lock":
            prog.lock()
        elif k == "run":
            rec, log = {}, []
            if eng is None:
                eng = sf.Engine("gaussian")
            elif eng.run_progs:
                eng.reset()  # the same engine object serves every run of the history
            with warnings.catch_warnings():
                warnings.simplefilter("ignore")
                with T.capture_engine(sf, rec), T.scripted_homodyne(xs, log):
                    res = eng.run(prog, shots=ev["shots"], space_unroll=ev["space"], crop=ev["crop"])
            nstate = res.state.num_modes if res.state is not None else None
            sd = None
            if res.samples_dict:
                sd = [[int(k2), np.array(v).astype(int).tolist()] for k2, v in res.samples_dict.items()]
            out = dict(executed=rec.get("executed"), backendModes=rec.get("backendModes"), nstate=nstate, samples=sd)
            runs.append(dict(ev=ev, log=log, samples=None if res.samples is None else np.array(res.samples),
                             samples_dict={int(k2): np.array(v) for k2, v in (res.samples_dict or {}).items()}))
        return out


def norm_model_step(m):
    out = m["out"]
    if isinstance(out, dict):
        sm = out.pop("stateModes")
        # an empty selection (everything cropped) makes the engine return no state object at all
        out["nstate"] = out["backendModes"] if sm is None else (sm[1] - sm[0] if sm[1] > sm[0] else None)
    return m


def judge_history(ctx, sf, spec, evs, steps, runs, reqs, pending, opts, extra=None):
    """oracle + model request for one finished real history"""
    xs = TAGS
    rp = dict(kind="history", spec=spec, evs=evs, xs=None, opts=opts)
    if extra:
        rp.update(extra)
    case = dict(spec=spec, evs=evs, opts=opts)
    if steps and isinstance(steps[-1]["out"], str) and steps[-1]["out"].startswith("raised"):
        ctx.oracle_cases += 1
        names = [e["ev"] + ("(%s)" % e["shots"] if "shots" in e else "") + ("+space" if e.get("space") else "") for e in evs[:len(steps)]]
        ctx.fail("call-raises:" + evs[len(steps) - 1]["ev"], f"N={spec['N']} timebins={spec['T']} {opts}: after {names} the last call "
                 f"{steps[-1]['out']}", rp)
        return
    for i, st in enumerate(steps):
        if st.pop("inputs_changed", None):
            ctx.fail("input-mutated", f"N={spec['N']}: call {i} ({evs[i]['ev']}) changed the parameter arrays / N / shift handed "
                     f"to the program", rp)
            return
    oracle_history(ctx, sf, spec, evs, steps, runs, xs, rp=rp)
    reqs.append(dict(op="tdm.history", evs=evs, **T.model_cfg(spec)))
    pending.append((case, steps))


def history_case(ctx, sf, spec, evs, reqs, pending, xs, opts=None):
    """correspondence + history oracle for one (program, calls) pair"""
    opts = opts or {}
    case = dict(spec=spec, evs=evs, opts=opts)
    nt = spec["T"] >= 2 and (sum(spec["N"]) >= 2)
    ctx.count("history:len%d" % min(len(evs), 9), case, nt, sample=case)
    for k, v in opts.items():
        if v:
            ctx.tally("history-opt:" + k)
    for ev in evs:
        ctx.tally("ev:" + ev["ev"] + (":space" if ev.get("space") else "") + (":crop" if ev.get("crop") else ""))
    # the k-th measurement of a run returns the tag k: sample dictionaries are compared exactly with the model
    steps, runs, prog = real_history(sf, spec, evs, TAGS, opts)
    judge_history(ctx, sf, spec, evs, steps, runs, reqs, pending, opts)


def interleaved_case(ctx, sf, specA, evsA, specB, evsB, reqs, pending, shared, opts=None):
    """two programs driven alternately (optionally built on the SAME parameter list objects): each must behave
    exactly as if it were alone"""
    opts = dict(opts or {}, interleaved=True, shared_params=bool(shared))
    lists = [list(a) for a in specA["params"]] if shared else None
    before = copy.deepcopy(lists)
    A = Subject(sf, specA, opts, params=lists)
    B = Subject(sf, specB, opts, params=lists)
    ctx.count("interleaved:%s" % ("shared-arrays" if shared else "separate"), dict(a=specA, b=specB, ea=evsA, eb=evsB),
              specA["T"] >= 2, sample=dict(a=specA, ea=evsA, b=specB, eb=evsB))
    for i in range(max(len(evsA), len(evsB))):
        if i < len(evsA):
            A.call(evsA[i], TAGS)
        if i < len(evsB):
            B.call(evsB[i], TAGS)
    extra = dict(kind="interleaved", specA=specA, evsA=evsA, specB=specB, evsB=evsB, shared=bool(shared))
    if shared and lists != before:
        ctx.fail("input-mutated", "the parameter lists shared by two programs were changed in place", dict(extra, opts=opts))
        return
    judge_history(ctx, sf, specA, evsA[:len(A.steps)] if A.dead else evsA, A.steps, A.runs, reqs, pending, opts, extra)
    judge_history(ctx, sf, specB, evsB[:len(B.steps)] if B.dead else evsB, B.steps, B.runs, reqs, pending, opts, extra)


def flush_histories(ctx, reqs, pending):
    if not ctx.proof_ok or not reqs:
        reqs.clear(); pending.clear()
        return
    for (case, steps), model in zip(pending, ctx.lean(reqs)):
        ctx.corr_cases += 1
        if isinstance(model, dict) and "__error__" in model:
            ctx.disagree("Tdm.history (model error)", case, model, None)
            continue
        if isinstance(model, dict) and "dict" in model:
            names = steps.pop("names")
            if model != steps or names != [kv[0] for kv in model["dict"]]:
                ctx.disagree("Tdm.parametersDict/resolveNamed vs TDMProgram.parameters / loop_vars", case, model, dict(steps, names=names))
            continue
        if isinstance(model, dict) and "order" in model:
            model.pop("rank", None)
            if model != steps:
                ctx.disagree("Tdm.measOrder/measuredModes vs TDMProgram.get_mode_order/measured_modes", case, model, steps)
            continue
        model = [norm_model_step(m) for m in model]
        if model != steps:
            # locate the first differing call and field
            where = None
            for i, (m, s) in enumerate(zip(model, steps)):
                if m != s:
                    keys = [k for k in s["st"] if m["st"].get(k) != s["st"].get(k)] + ([] if m["out"] == s["out"] else ["out"])
                    where = dict(call=i, event=case["evs"][i], fields=keys,
                                 model={k: (m["st"].get(k) if k != "out" else m["out"]) for k in keys},
                                 impl={k: (s["st"].get(k) if k != "out" else s["out"]) for k in keys})
                    break
            ctx.disagree("Tdm.St.steps vs TDMProgram call history", dict(case, where=where),
                         where and where["model"], where and where["impl"])
    reqs.clear(); pending.clear()


def corr_reshape(ctx, sf):
    """_get_mode_order / reshape_samples called directly with unique integer tags"""
    from strawberryfields.tdm.program import _get_mode_order, reshape_samples
    rng = ctx.rng
    reqs, impl = [], []
    for _ in range(ctx.n(120, 1500)):
        N = list(rng.choice(T.N_BIG if rng.random() < 0.15 else T.N_CHOICES + [[5], [8, 1], [4, 3]]))
        starts = T.band_starts(N)
        offs = [0 if rng.random() < 0.7 else rng.randrange(n) for n in N]
        modes = [s + o for s, o in zip(starts, offs)]
        shots, tb = rng.randint(1, 3), rng.randint(1, 5)
        if rng.random() < 0.1:
            shots, tb = rng.choice([(10, 2), (11, 1), (2, 10), (1, 12), (3, 11)])
        case = dict(N=N, modes=modes, shots=shots, T=tb)
        ctx.count("reshape", case, tb >= 2 and (sum(N) >= 2 or shots >= 2))
        # the raw dictionary the engine collects from the shift-unrolled circuit (computed by hand)
        raw, tag_of = {}, {}
        for g in range(shots * tb):
            for b, n in enumerate(N):
                m = starts[b] + (offs[b] + g) % n
                tag = 1000 * (g // tb) + 100 * b + (g % tb) + 7
                raw.setdefault(m, []).append(tag)
                tag_of[(g // tb, b, g % tb)] = tag
        keys = list(raw)
        rng.shuffle(keys)
        sd = {k: [np.array([v]) for v in raw[k]] for k in sorted(keys)}  # engine hands over keys sorted
        num = shots * tb * len(N)
        order = [int(x) for x in _get_mode_order(num, modes, N)]
        reqs.append(dict(op="tdm.modeOrder", num=num, modes=modes, N=N))
        impl.append(("modeOrder", case, order))
        try:
            out = reshape_samples(sd, modes, N, tb)
            got = [[int(k), np.array(v).astype(int).tolist()] for k, v in out.items()]
        except Exception as e:  # noqa: BLE001
            got = "raised " + type(e).__name__
        reqs.append(dict(op="tdm.reshape", samples=[[k, raw[k]] for k in sorted(raw)], modes=modes, N=N, T=tb))
        impl.append(("reshape", case, got))
        # with an explicit mode order: whole-register rotation by r per bin (what integer shifts produce)
        C, r = sum(N), rng.randint(0, sum(N))
        raw2, order2 = {}, []
        for g in range(shots * tb):
            for b, n in enumerate(N):
                m = (modes[b] + g * r) % C
                raw2.setdefault(m, []).append(1000 * (g // tb) + 100 * b + (g % tb) + 7)
                order2.append(m)
        sd2 = {k: [np.array([v]) for v in raw2[k]] for k in sorted(raw2)}
        try:
            out2 = reshape_samples(sd2, modes, N, tb, mode_order=order2)
            got2 = [[int(k), np.array(v).astype(int).tolist()] for k, v in out2.items()]
        except Exception as e:  # noqa: BLE001
            got2 = "raised " + type(e).__name__
        reqs.append(dict(op="tdm.reshape", samples=[[k, raw2[k]] for k in sorted(raw2)], modes=modes, N=N, T=tb, order=order2))
        impl.append(("reshapeWith", dict(case, rot=r), got2))
        ctx.oracle_cases += 1
        want2 = [[modes[b], [[tag_of[(sh, b, t)] for t in range(tb)] for sh in range(shots)]] for b in range(len(N))]
        if got2 != want2:
            ctx.fail("reshape-placement", f"reshape_samples with the true mode order misplaces samples for N={N} modes={modes} "
                     f"shots={shots} timebins={tb} rotation={r}", dict(kind="reshape", **case, offs=offs, rot=r))
        # property-level: entry (shot, band, bin)
        ctx.oracle_cases += 1
        bad = None
        if isinstance(got, str):
            bad = got
        else:
            d = dict((k, v) for k, v in got)
            for (s, b, t), tag in tag_of.items():
                try:
                    if d[modes[b]][s][t] != tag:
                        bad = f"entry (shot {s}, band {b}, bin {t}) holds {d[modes[b]][s][t]}, expected tag {tag}"
                        break
                except (KeyError, IndexError):
                    bad = f"entry (shot {s}, band {b}, bin {t}) missing"
                    break
        if bad:
            ctx.fail("reshape-placement", f"reshape_samples misplaces samples for N={N} modes={modes} shots={shots} "
                     f"timebins={tb}: {bad}", dict(kind="reshape", **case, offs=offs))
    if ctx.proof_ok:
        for (kind, case, iv), mv in zip(impl, ctx.lean(reqs)):
            ctx.corr_cases += 1
            if mv != iv:
                ctx.disagree(f"Tdm.{kind} vs tdm.program", case, mv, iv)


def loop_program_spec(delays, alphas, T_len):
    """the single-band multi-loop program of tdm.utils.get_mode_indices"""
    C = sum(delays) + 1
    n = [C - s for s in np.cumsum([1] + list(delays))]
    d = len(delays)
    params = [list(a) for a in alphas] + [[1] * T_len for _ in range(d)] + [[0] * T_len]
    ops = [dict(cls="Sgate", regs=[int(n[0])], pars=[1, 0], d=False, s=None)]
    for i in range(d):
        ops.append(dict(cls="Rgate", regs=[int(n[i])], pars=["p%d" % (d + i)], d=False, s=None))
        ops.append(dict(cls="BSgate", regs=[int(n[i + 1]), int(n[i])], pars=["p%d" % i, 1], d=False, s=None))
    ops.append(dict(cls="MeasureHomodyne", regs=[0], pars=["p%d" % (2 * d)], d=False, s=None))
    return dict(N=[C], shift="default", T=T_len, params=params, ops=ops)


def corr_crop(ctx, sf):
    from strawberryfields.tdm import vacuum_padding
    rng = ctx.rng
    reqs, impl = [], []
    for it in range(ctx.n(60, 600)):
        # (i) arbitrary single-band programs: get_delays / get_crop_value
        spec = T.gen_spec(rng, True, single_band=True, shift="default")
        for p in spec["params"]:
            z = rng.randint(0, len(p))
            p[:z] = [0] * z
        prog = T.build(sf, spec)
        try:
            try:
                delays = [int(x) for x in prog.get_delays()]
            except NotImplementedError:
                delays = None
            crop = int(prog.get_crop_value()) if delays is not None else None
        except Exception as e:  # noqa: BLE001
            ctx.fail("get_crop_value-raises", f"get_delays/get_crop_value of a single-band program (N={spec['N']}) raises "
                     f"{type(e).__name__}: {str(e)[:100]}", dict(kind="cropcall", spec=spec))
            continue
        reqs.append(dict(op="tdm.crop", **T.model_cfg(spec)))
        impl.append(("crop", spec, dict(delays=delays, crop=crop)))
        ctx.count("crop:random", spec, delays not in (None, []))
        # (ii) vacuum_padding vs get_crop_value of the padded multi-loop program
        d = rng.randint(1, 3) if rng.random() < 0.7 else rng.randint(4, 7)  # with >= 5 loops the loop variables reach p10+
        dl = [rng.randint(1, 4) for _ in range(d)]
        L = rng.randint(1, 6)
        alphas = []
        for _ in range(d):
            z = rng.choice([0, 0, 1, 2, 3, L, L])
            alphas.append([0] * min(z, L) + [rng.randint(1, 5) for _ in range(L - min(z, L))])
        rl = [[10 * (i + 1) + k + 1 for k in range(L)] for i in range(d)]  # rotation arguments: distinct non-zero tags
        sl = [100 + k for k in range(L)]
        ga = dict(Sgate=list(sl), loops={i: dict(Rgate=list(rl[i]), BSgate=list(alphas[i])) for i in range(d)})
        ga0 = copy.deepcopy(ga)
        pad = vacuum_padding(ga, delays=dl)
        padded = [[int(v) for v in pad["loops"][i]["BSgate"]] for i in range(d)]
        reqs.append(dict(op="tdm.pad", alphas=alphas, delays=dl))
        case = dict(alphas=alphas, delays=dl)
        if ga != ga0:
            ctx.fail("input-mutated", f"vacuum_padding changed its input dictionary (alphas={alphas}, delays={dl})", dict(kind="pad", **case))
        spec2 = loop_program_spec(dl, padded, len(padded[0]))
        prog2 = T.build(sf, spec2)
        real_crop = int(prog2.get_crop_value())
        impl.append(("pad", dict(case, rl=rl, sl=sl, padR=[[int(v) for v in pad["loops"][i]["Rgate"]] for i in range(d)],
                                  padS=[int(v) for v in pad["Sgate"]]),
                     dict(crop=int(pad["crop"]), padded=padded, cropOfPadded=real_crop)))
        ctx.count("crop:padding", case, d >= 2)
        ctx.oracle_cases += 1
        if [int(x) for x in prog2.get_delays()] != dl:
            ctx.fail("get_delays", f"get_delays() of the loop program with delays {dl} returns {prog2.get_delays()}",
                     dict(kind="pad", **case))
        if real_crop != int(pad["crop"]):
            ctx.fail("crop-vs-padding", f"vacuum_padding says crop={pad['crop']} but get_crop_value() of the padded "
                     f"program says {real_crop} (alphas={alphas}, delays={dl})", dict(kind="pad", **case))
    if ctx.proof_ok:
        for (kind, case, iv), mv in zip(impl, ctx.lean(reqs)):
            ctx.corr_cases += 1
            if kind == "crop" and iv["delays"] is None:
                mv = dict(delays=mv["delays"], crop=None)
            if kind == "pad":
                pro = mv.pop("prologues")
                tot = mv["crop"]
                wantR = [[0] * pro[i] + case["rl"][i] + [0] * (tot - pro[i]) for i in range(len(pro))]
                wantS = [0] * pro[0] + case["sl"] + [0] * (tot - pro[0])
                if case["padR"] != wantR or case["padS"] != wantS:
                    ctx.disagree("Tdm.prologues vs vacuum_padding (Rgate/Sgate lists)", dict(alphas=case["alphas"], delays=case["delays"]),
                                 dict(R=wantR, S=wantS), dict(R=case["padR"], S=case["padS"]))
            if mv != iv:
                ctx.disagree(f"Tdm.{kind} vs get_delays/get_crop_value/vacuum_padding", case, mv, iv)


# =============================================================================== oracle
def close(a, b, scale=1.0):
    return abs(a - b) <= TOL * max(1.0, abs(scale), abs(a), abs(b))


def same_prediction(a, b):
    """(phi, mode, mean, var) of one measurement in the two runs"""
    std = max(a[3], b[3], 0.0) ** 0.5
    return close(a[0], b[0]) and close(a[2], b[2], std) and close(a[3], b[3])


def oracle_loop(ctx, sf, spec, shots, xs, share=False):
    """shift-unrolled run vs the loop written out by hand, scripted outcomes; sample placement"""
    case = dict(spec=spec, shots=shots)
    nt = spec["T"] >= 2 and (sum(spec["N"]) >= 2 or shots >= 2)
    ctx.count("loop:%s:N%s" % ("default" if spec["shift"] == "default" else "int", len(spec["N"])), case, nt, sample=case)
    ctx.oracle_cases += 1
    rp = dict(kind="loop", spec=spec, shots=shots, xs=list(xs), share=share)
    n_modes, cmds, info = T.explicit_loop(spec, shots)
    log_e = []
    np.random.seed(12345)
    with T.scripted_homodyne(xs, log_e):
        sf.Engine("gaussian").run(T.explicit_program(sf, n_modes, cmds))
    np.random.seed(12345)
    log_t, err, res = [], None, None
    prog = T.build(sf, spec, share=share)
    with warnings.catch_warnings():
        warnings.simplefilter("ignore")
        with T.scripted_homodyne(xs, log_t):
            try:
                res = sf.Engine("gaussian").run(prog, shots=shots)
            except Exception as e:  # noqa: BLE001
                err = e
    if err is not None and len(log_t) != len(log_e):
        ctx.fail("run-raises", f"run(shots={shots}) of N={spec['N']} shift={spec['shift']} raises {type(err).__name__}: {str(err)[:100]}", rp)
        return
    # (1) same joint distribution of all measured pulses: chain of conditional (mean, variance)
    if len(log_t) != len(log_e):
        ctx.fail("loop-length", f"unrolled program performs {len(log_t)} measurements, the explicit loop {len(log_e)}", rp)
        return
    for k, (a, b) in enumerate(zip(log_t, log_e)):
        if not same_prediction(a, b):
            g, band = info[k]
            ctx.fail("loop-state", f"N={spec['N']} shift={spec['shift']} shots={shots}: measurement {k} (bin {g % spec['T']}, "
                     f"shot {g // spec['T']}, band {band}) angle/mean/variance {a[0]:.6g}/{a[2]:.6g}/{a[3]:.6g} in the "
                     f"unrolled program but {b[0]:.6g}/{b[2]:.6g}/{b[3]:.6g} in the explicit loop", rp)
            return
    # (2) samples at (shot, band, bin)
    sig = "samples-placement"
    Tn, B = spec["T"], len(spec["N"])
    if err is not None:
        ctx.fail("samples-error", f"run(shots={shots}) of N={spec['N']} shift={spec['shift']} "
                 f"raises {type(err).__name__} while arranging the samples", rp)
        return
    samples = np.array(res.samples)
    if samples.shape != (shots, B, Tn):
        ctx.fail(sig, f"samples have shape {samples.shape}, expected {(shots, B, Tn)} (N={spec['N']} shift={spec['shift']})", rp)
        return
    band_of = [b for b, n in enumerate(spec["N"]) for _ in range(n)]
    starts = {band_of[o["regs"][0]]: o["regs"][0] for o in spec["ops"] if T.is_meas(o)}  # measured slot of each band
    for k, (g, band) in enumerate(info):
        x = xs[k % len(xs)]
        s, t = g // Tn, g % Tn
        if samples[s, band, t] != x or starts[band] not in res.samples_dict or res.samples_dict[starts[band]][s][t] != x:
            ctx.fail(sig, f"N={spec['N']} shift={spec['shift']} shots={shots}: the outcome of pulse (shot {s}, band {band}, "
                     f"bin {t}) is not at samples[{s},{band},{t}] / samples_dict[{starts[band]}][{s}][{t}]", rp)
            return


def oracle_space(ctx, sf, spec, crop):
    """single band: the state of the space-unrolled run is the state of the hand-written loop"""
    case = dict(spec=spec, crop=crop)
    ctx.count("space:C%d" % sum(spec["N"]), case, spec["T"] >= 2 and sum(spec["N"]) >= 2, sample=case)
    ctx.oracle_cases += 1
    rp = dict(kind="space", spec=spec, crop=crop)
    n_modes, cmds, _ = T.explicit_loop(spec, 1, with_meas=False, force_queue=True)
    st_e = sf.Engine("gaussian").run(T.explicit_program(sf, n_modes, cmds)).state
    prog = T.build(sf, spec)
    with warnings.catch_warnings():
        warnings.simplefilter("ignore")
        try:
            res = sf.Engine("gaussian").run(prog, shots=None, space_unroll=True, crop=crop)
        except Exception as e:  # noqa: BLE001
            ctx.fail("run-raises", f"run(space_unroll=True, shots=None, crop={crop}) of N={spec['N']} timebins={spec['T']} raises "
                     f"{type(e).__name__}: {str(e)[:100]}", rp)
            return
        lo = int(prog.get_crop_value()) if crop else 0
    modes = list(range(lo, spec["T"]))
    st = res.state
    if not modes:
        return  # everything cropped: the engine returns no state object for an empty selection
    if st is None or st.num_modes != len(modes):
        ctx.fail("space-state-size", f"space-unrolled run returns {None if st is None else st.num_modes} modes, expected {len(modes)}", rp)
        return
    mu_e, cov_e = st_e.reduced_gaussian(modes)
    if not (np.allclose(st.means(), mu_e, atol=TOL) and np.allclose(st.cov(), cov_e, atol=TOL)):
        ctx.fail("space-state", f"N={spec['N']} timebins={spec['T']} crop={crop}: state of the space-unrolled run differs from "
                 f"the explicit loop by {max(np.max(np.abs(st.means() - mu_e)), np.max(np.abs(st.cov() - cov_e))):.3g}", rp)
    # the caller's program is handed back rolled, circuit and register untouched
    snap = T.snapshot(prog)
    if snap["circuit"] != T.spec_circ(spec) or snap["refs"] != [[i, True] for i in range(sum(spec["N"]))] or snap["space"] is not None:
        ctx.fail("run-leaves-program-changed", "run(space_unroll=True) hands the rolled program back with register "
                 f"{snap['refs']} / {len(snap['circuit'])} commands", rp)


def oracle_space_samples(ctx, sf, spec, shots, xs, crop=False):
    """samples of a space-unrolled run sit at (shot, band, bin) too"""
    case = dict(spec=spec, shots=shots, crop=crop)
    ctx.count("space-samples", case, spec["T"] >= 2 and shots >= 1, sample=case)
    ctx.oracle_cases += 1
    rp = dict(kind="space_samples", spec=spec, shots=shots, xs=list(xs), crop=crop)
    prog = T.build(sf, spec)
    log = []
    with warnings.catch_warnings():
        warnings.simplefilter("ignore")
        with T.scripted_homodyne(xs, log):
            try:
                res = sf.Engine("gaussian").run(prog, shots=shots, space_unroll=True, crop=crop)
            except Exception as e:  # noqa: BLE001
                ctx.fail("space-unrolled-samples", f"run(space_unroll=True, shots={shots}) of N={spec['N']} timebins={spec['T']} "
                         f"raises {type(e).__name__}: {str(e)[:100]}", rp)
                return
        lo = int(prog.get_crop_value()) if crop else 0
    samples = np.array(res.samples)
    Tn, B = spec["T"], len(spec["N"])
    info = [(g, b) for g, b, _ in T.true_measured_modes(spec, shots)]
    want = np.zeros((shots, B, Tn))
    for k, (g, b) in enumerate(info):
        want[g // Tn, b, g % Tn] = xs[k % len(xs)]
    want = want[:, :, lo:]
    if len(log) != len(info) or samples.shape != want.shape or not np.array_equal(samples, want):
        ctx.fail("space-unrolled-samples", f"N={spec['N']} timebins={Tn} shots={shots} crop={crop}: samples of the space-unrolled run "
                 f"are not arranged as (shot, band, bin) ({len(log)} measurements, shape {samples.shape}, expected {want.shape})", rp)


def oracle_select(ctx, sf, spec, shots, kw):
    """a post-selected measurement in the loop body: every bin is post-selected, whatever engine options are given"""
    spec = copy.deepcopy(spec)
    sel = 0.125
    for o in spec["ops"]:
        if T.is_meas(o):
            o["s"] = sel
    if kw.get("crop") and not crop_ok(sf, spec):
        kw = dict(kw, crop=False)
    case = dict(spec=spec, shots=1, kw=kw)
    ctx.count("select+options", case, spec["T"] >= 2, sample=case)
    ctx.oracle_cases += 1
    rp = dict(kind="select", spec=spec, shots=1, kw=kw)
    with warnings.catch_warnings():
        warnings.simplefilter("ignore")
        try:
            res = sf.Engine("gaussian").run(T.build(sf, spec), shots=1, **kw)
        except Exception as e:  # noqa: BLE001
            ctx.fail("select-with-options", f"a TDM program with MeasureHomodyne(select=...) run with {kw} raises "
                     f"{type(e).__name__}: {str(e)[:100]}", rp)
            return
    smp = np.array(res.samples)
    if smp.size == 0 and kw.get("crop"):
        return
    if smp.size == 0 or not np.allclose(smp, sel, atol=1e-12):
        ctx.fail("select-lost", f"post-selected outcomes are not returned for every time bin (options {kw})", rp)


def oracle_mutation(ctx, sf, spec, evs, change, opts=None):
    """state kept between calls: after any history ending rolled, the user changes a parameter array IN PLACE;
    everything computed afterwards must be what a freshly built program with the new values gives"""
    opts = opts or {}
    case = dict(spec=spec, evs=evs, change=change, opts=opts)
    ctx.count("mutation", case, spec["T"] >= 2, sample=case)
    ctx.oracle_cases += 1
    rp = dict(kind="mutation", spec=spec, evs=evs, change=change, opts=opts)
    lists = [list(a) for a in spec["params"]]
    sub = Subject(sf, spec, opts, params=lists)
    for ev in evs + [dict(ev="roll")]:
        sub.call(ev, TAGS)
    if sub.dead:
        ctx.fail("call-raises:" + "history", f"N={spec['N']}: a legal call history raised: {sub.steps[-1]['out']}", rp)
        return
    sub.prog.get_mode_order(); cropok = crop_ok(sf, spec)
    if cropok:
        sub.prog.get_crop_value(); sub.prog.get_delays()  # give identity-keyed memoisation a chance to go stale
    i, t, v = change
    lists[i][t] = v
    spec2 = copy.deepcopy(spec)
    spec2["params"][i][t] = v
    fresh = lambda: T.build(sf, spec2, share=bool(opts.get("share")))
    try:
        for how, sh in (("shift", 1), ("shift", 2), ("space", 1)):
            a, b = sub.prog, fresh()
            (a.unroll if how == "shift" else a.space_unroll)(shots=sh)
            (b.unroll if how == "shift" else b.space_unroll)(shots=sh)
            if T.canon_circ(a.circuit) != T.canon_circ(b.circuit) or a.get_mode_order() != b.get_mode_order():
                ctx.fail("stale-after-input-change", f"N={spec['N']} timebins={spec['T']}: after the history and an in-place change of "
                         f"parameter array {i} at bin {t}, the {how}-unrolled circuit ({sh} shots) is not that of a fresh program", rp)
                return
            a.roll()
        if cropok:
            b = fresh()
            if int(sub.prog.get_crop_value()) != int(b.get_crop_value()) or list(sub.prog.get_delays()) != list(b.get_delays()):
                ctx.fail("stale-after-input-change", f"N={spec['N']}: get_crop_value/get_delays after an in-place change of the "
                         f"parameter arrays: {sub.prog.get_crop_value()} vs {b.get_crop_value()} for a fresh program", rp)
                return
        recs = []
        for prog in (sub.prog, fresh()):
            rec, log = {}, []
            with warnings.catch_warnings():
                warnings.simplefilter("ignore")
                with T.capture_engine(sf, rec), T.scripted_homodyne(TAGS, log):
                    res = (sub.eng or sf.Engine("gaussian")) if False else sf.Engine("gaussian")
                    res = res.run(prog, shots=2, crop=bool(cropok))
            recs.append((rec.get("executed"), None if res.samples is None else np.array(res.samples).tolist(), [(l[0], l[1]) for l in log]))
        if recs[0] != recs[1]:
            ctx.fail("stale-after-input-change", f"N={spec['N']}: run(shots=2) after an in-place change of the parameter arrays "
                     f"differs from the run of a fresh program", rp)
    except Exception as e:  # noqa: BLE001
        ctx.fail("call-raises:after-input-change", f"N={spec['N']}: {type(e).__name__}: {str(e)[:120]}", rp)


def fresh_circuit(sf, spec, how, shots, cache):
    key = (how, shots)
    if key not in cache:
        p = T.build(sf, spec)
        (p.unroll if how == "shift" else p.space_unroll)(shots=shots)
        cache[key] = T.canon_circ(p.circuit)
    return cache[key]


def oracle_history(ctx, sf, spec, evs, steps, runs, xs, cache=None, rp=None):
    """after any history: roll restores circuit/register exactly, (space-)unrolling gives the circuit a fresh
    program gives, the lock only changes by lock/run, rejected calls change nothing, runs place the samples"""
    ctx.oracle_cases += 1
    cache = {} if cache is None else cache
    rp = rp or dict(kind="history", spec=spec, evs=evs, xs=None)
    C = sum(spec["N"])
    rolled0 = T.spec_circ(spec)
    refs0 = [[i, True] for i in range(C)]
    locked = False
    prev = None
    mode = "rolled"
    ri = 0
    hist = []
    for ev, step in zip(evs, steps):
        hist.append(ev["ev"] + ("(%s)" % ev["shots"] if "shots" in ev else "") + ("+space" if ev.get("space") else ""))
        st, k = step["st"], ev["ev"]
        was = mode
        if k in ("lock", "run"):
            locked = True
        if st["locked"] != locked:
            ctx.fail("lock-changed", f"after {hist}: locked={st['locked']}, expected {locked}", rp)
            return
        if k == "unroll" and step["out"] == "ValueError":
            if was != "space":
                ctx.fail("unroll-rejected", f"after {hist}: unroll raised ValueError although the program was not space-unrolled", rp)
                return
            if st != prev:
                diff = [f for f in st if st[f] != prev[f]]
                ctx.fail("rejected-call-changes-state", f"after {hist}: the rejected unroll changed {diff}", rp)
                return
        mode = tracker_step(mode, ev)
        rolled_now = st["unrolled"] is None and st["space"] is None
        if rolled_now != (mode == "rolled"):
            ctx.fail("unrolled-flag", f"after {hist}: program {'is' if rolled_now else 'is not'} rolled", rp)
            return
        if st["rolled"] != rolled0:
            ctx.fail("rolled-circuit-lost", f"after {hist}: rolled_circuit is no longer the original circuit", rp)
            return
        if mode == "rolled":
            if st["circuit"] != rolled0 or st["refs"] != refs0 or st["init"] != C or st["added"] != 0 or st["shots"] is not None:
                ctx.fail("roll-restores", f"after {hist}: rolled program has register {st['refs']}, init_num_subsystems "
                         f"{st['init']}, {len(st['circuit'])} commands (original: {C} modes, {len(rolled0)} commands)", rp)
                return
        elif k in ("unroll", "space_unroll") and step["out"] == "ok":
            how = "shift" if mode == "shift" else "space"
            want = fresh_circuit(sf, spec, how, st["shots"], cache)
            nreg = C if how == "shift" else max(C, st["shots"] * spec["T"] + C - 1)
            if st["shots"] != ev["shots"] or st["circuit"] != want or st["refs"] != [[i, True] for i in range(nreg)] or st["init"] != nreg:
                ctx.fail("unroll-depends-on-history", f"after {hist}: the {how}-unrolled circuit/register for shots={ev['shots']} "
                         f"differs from what a fresh program gives (register {st['refs']}, shots recorded {st['shots']})", rp)
                return
        elif st["refs"] != prev["refs"] or st["circuit"] != prev["circuit"] or st["init"] != prev["init"]:
            ctx.fail("call-changes-program", f"after {hist}: {k} changed the circuit or register of the (un)rolled program", rp)
            return
        if k == "run":
            r = runs[ri]
            ri += 1
            # what must have been executed: the program as it was, or unrolled as requested
            if ev["space"] or was == "space":
                sh = prev["shots"] if was == "space" else (ev["shots"] or 1)
                want = fresh_circuit(sf, spec, "space", sh, cache)
            else:
                sh = prev["shots"] if was == "shift" else (ev["shots"] or 1)
                want = fresh_circuit(sf, spec, "shift", sh, cache)
            if step["out"]["executed"] != want:
                ctx.fail("run-executes-other-circuit", f"after {hist}: the engine executed a circuit that is not the "
                         f"program unrolled for {sh} shot(s)", rp)
                return
            has_meas = any(T.is_meas(o) for o in spec["ops"])
            if ev["shots"] is not None and has_meas:
                Tn, B = spec["T"], len(spec["N"])
                lo = 0
                if ev["crop"]:
                    lo = T.build(sf, spec).get_crop_value()
                info = [(g, b) for g, b, _ in T.true_measured_modes(spec, sh)]
                want_s = np.zeros((sh, B, Tn))
                for kk, (g, b) in enumerate(info):
                    want_s[g // Tn, b, g % Tn] = xs[kk % len(xs)]
                want_s = want_s[:, :, lo:]
                if r["samples"] is None or r["samples"].shape != want_s.shape or not np.array_equal(r["samples"], want_s):
                    ctx.fail("samples-placement", f"after {hist}: samples are not arranged as (shot, band, bin) "
                             f"(shape {None if r['samples'] is None else r['samples'].shape}, expected {want_s.shape})", rp)
                    return
        prev = st if not (k == "unroll" and step["out"] == "ValueError") else prev
        if prev is None:
            prev = st


# =============================================================================== driver
def corpus_cases():
    d = Path(__file__).resolve().parents[2] / "corpus" / "C13"
    return [json.loads(p.read_text()) for p in sorted(d.glob("*.json"))] if d.exists() else []


def run_item(ctx, sf, item, reqs, pending):
    k = item["kind"]
    if k == "history":
        history_case(ctx, sf, item["spec"], item["evs"], reqs, pending, None, item.get("opts"))
    elif k == "interleaved":
        interleaved_case(ctx, sf, item["specA"], item["evsA"], item["specB"], item["evsB"], reqs, pending, item.get("shared"),
                         item.get("opts"))
    elif k == "mutation":
        oracle_mutation(ctx, sf, item["spec"], item["evs"], item["change"], item.get("opts"))
    elif k == "loop":
        oracle_loop(ctx, sf, item["spec"], item["shots"], item.get("xs") or [0.3, -0.2, 0.5, 0.1, -0.4], item.get("share", False))
    elif k == "space":
        oracle_space(ctx, sf, item["spec"], item.get("crop", False))
    elif k == "space_samples":
        oracle_space_samples(ctx, sf, item["spec"], item["shots"], item.get("xs") or [0.3, -0.2, 0.5], item.get("crop", False))
    elif k == "cropcall":
        crop_ok(sf, item["spec"]); report_crop_errors(ctx)
    elif k == "select":
        oracle_select(ctx, sf, item["spec"], item["shots"], item["kw"])
    elif k == "unroll_flags":
        unroll_case(ctx, sf, item["spec"], item["shots"], item["space"], reqs, pending, item.get("share", False))


def p2_names(sf, spec):
    return T.build(sf, spec).loop_vars


def unroll_case(ctx, sf, spec, shots, space, reqs, pending, share=False):
    """a single (space-)unrolling compared as a one-call history; programs need not be runnable"""
    evs = [dict(ev="space_unroll" if space else "unroll", shots=shots), dict(ev="roll")]
    case = dict(spec=spec, evs=evs)
    ctx.count("unroll:%s" % ("space" if space else "shift"), case, spec["T"] >= 2 and sum(spec["N"]) >= 2)
    steps, runs, prog = real_history(sf, spec, evs, [0.0], dict(share=share))
    for st in steps:
        if st.pop("inputs_changed", None):
            ctx.fail("input-mutated", f"N={spec['N']}: (space-)unrolling changed the parameter arrays handed to the program",
                     dict(kind="unroll_flags", spec=spec, shots=shots, space=space, share=share))
    reqs.append(dict(op="tdm.history", evs=evs, **T.model_cfg(spec)))
    pending.append((case, steps))
    # loop variables are resolved by name: TDMProgram.parameters (keys and arrays) and parameters[name][t % timebins]
    names = [str(v.name) for v in p2_names(sf, spec)]
    look = [dict(name=rng_name, t=t) for rng_name, t in [(names[(7 * k + shots) % len(names)], (3 * k + shots) % (2 * spec["T"] + 1)) for k in range(4)]]
    pr = T.build(sf, spec, share=share)
    real_dict = [[str(k), [T.canon_par(v) for v in a]] for k, a in pr.parameters.items()]
    real_look = [T.canon_par(pr.parameters[l["name"]][l["t"] % pr.timebins]) for l in look]
    reqs.append(dict(op="tdm.parameters", lookups=look, **{k: v for k, v in T.model_cfg(spec).items() if k != "rolled"}))
    pending.append((dict(spec=spec, what="parameters"), dict(dict=real_dict, lookups=real_look, names=names)))
    # TDMProgram.get_mode_order / measured_modes on the unrolled program vs the model
    p2 = T.build(sf, spec, share=share)
    (p2.space_unroll if space else p2.unroll)(shots=shots)
    # options that are not arguments (dark counts) survive in every time bin
    dcs = [None if o.get("dc") is None else [o["dc"]] for o in spec["ops"]]  # MeasureFock stores one entry per mode
    if any(d is not None for d in dcs) and not space:
        got = [getattr(c.op, "dark_counts", None) for c in p2.circuit]
        if got != dcs * (shots * spec["T"]):
            ctx.fail("unrolled-command", f"dark_counts of the loop body {dcs} become {got[:2 * len(dcs)]}... in the unrolled circuit",
                     dict(kind="unroll_flags", spec=spec, shots=shots, space=space, share=share))
    mcirc = [dict(c, meas=c["cls"].startswith("Measure")) for c in T.canon_circ(p2.circuit)]
    reqs.append(dict(op="tdm.measOrder", rolled=T.model_cfg(spec)["rolled"], circ=mcirc))
    try:
        real_order = dict(order=[int(x) for x in p2.get_mode_order()], modes=[int(x) for x in p2.measured_modes])
    except Exception as e:  # noqa: BLE001
        ctx.fail("get_mode_order-raises", f"get_mode_order() of the {'space' if space else 'shift'}-unrolled program (N={spec['N']}, "
                 f"shots={shots}) raises {type(e).__name__}: {str(e)[:100]}",
                 dict(kind="unroll_flags", spec=spec, shots=shots, space=space, share=share))
        real_order = dict(order=None, modes=None)
    pending.append((dict(spec=spec, shots=shots, space=space, what="get_mode_order"), real_order))
    # property-level: flags and arguments of every unrolled command are those of the rolled command at that bin
    ctx.oracle_cases += 1
    circ = steps[0]["st"]["circuit"]
    L = len(spec["ops"])
    if not space and len(circ) == shots * spec["T"] * L:
        for i, c in enumerate(circ):
            o = spec["ops"][i % L]
            t = (i // L) % spec["T"]
            pars = [spec["params"][int(a[1:])][t] if isinstance(a, str) else a for a in o["pars"]]
            if c["cls"] != o["cls"] or c["d"] != bool(o.get("d")) or c["s"] != o.get("s") or c["pars"] != pars:
                ctx.fail("unrolled-command", f"command {i} of the unrolled circuit is {c}, the loop body has {o} with arguments "
                         f"{pars} at bin {t}", dict(kind="unroll_flags", spec=spec, shots=shots, space=space, share=share))
                break


def run(ctx, sf):
    rng = ctx.rng
    reqs, pending = [], []
    np_rng = ctx.nprng()
    xs = [round(float(v), 6) for v in np_rng.uniform(-1.0, 1.0, size=97)]
    # ---- corpus first
    for item in corpus_cases():
        run_item(ctx, sf, item, reqs, pending)
    flush_histories(ctx, reqs, pending)
    # ---- direct function correspondence
    corr_shift(ctx, sf)
    corr_reshape(ctx, sf)
    corr_crop(ctx, sf)
    # ---- single unrollings, any shift / flags / integer tags (not executed)
    for _ in range(ctx.n(120, 1500)):
        spec = T.gen_spec(rng, True, off_head=0.2, big=0.2)
        for o in spec["ops"]:
            if T.is_meas(o) and rng.random() < 0.3:
                o["s"] = rng.randint(1, 3)
        # unique integer tags so that a wrong row or column of the parameter arrays is visible
        spec["params"] = [[100 * (i + 1) + t for t in range(spec["T"])] for i in range(len(spec["params"]))]
        space = rng.random() < 0.35
        if rng.random() < 0.2:  # a Fock measurement with a dark-count option instead of homodyne
            for o in spec["ops"]:
                if T.is_meas(o):
                    o.update(cls="MeasureFock", pars=[], s=None, dc=rng.randint(1, 3))
        shots_u = rng.choice([10, 11]) if rng.random() < 0.06 and spec["T"] < 10 and sum(spec["N"]) < 10 else rng.choice([1, 1, 2, 3])
        unroll_case(ctx, sf, spec, shots_u, space, reqs, pending, share=rng.random() < 0.5)
    flush_histories(ctx, reqs, pending)
    # ---- call histories: exhaustive up to length L on two small programs, random longer ones
    S = lambda r, m: dict(cls="Sgate", regs=[m], pars=[r, 0], d=False, s=None)
    small = [dict(N=[2], shift="default", T=2, params=[[1, 2], [0, 1]],
                  ops=[S(1, 1), dict(cls="BSgate", regs=[0, 1], pars=["p0", 0], d=False, s=None),
                       dict(cls="MeasureHomodyne", regs=[0], pars=["p1"], d=False, s=None)]),
             # twelve arrays: the loop variables p1, p10 and p11 (names that are prefixes of one another) are all used
             dict(N=[1, 2], shift="default", T=3, params=[[10 * i + 1, 10 * i + 2, 10 * i + 3] for i in range(12)],
                  ops=[S(1, 2), dict(cls="BSgate", regs=[1, 2], pars=["p10", 1], d=True, s=None),
                       dict(cls="Rgate", regs=[0], pars=["p1"], d=False, s=None),
                       dict(cls="MeasureHomodyne", regs=[1], pars=["p11"], d=False, s=None),
                       dict(cls="MeasureHomodyne", regs=[0], pars=["p0"], d=False, s=None)])]
    Lmax = 3 if ctx.tier == "quick" and ctx.boost == 1 else 4
    for si, spec in enumerate(small):
        for L in range(1, Lmax + 1):
            for combo in itertools.product(range(len(ALPHABET)), repeat=L):
                if ctx.tier == "quick" and ctx.boost == 1 and L == 3 and si == 1 and rng.random() < 0.5:
                    continue
                mode, evs = "rolled", []
                for c in combo:
                    ev = legal_event(spec, mode, ALPHABET[c])
                    evs.append(ev)
                    mode = tracker_step(mode, ev)
                history_case(ctx, sf, spec, evs, reqs, pending, xs,
                             dict(share=(len(combo) + combo[0]) % 2 == 1, reuse_engine=combo[-1] % 2 == 0))
            flush_histories(ctx, reqs, pending)
    for _ in range(ctx.n(60, 800)):
        spec = T.gen_spec(rng, True, T=rng.choice([1, 2, 3, 4]), shift="default" if rng.random() < 0.8 else None,
                          measure=rng.random() < 0.8)
        history_case(ctx, sf, spec, gen_history(rng, spec, rng.randint(4, 8), crop_ok(sf, spec)), reqs, pending, xs,
                     dict(share=rng.random() < 0.5, reuse_engine=rng.random() < 0.5))
        if len(reqs) >= 200:
            flush_histories(ctx, reqs, pending)
    flush_histories(ctx, reqs, pending)
    # ---- two programs driven alternately, half of them on the same parameter list objects
    for _ in range(ctx.n(30, 400)):
        specA = T.gen_spec(rng, True, T=rng.choice([2, 3, 4]), shift="default" if rng.random() < 0.8 else None)
        specB = T.gen_spec(rng, True, T=specA["T"], shift="default" if rng.random() < 0.8 else None, off_head=0.2)
        shared = rng.random() < 0.5
        if shared:  # same arrays: same values, same number of arrays
            nb = len(specA["params"])
            for o in specB["ops"]:
                o["pars"] = ["p%d" % (int(a[1:]) % nb) if isinstance(a, str) else a for a in o["pars"]]
            specB["params"] = [list(a) for a in specA["params"]]
        interleaved_case(ctx, sf, specA, gen_history(rng, specA, rng.randint(3, 6), crop_ok(sf, specA)),
                         specB, gen_history(rng, specB, rng.randint(3, 6), crop_ok(sf, specB)), reqs, pending, shared,
                         dict(share=rng.random() < 0.5, reuse_engine=rng.random() < 0.3))
    flush_histories(ctx, reqs, pending)
    # ---- in-place change of the user's parameter arrays after a history
    for _ in range(ctx.n(30, 400)):
        spec = T.gen_spec(rng, True, T=rng.choice([2, 3, 4]), single_band=rng.random() < 0.6, shift="default" if rng.random() < 0.8 else None)
        used = sorted({int(a[1:]) for o in spec["ops"] for a in o["pars"] if isinstance(a, str)})
        i = rng.choice(used)
        t = rng.randrange(spec["T"])
        v = spec["params"][i][t] + rng.choice([1, 2]) if rng.random() < 0.7 else 0
        oracle_mutation(ctx, sf, spec, gen_history(rng, spec, rng.randint(1, 4), crop_ok(sf, spec)), [i, t, v],
                        dict(share=rng.random() < 0.5))
    # ---- the explicit loop
    for i in range(ctx.n(120, 1500)):
        shift = "default" if rng.random() < 0.65 else None
        spec = T.gen_spec(rng, False, shift=shift, mz=True, off_head=0.15, big=0.06)
        shots_l = 1 if sum(spec["N"]) >= 10 or spec["T"] >= 10 else rng.choice([1, 1, 2, 3])
        oracle_loop(ctx, sf, spec, shots_l, xs[i % 31:] + xs[:i % 31], share=rng.random() < 0.5)
    # the hash-order case: second band measured first, band starts 0 and 8
    spec = T.gen_spec(rng, False, N=[8, 1], T=2, shift="default", max_ops=3)
    ms = [o for o in spec["ops"] if T.is_meas(o)]
    rest = [o for o in spec["ops"] if not T.is_meas(o)]
    spec["ops"] = rest + sorted(ms, key=lambda o: -o["regs"][0])
    oracle_loop(ctx, sf, spec, 2, xs)
    # two-digit everything, executed: ten bands (measured slots 0,2,3,...,13), 11-14 parameter arrays, two shots
    spec = T.gen_spec(rng, False, N=[2, 1] * 4 + [1, 1], T=2, shift="default", max_ops=3, many=1.0)
    oracle_loop(ctx, sf, spec, 2, xs, share=True)
    for _ in range(ctx.n(40, 500)):
        spec = T.gen_spec(rng, False, single_band=True, shift="default")
        for p in spec["params"]:
            if rng.random() < 0.5:
                z = rng.randint(0, len(p))
                p[:z] = [0] * z
        oracle_space(ctx, sf, spec, crop=rng.random() < 0.4 and crop_ok(sf, spec))
    # ---- samples of space-unrolled runs (all shot counts), post-selection together with engine options
    for i in range(ctx.n(40, 400)):
        spec = T.gen_spec(rng, False, single_band=rng.random() < 0.7, shift="default" if rng.random() < 0.7 else None)
        crop = rng.random() < 0.3 and crop_ok(sf, spec) and any(T.is_meas(o) and o["regs"][0] == 0 for o in spec["ops"])
        oracle_space_samples(ctx, sf, spec, rng.choice([1, 2, 3]), xs[i % 29:] + xs[:i % 29], crop)
    for _ in range(ctx.n(10, 80)):
        oracle_select(ctx, sf, T.gen_spec(rng, False, single_band=True, shift="default"), rng.choice([1, 2]),
                      rng.choice([dict(crop=True), dict(space_unroll=True), dict(crop=False, space_unroll=False), dict()]))
    report_crop_errors(ctx)


def report_crop_errors(ctx):
    for spec, msg in CROP_ERRORS[:3]:
        ctx.fail("get_crop_value-raises", f"get_crop_value() of a single-band program (N={spec['N']}) raises {msg}",
                 dict(kind="cropcall", spec=spec))
    CROP_ERRORS.clear()


def search(ctx, sf):
    run(ctx, sf)


def replay(ctx, rp):
    import strawberryfields as sf
    n0 = len(ctx.failures)
    if rp["kind"] == "reshape":
        return _replay_reshape(ctx, sf, rp)
    if rp["kind"] == "pad":
        return _replay_pad(ctx, sf, rp)
    run_item(ctx, sf, rp, [], [])
    return len(ctx.failures) > n0


def _replay_reshape(ctx, sf, rp):
    from strawberryfields.tdm.program import reshape_samples
    N, offs, shots, tb, modes = rp["N"], rp["offs"], rp["shots"], rp["T"], rp["modes"]
    starts = T.band_starts(N)
    raw, tag_of = {}, {}
    for g in range(shots * tb):
        for b, n in enumerate(N):
            raw.setdefault(starts[b] + (offs[b] + g) % n, []).append(1000 * (g // tb) + 100 * b + g % tb + 7)
            tag_of[(g // tb, b, g % tb)] = 1000 * (g // tb) + 100 * b + g % tb + 7
    order = None
    if "rot" in rp:
        raw, order, C = {}, [], sum(N)
        for g in range(shots * tb):
            for b, n in enumerate(N):
                raw.setdefault((modes[b] + g * rp["rot"]) % C, []).append(tag_of[(g // tb, b, g % tb)])
                order.append((modes[b] + g * rp["rot"]) % C)
    try:
        out = reshape_samples({k: [np.array([v]) for v in raw[k]] for k in sorted(raw)}, modes, N, tb, mode_order=order)
        return any(out[modes[b]][s][t] != tag for (s, b, t), tag in tag_of.items())
    except Exception:  # noqa: BLE001
        return True


def _replay_pad(ctx, sf, rp):
    from strawberryfields.tdm import vacuum_padding
    alphas, dl = rp["alphas"], rp["delays"]
    L = len(alphas[0])
    ga = dict(Sgate=[1] * L, loops={i: dict(Rgate=[1] * L, BSgate=list(alphas[i])) for i in range(len(dl))})
    pad = vacuum_padding(ga, delays=dl)
    padded = [[int(v) for v in pad["loops"][i]["BSgate"]] for i in range(len(dl))]
    prog = T.build(sf, loop_program_spec(dl, padded, len(padded[0])))
    return int(prog.get_crop_value()) != int(pad["crop"]) or [int(x) for x in prog.get_delays()] != dl
