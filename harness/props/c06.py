"""C06 — measurements sample the Born distribution and condition the rest correctly.

(a) correspondence of `SFV.Model.Measure` with the real code: Gaussian/bosonic `chop_in_blocks*` / `reassemble*`,
    `GaussianModes.{measure_dyne, homodyne, post_select_homodyne, post_select_heterodyne}`, `GaussianBackend.
    {measure_homodyne, measure_heterodyne}`, `MeasureHomodyne._apply`, `BosonicModes.{post_select_generaldyne,
    post_select_homodyne, post_select_heterodyne}`, `BosonicBackend.{measure_homodyne, measure_heterodyne}`,
    Fock `Circuit.measure_fock` outcome order / `ops.unIndex` / `ops.project_reset`, `LocalEngine._run_program` +
    `_combine_and_sort_samples` + `Measurement.apply` — on exact (dyadic / integer) inputs, the random generator
    scripted and its arguments recorded.
(b) property-level oracle on the real code: post-selection and scripted sampling on gaussian / bosonic / fock against an
    independent phase-space / Fock-projection reference; arguments handed to the generator against independent
    Born data; sample layout.  See `oracle_*` below.
(c) replay of a stored failing input."""
import copy
import json
import math
from fractions import Fraction
from pathlib import Path

import numpy as np

from lib import core, progs, sim
from lib import meas06 as m6

RULE = ("correspondence: integer matrices 2..9 with arbitrary (unsorted) deleted index lists; dyadic (nmat, mmat, mean) "
        "states on 1-4 modes, every measured-mode position, rational homodyne angles, hbar in {2, 1/2, 9/2, 8}; bosonic "
        "mixtures of 1-3 components, 1-2 measured modes; Fock measure lists in every order. oracle: correlated "
        "displaced squeezed (mixed) prefixes on 2-4 modes, every measured-mode position and order, post-selection "
        "values within ~1.5 sigma of the marginal. Non-trivial = at least one unmeasured mode correlated with the "
        "measured one (or >= 2 measured modes not in ascending order for the discrete parts); distinct by full case.")
ASSUMPTIONS = [
    "(C + sigma)^-1 from LAPACK is an input of the model (hypothesis W (C + sigma) = 1, checked exactly in the driver)",
    "det / exp of the bosonic re-weighting are opaque: the model supplies the quadratic form and C + sigma, NumPy the rest",
    "Gaussian homodyne uses finite squeezing eps = 2e-4: conditional states are compared with the ideal projection at 2e-6",
    "Fock vs phase space: truncation-escalation rule of DESIGN 1.6 (cutoff D, then D + 6)",
    "thewalrus hafnian/torontonian samplers are trusted; only the (mean, cov) handed to them is compared",
]
TRUSTED = ["modelled: chop/reassemble index algebra, Schur update, scovmat/fromscovmat round trip, outcome scalings, "
           "measure_fock outcome permutation, engine sample collation; trusted: numpy.linalg.inv/det, numpy argsort "
           "(validated per call), thewalrus samplers, the Fock homodyne pdf grid (oracle-only)"]

CORPUS = core.VERIF / "corpus" / "C06"
TOL = 1e-9


# =================================================================== (a) correspondence

def rand_select(rng, ctx, kind):
    """a dyadic post-selection value; a quarter of the time exactly zero in one of the forms a user may write"""
    if rng.random() < 0.25:
        form = rng.choice(["int", "float", "negfloat"] if kind == "homodyne" else ["int", "float", "complex", "negcomplex"])
        ctx.tally(f"corr:select-zero:{kind}:{form}")
        return {"int": 0, "float": 0.0, "negfloat": -0.0, "complex": 0j, "negcomplex": complex(-0.0, 0.0)}[form]
    if kind == "homodyne":
        return m6.dy(rng, -8, 8, 4)
    return complex(m6.dy(rng, -6, 6, 8), m6.dy(rng, -6, 6, 8))


class Batch:
    def __init__(self, ctx):
        self.ctx, self.reqs, self.pend = ctx, [], []

    def add(self, req, pair, case, check):
        """check(model_result) -> None if it agrees, else (model_value, impl_value)"""
        self.reqs.append(req)
        self.pend.append((pair, case, check))
        if len(self.reqs) >= 2000:          # keep every driver call short (the interpreter handles ~30 requests / s on the heavy ops)
            self.flush()

    def flush(self):
        if not self.reqs:
            return
        for (pair, case, check), res in zip(self.pend, self.ctx.lean(self.reqs)):
            self.ctx.corr_cases += 1
            if isinstance(res, dict) and "__error__" in res:
                self.ctx.disagree(pair, case, res, "model error")
                continue
            try:
                bad = check(res)
            except Exception as e:  # noqa: BLE001  (shape mismatch etc. is a disagreement, not a crash)
                bad = (f"comparison raised {type(e).__name__}: {e}", None)
            if bad is not None:
                self.ctx.disagree(pair, case, bad[0], bad[1])
        self.reqs, self.pend = [], []


def _imat(m):
    return [[[int(x), 1] for x in row] for row in np.asarray(m)]


def _ivec(v):
    return [[int(x), 1] for x in np.asarray(v)]


def _eqm(model, impl):
    a = m6.unrmat(model) if len(model) else np.zeros((0, 0))
    b = np.asarray(impl, dtype=float)
    if a.size == 0 and b.size == 0:
        return None
    return None if a.shape == b.shape and np.array_equal(a, b) else (a.tolist(), b.tolist())


def _eqv(model, impl):
    a, b = m6.unrvec(model), np.asarray(impl, dtype=float).ravel()
    return None if a.shape == b.shape and np.array_equal(a, b) else (a.tolist(), b.tolist())


def rand_del(rng, tot, kmax=4):
    k = rng.randint(1, max(1, min(kmax, tot - 1)))
    u = rng.random()
    if u < 0.35 and tot % 2 == 0 and tot >= 4:           # the form the simulators use: [2m.., 2m+1..]
        nm = tot // 2
        ms = rng.sample(range(nm), rng.randint(1, min(2, nm - 1)))
        return [2 * m for m in ms] + [2 * m + 1 for m in ms]
    d = rng.sample(range(tot), k)
    if u < 0.6:
        d.sort()
    return d


def corr_chop(ctx, B):
    from strawberryfields.backends.gaussianbackend import ops as gops
    from strawberryfields.backends.bosonicbackend import ops as bops
    rng, nprng = ctx.rng, ctx.nprng(11)
    for it in range(ctx.n(120, 1200)):
        tot = rng.randint(2, 9)
        dele = rand_del(rng, tot)
        k = len(dele)
        m = nprng.integers(-9, 10, size=(tot, tot)).astype(float)
        v = nprng.integers(-9, 10, size=tot).astype(float)
        case = dict(kind="chop", tot=tot, dele=dele, m=m.tolist())
        nt = tot - k >= 2 and dele != sorted(dele) or dele[-1] == tot - 1 or dele[0] == 0
        ctx.count("corr:chop", case, nt, sample=case)
        which = it % 4
        if which == 0:
            A, Bm, C = gops.chop_in_blocks(m.copy(), np.array(dele))
            B.add(dict(op="meas.chop", m=_imat(m), **{"del": dele}), "Measure.chop vs gaussian chop_in_blocks", case,
                  lambda r, A=A, Bm=Bm, C=C: _eqm(r["A"], A) or _eqm(r["B"], Bm) or _eqm(r["C"], C))
            va, vb = gops.chop_in_blocks_vector(v.copy(), np.array(dele))
            B.add(dict(op="meas.chopvec", v=_ivec(v), **{"del": dele}), "Measure.chopVec vs gaussian chop_in_blocks_vector",
                  dict(case, v=v.tolist()), lambda r, va=va, vb=vb: _eqv(r["va"], va) or _eqv(r["vb"], vb))
        elif which == 1:
            m2 = nprng.integers(-9, 10, size=(tot, tot)).astype(float)
            A, Bm, C = bops.chop_in_blocks_multi(np.array([m, m2]), np.array(dele))
            for c, mm in enumerate((m, m2)):
                B.add(dict(op="meas.chop", m=_imat(mm), **{"del": dele}), "Measure.chop vs bosonic chop_in_blocks_multi",
                      dict(case, comp=c, m=mm.tolist()),
                      lambda r, A=A[c], Bm=Bm[c], C=C[c]: _eqm(r["A"], A) or _eqm(r["B"], Bm) or _eqm(r["C"], C))
            va, vb = bops.chop_in_blocks_vector_multi(np.array([v, 2 * v]), np.array(dele))
            B.add(dict(op="meas.chopvec", v=_ivec(v), **{"del": dele}), "Measure.chopVec vs bosonic chop_in_blocks_vector_multi",
                  dict(case, v=v.tolist()), lambda r, va=va[0], vb=vb[0]: _eqv(r["va"], va) or _eqv(r["vb"], vb))
        else:
            a = tot - k
            A = nprng.integers(-9, 10, size=(a, a)).astype(float)
            w = nprng.integers(-9, 10, size=a).astype(float)
            if a == 0:
                continue
            if which == 2:
                R = gops.reassemble(A.copy(), np.array(dele))
                rv = gops.reassemble_vector(w.copy(), np.array(dele))
                kind, names = "g", ("gaussian reassemble", "gaussian reassemble_vector")
            else:
                R = bops.reassemble_multi(np.array([A, A + 1]), np.array(dele))[0].real
                rv = bops.reassemble_vector_multi(np.array([w, w + 1]), np.array(dele))[0].real
                kind, names = "b", ("bosonic reassemble_multi", "bosonic reassemble_vector_multi")
            B.add(dict(op="meas.reassemble", A=_imat(A), kind=kind, **{"del": dele}), "Measure.reassemble vs " + names[0],
                  dict(kind="reassemble", dele=dele, A=A.tolist()), lambda r, R=R: _eqm(r, R))
            B.add(dict(op="meas.reassemblevec", va=_ivec(w), kind=kind, **{"del": dele}),
                  "Measure.reassembleVec vs " + names[1], dict(kind="reassemblevec", dele=dele, va=w.tolist()),
                  lambda r, rv=rv: _eqv(r, rv))


def _gs_req(n, N, M, mean):
    return dict(n=n, N=m6.cmat(N), M=m6.cmat(M), mean=[m6.cx(z) for z in mean])


def _gs_check(r, g, tol):
    for key, impl in (("N", g.nmat), ("M", g.mmat)):
        mod = m6.uncmat(r[key])
        if not m6.close(impl, mod, tol):
            return ({key: mod.tolist()}, {key: np.asarray(impl).tolist()})
    mod = m6.uncvec(r["mean"])
    if not m6.close(g.mean, mod, tol):
        return ({"mean": mod.tolist()}, {"mean": np.asarray(g.mean).tolist()})
    return None


def corr_gauss(ctx, B, sf):
    from strawberryfields.backends.gaussianbackend.gaussiancircuit import GaussianModes
    from strawberryfields.backends.gaussianbackend import GaussianBackend
    from strawberryfields import ops as sfops
    rng = ctx.rng
    kinds = ["het", "hom", "dyne", "homodyne", "b_hom_sel", "b_hom", "b_het_sel", "b_het", "front_hom_sel", "front_hom"]
    EPS = Fraction(1, 5000)
    for it in range(ctx.n(160, 1600)):
        kind = kinds[it % len(kinds)]
        n = rng.randint(1, 4)
        k = rng.randrange(n) if rng.random() < 0.7 else rng.choice([0, n - 1])
        N, M, mean = m6.rand_nm_state(rng, n)
        base = _gs_req(n, N, M, mean)
        case = dict(kind=kind, n=n, mode=k, N=m6.cmat(N), M=m6.cmat(M), mean=[m6.cx(z) for z in mean])
        nt = n >= 2 and any(abs(N[k, j]) + abs(M[k, j]) > 0 for j in range(n) if j != k)
        tol = 1e-8 if "hom" in kind else TOL

        def make():
            g = GaussianModes(n)
            g.nmat, g.mmat, g.mean = N.copy(), M.copy(), mean.copy()
            return g

        def backend():
            be = GaussianBackend()
            be.begin_circuit(n)
            be.circuit.nmat, be.circuit.mmat, be.circuit.mean = N.copy(), M.copy(), mean.copy()
            return be

        if kind == "het":
            al = rand_select(rng, ctx, 'heterodyne')
            g = make()
            ret = g.post_select_heterodyne(k, al)
            case.update(alpha=[al.real, al.imag])
            B.add(dict(op="meas.gaussPost", modes=[k], het=m6.rvec([al.real, al.imag]), **base),
                  "Measure.gaussPostSelect vs GaussianModes.post_select_heterodyne", case,
                  lambda r, g=g, ret=ret, al=al, tol=tol: _gs_check(r, g, tol) or (None if ret == al else ("alpha", ret)))
        elif kind == "hom":
            val, off = rand_select(rng, ctx, 'homodyne'), m6.dy(rng, -4, 4, 4)
            g = make()
            with m6.ScriptRNG(normal_offset=off) as sr:
                ret = g.post_select_homodyne(k, val, float(EPS))
            call = sr.calls("normal")
            case.update(val=val, off=off)

            def chk(r, g=g, call=call, ret=ret, val=val, tol=tol):
                bad = _gs_check(r, g, tol)
                if bad:
                    return bad
                if ret != val:
                    return (val, ret)
                if len(call) != 1:
                    return ("one call of normal", len(call))
                mu1 = m6.unrvec(r["rngMean"])[1]
                c11 = m6.unrmat(r["rngCov"])[1, 1] - float(1 / (EPS * EPS))
                if abs(call[0]["loc"] - mu1) > 1e-9 * max(1, abs(mu1)) or abs(call[0]["scale"] ** 2 - c11) > 1e-6 * max(1, c11):
                    return (dict(loc=mu1, var=c11), dict(loc=call[0]["loc"], var=call[0]["scale"] ** 2))
                return None
            B.add(dict(op="meas.gaussPost", modes=[k], eps=m6.rat(EPS), homSelect=m6.rvec([1, 1, val]), vm1off=m6.rat(off),
                       **base), "Measure.gaussPostSelect vs GaussianModes.post_select_homodyne", case, chk)
        elif kind in ("dyne", "homodyne"):
            off = [m6.dy(rng, -6, 6, 4), m6.dy(rng, -6, 6, 4)]
            shots = rng.choice([1, 1, 3])
            g = make()
            if kind == "dyne":
                sigma = m6.rand_cov(rng, 2)
                with m6.ScriptRNG(mvn_offset=off) as sr:
                    ret = g.measure_dyne(sigma.copy(), [k], shots=shots)
                req = dict(op="meas.gaussPost", modes=[k], sigma=m6.rmat(sigma), vmoff=m6.rvec(off), **base)
                case.update(sigma=sigma.tolist())
            else:
                with m6.ScriptRNG(mvn_offset=off) as sr:
                    ret = g.homodyne(k, shots, float(EPS))
                req = dict(op="meas.gaussPost", modes=[k], eps=m6.rat(EPS), vmoff=m6.rvec(off), **base)
            call = sr.calls("multivariate_normal")
            case.update(off=off, shots=shots)

            def chk(r, g=g, call=call, ret=ret, shots=shots, tol=tol):
                bad = _gs_check(r, g, tol)
                if bad:
                    return bad
                if len(call) != 1 or call[0]["size"] != shots:
                    return ("one call, size=shots", [(c["size"]) for c in call])
                if not m6.close(call[0]["mean"], m6.unrvec(r["rngMean"]), 1e-9) or \
                        not m6.close(call[0]["cov"], m6.unrmat(r["rngCov"]), 1e-9):
                    return (dict(mean=r["rngMean"], cov=r["rngCov"]), dict(mean=call[0]["mean"].tolist(), cov=call[0]["cov"].tolist()))
                vm = m6.unrvec(r["vm"])
                if np.asarray(ret).shape != (shots, 2) or not m6.close(np.asarray(ret)[0], vm, 1e-9):
                    return (vm.tolist(), np.asarray(ret).tolist())
                return None
            B.add(req, f"Measure.gaussPostSelect vs GaussianModes.{'measure_dyne' if kind == 'dyne' else 'homodyne'}", case, chk)
        else:
            # back-end / front-end level: phase_shift(-phi) followed by the circuit call, with the scalings
            c, s, phi = m6.circle_point(rng)
            pre = [dict(op="phase", c=m6.rat(c), s=m6.rat(-s), k=k)]
            front = kind.startswith("front")
            sc = rng.choice([Fraction(1), Fraction(1, 2), Fraction(3, 2), Fraction(2)]) if front else Fraction(1)
            hbar = float(2 * sc * sc)
            case.update(phi=phi, c=m6.rat(c), s=m6.rat(s), hbar=hbar)
            be = backend()
            if kind in ("b_hom_sel", "front_hom_sel"):
                sel, off = rand_select(rng, ctx, 'homodyne'), m6.dy(rng, -4, 4, 4)
                with m6.ScriptRNG(normal_offset=off), m6.hbar_set(sf, hbar):
                    if front:
                        ret = sfops.MeasureHomodyne(phi, select=sel)._apply([k], be, shots=1)
                    else:
                        ret = be.measure_homodyne(phi, k, select=sel)
                case.update(select=sel, off=off)
                B.add(dict(op="meas.gaussPost", modes=[k], pre=pre, eps=m6.rat(EPS), homSelect=m6.rvec([sc, 1, sel]),
                           vm1off=m6.rat(off), scale=m6.rvec([sc, 1]), **base),
                      "Measure (phase, select scaling, post-select) vs " + ("MeasureHomodyne._apply" if front else
                                                                            "GaussianBackend.measure_homodyne"), case,
                      lambda r, be=be, ret=ret, tol=tol: _gs_check(r, be.circuit, tol) or (
                          None if np.asarray(ret).shape == (1, 1) and abs(np.asarray(ret)[0, 0] - m6.unrat(r["homReturned"])) < 1e-9
                          else (m6.unrat(r["homReturned"]), np.asarray(ret).tolist())))
            elif kind in ("b_hom", "front_hom"):
                off = [m6.dy(rng, -6, 6, 4), m6.dy(rng, -6, 6, 4)]
                with m6.ScriptRNG(mvn_offset=off), m6.hbar_set(sf, hbar):
                    if front:
                        ret = sfops.MeasureHomodyne(phi)._apply([k], be, shots=1)
                    else:
                        ret = be.measure_homodyne(phi, k)
                case.update(off=off)
                B.add(dict(op="meas.gaussPost", modes=[k], pre=pre, eps=m6.rat(EPS), vmoff=m6.rvec(off),
                           scale=m6.rvec([sc, 1]), **base),
                      "Measure (phase, sample, returned value) vs " + ("MeasureHomodyne._apply" if front else
                                                                       "GaussianBackend.measure_homodyne"), case,
                      lambda r, be=be, ret=ret, tol=tol: _gs_check(r, be.circuit, tol) or (
                          None if np.asarray(ret).shape == (1, 1) and abs(np.asarray(ret)[0, 0] - m6.unrat(r["homReturned"])) < 1e-9
                          else (m6.unrat(r["homReturned"]), np.asarray(ret).tolist())))
            elif kind == "b_het_sel":
                al = rand_select(rng, ctx, 'heterodyne')
                ret = be.measure_heterodyne(k, select=al)
                case.update(alpha=[al.real, al.imag])
                B.add(dict(op="meas.gaussPost", modes=[k], het=m6.rvec([al.real, al.imag]), **base),
                      "Measure.gaussPostSelect vs GaussianBackend.measure_heterodyne(select)", case,
                      lambda r, be=be, ret=ret, al=al, tol=tol: _gs_check(r, be.circuit, tol) or (
                          None if np.asarray(ret).shape == (1, 1) and np.asarray(ret)[0, 0] == al else ("alpha", np.asarray(ret).tolist())))
            else:
                off = [m6.dy(rng, -6, 6, 4), m6.dy(rng, -6, 6, 4)]
                with m6.ScriptRNG(mvn_offset=off):
                    ret = be.measure_heterodyne(k)
                case.update(off=off)

                def chk(r, be=be, ret=ret, tol=tol):
                    bad = _gs_check(r, be.circuit, tol)
                    if bad:
                        return bad
                    h = complex(m6.unrat(r["hetReturned"][0]), m6.unrat(r["hetReturned"][1]))
                    if np.asarray(ret).shape != (1, 1) or abs(np.asarray(ret)[0, 0] - h) > 1e-9:
                        return ([h.real, h.imag], np.asarray(ret).tolist())
                    return None
                B.add(dict(op="meas.gaussPost", modes=[k], vmoff=m6.rvec(off), **base),
                      "Measure.gaussPostSelect vs GaussianBackend.measure_heterodyne", case, chk)
        ctx.count(f"corr:gauss:{kind}", case, nt, sample=dict(kind=kind, n=n, mode=k))


def corr_gauss_multi(ctx, B):
    """GaussianModes.measure_dyne on SEVERAL modes (any order): two rounds with the model — first C + covmat exactly,
    then the state update with the exact inverse computed here in rational arithmetic"""
    from strawberryfields.backends.gaussianbackend.gaussiancircuit import GaussianModes
    rng = ctx.rng
    cases = []
    for it in range(ctx.n(16, 160)):
        n = rng.randint(2, 5)
        k = rng.randint(2, min(n, 3))
        modes = scrambled(rng, n, k)
        N, M, mean = m6.rand_nm_state(rng, n)
        sigma = m6.rand_cov(rng, 2 * k)
        off = [m6.dy(rng, -6, 6, 4) for _ in range(2 * k)]
        shots = rng.choice([1, 1, 2])
        g = GaussianModes(n)
        g.nmat, g.mmat, g.mean = N.copy(), M.copy(), mean.copy()
        with m6.ScriptRNG(mvn_offset=off) as sr:
            ret = g.measure_dyne(sigma.copy(), list(modes), shots=shots)
        case = dict(kind="dyne_multi", n=n, modes=modes, N=m6.cmat(N), M=m6.cmat(M), mean=[m6.cx(z) for z in mean],
                    sigma=sigma.tolist(), off=off, shots=shots)
        ctx.count("corr:gauss:dyne_multi", case, n > k, sample=dict(kind="dyne_multi", n=n, modes=modes))
        cases.append((case, g, sr.calls("multivariate_normal"), ret, _gs_req(n, N, M, mean), sigma, off, shots, modes))
    if not cases:
        return
    first = ctx.lean([dict(op="meas.gaussRng", modes=c[8], sigma=m6.rmat(c[5]), **c[4]) for c in cases])
    for (case, g, call, ret, base, sigma, off, shots, modes), r1 in zip(cases, first):
        if isinstance(r1, dict) and "__error__" in r1:
            ctx.disagree("Measure.gaussRngArgs (several modes)", case, r1, "model error")
            continue
        S = [[Fraction(x[0], x[1]) for x in row] for row in r1["rngCov"]]
        W = [[m6.rat(x) for x in row] for row in m6.frac_inv(S)]

        def chk(r, g=g, call=call, ret=ret, shots=shots):
            bad = _gs_check(r, g, TOL)
            if bad:
                return bad
            if len(call) != 1 or call[0]["size"] != shots:
                return ("one call, size=shots", [c["size"] for c in call])
            if not m6.close(call[0]["mean"], m6.unrvec(r["rngMean"]), 1e-9) or not m6.close(call[0]["cov"], m6.unrmat(r["rngCov"]), 1e-9):
                return (dict(mean=r["rngMean"], cov=r["rngCov"]), dict(mean=call[0]["mean"].tolist(), cov=call[0]["cov"].tolist()))
            vm = m6.unrvec(r["vmAll"])
            if np.asarray(ret).shape != (shots, len(vm)) or not m6.close(np.asarray(ret)[0], vm, 1e-9):
                return (vm.tolist(), np.asarray(ret).tolist())
            return None
        B.add(dict(op="meas.gaussPost", modes=modes, sigma=m6.rmat(sigma), vmoff=m6.rvec(off), W=W, **base),
              "Measure.gaussPostSelect vs GaussianModes.measure_dyne (several modes)", case, chk)


def corr_gauss_discrete(ctx, B):
    """GaussianBackend.measure_fock / measure_threshold: the (mean, cov) handed to the thewalrus samplers vs
    Measure.gaussDiscreteArgs, on dyadic states, registers with deleted modes (rows kept in the arrays) and modes added
    later, measured modes in any order"""
    import strawberryfields.backends.gaussianbackend.backend as gb
    from strawberryfields.backends.gaussianbackend import GaussianBackend
    rng = ctx.rng
    for it in range(ctx.n(40, 400)):
        n = rng.randint(2, 5)
        N, M, mean = m6.rand_nm_state(rng, n)
        if it % 4 == 0:
            mean = mean * 0                       # measure_fock passes no mean for zero-mean states
        be = GaussianBackend()
        be.begin_circuit(n)
        be.circuit.nmat, be.circuit.mmat, be.circuit.mean = N.copy(), M.copy(), mean.copy()
        deleted = []
        if it % 3 != 0:
            deleted = rng.sample(range(n), 1 if n < 4 or rng.random() < 0.6 else 2)
            be.del_mode(list(deleted))
            if rng.random() < 0.4:
                be.add_mode(1)                    # a late mode: index n
                k0 = be.circuit.nlen - 1
                be.circuit.nmat[k0, k0] = 0.5
                be.circuit.mmat[k0, k0] = 0.25
        nlen = be.circuit.nlen
        live = [i for i in range(nlen) if be.circuit.active[i] is not None]
        modes = [live[i] for i in scrambled(rng, len(live), rng.randint(1, min(3, len(live))))]
        kind = ["fock", "threshold"][it % 2]
        shots = rng.choice([1, 2])
        st_req = _gs_req(nlen, be.circuit.nmat, be.circuit.mmat, be.circuit.mean)
        log = []

        def fake_tor(mu=None, cov=None, samples=1, **kw):
            log.append((np.array(mu, dtype=float), np.array(cov, dtype=float), samples))
            return np.zeros((samples, len(mu) // 2), dtype=int)

        def fake_haf(cov, samples=1, mean=None, **kw):
            log.append((None if mean is None else np.array(mean, dtype=float), np.array(cov, dtype=float), samples))
            return np.zeros((samples, len(cov) // 2), dtype=int)
        case = dict(kind="gauss_discrete", which=kind, deleted=deleted, modes=modes, shots=shots, **st_req)
        ctx.count(f"corr:gauss:discrete:{kind}", case, bool(deleted) or modes != sorted(modes),
                  sample=dict(which=kind, n=nlen, deleted=deleted, modes=modes))
        ctx.tally("corr:gauss:discrete:holes" if deleted else "corr:gauss:discrete:contiguous")
        old_f = gb.torontonian_sample_state, gb.hafnian_sample_state
        gb.torontonian_sample_state, gb.hafnian_sample_state = fake_tor, fake_haf
        try:
            import warnings
            with warnings.catch_warnings():
                warnings.simplefilter("ignore")
                (be.measure_fock if kind == "fock" else be.measure_threshold)(list(modes), shots=shots)
        except Exception as e:  # noqa: BLE001
            ctx.corr_cases += 1
            ctx.disagree("Measure.gaussDiscreteArgs vs GaussianBackend.measure_" + kind, case, "sampler arguments", f"raised {type(e).__name__}: {e}")
            continue
        finally:
            gb.torontonian_sample_state, gb.hafnian_sample_state = old_f

        def chk(r, log=log, shots=shots):
            if len(log) != 1 or log[0][2] != shots:
                return ("one sampler call with samples=shots", [(x[2]) for x in log])
            mm, mc = m6.unrvec(r["mean"]), m6.unrmat(r["cov"])
            mu, cov, _ = log[0]
            if mu is None:
                mu = np.zeros(len(mm))
                if np.max(np.abs(mm)) > 1e-12:
                    return (mm.tolist(), "no mean passed")
            if not m6.close(mu, mm, 1e-12) or not m6.close(cov, mc, 1e-12):
                return (dict(mean=mm.tolist(), cov=mc.tolist()), dict(mean=mu.tolist(), cov=cov.tolist()))
            return None
        B.add(dict(op="meas.gaussDiscrete", modes=modes, **st_req),
              "Measure.gaussDiscreteArgs vs GaussianBackend.measure_" + kind + " (arguments of the thewalrus sampler)", case, chk)


def _weights_from_model(comps, w0):
    """re-weighting with NumPy's exp/det on the model's quadratic forms and C + sigma"""
    rw = []
    for c in comps:
        S = m6.unrmat(c["S"])
        rw.append(math.exp(-0.5 * m6.unrat(c["quad"])) / math.sqrt(np.linalg.det(2 * np.pi * S)))
    w = np.asarray(w0, dtype=complex) * np.array(rw)
    return w / np.sum(w)


class _Raised(Exception):
    pass


def _real(ctx, pair, case, fn):
    """call the real code; an exception where the model returns a state is a disagreement (not a harness crash)"""
    try:
        return fn()
    except Exception as e:  # noqa: BLE001
        ctx.corr_cases += 1
        ctx.disagree(pair, case, "the model returns a post-measurement state", f"raised {type(e).__name__}: {e}")
        raise _Raised()


def corr_bosonic(ctx, B, sf):
    try_ = lambda pair, case, fn: _real(ctx, pair, case, fn)
    from strawberryfields.backends.bosonicbackend.bosoniccircuit import BosonicModes
    from strawberryfields.backends.bosonicbackend import BosonicBackend
    rng = ctx.rng
    kinds = ["gd1", "gd1", "gd2", "het_c", "hom_c", "b_het_sel", "b_hom_sel"]
    EPS = Fraction(1, 5000)
    for it in range(ctx.n(100, 1000)):
        kind = kinds[it % len(kinds)]
        n = rng.randint(2, 4) if kind == "gd2" else rng.randint(1, 4)
        nc = rng.randint(1, 3)
        covs = np.array([m6.rand_cov(rng, 2 * n) for _ in range(nc)])
        means = np.array([[m6.dy(rng, -6, 6, 4) for _ in range(2 * n)] for _ in range(nc)])
        w0 = np.array([rng.randint(1, 6) for _ in range(nc)], dtype=float)
        w0 = w0 / w0.sum()
        if nc > 1 and rng.random() < 0.4:       # negative weights occur for cat / Fock states
            w0 = w0.copy()
            w0[0], w0[1] = w0[0] + 2 * w0[1], -w0[1]
        modes = rng.sample(range(n), 2) if kind == "gd2" else [rng.randrange(n)]
        if kind == "gd2" and n == 2 and rng.random() < 0.5:
            pass                                 # all modes measured (no spectator) is allowed here
        case = dict(kind=kind, n=n, modes=modes, covs=covs.tolist(), means=means.tolist(), weights=w0.tolist())
        nt = n > len(modes)

        def make():
            b = BosonicModes(n)
            b.weights = w0.astype(complex)
            b.means = means.astype(complex)
            b.covs = covs.astype(complex)
            return b

        base = dict(covs=[m6.rmat(V) for V in covs], means=[m6.rvec(r) for r in means], modes=modes)

        def chk_state(r, b, w0=w0):
            comps = r["comps"]
            mc = np.array([m6.unrmat(c["cov"]) for c in comps])
            mm = np.array([m6.unrvec(c["mean"]) for c in comps])
            if not m6.close(b.covs, mc, 1e-8):
                return (dict(covs=mc.tolist()), dict(covs=np.asarray(b.covs).real.tolist()))
            if not m6.close(b.means, mm, 1e-8):
                return (dict(means=mm.tolist()), dict(means=np.asarray(b.means).real.tolist()))
            wm = np.asarray(w0, dtype=complex) if r["allMeasured"] else _weights_from_model(comps, w0)
            if not m6.close(b.weights, wm, 1e-8):
                return (dict(weights=[complex(x).real for x in wm]), dict(weights=[complex(x).real for x in b.weights]))
            return None

        try:
            _corr_bosonic_one(ctx, B, rng, kind, n, nc, covs, means, w0, modes, case, make, base, chk_state, EPS, BosonicBackend, try_)
        except _Raised:
            pass
        ctx.count(f"corr:bosonic:{kind}", case, nt, sample=dict(kind=kind, n=n, modes=modes, nc=nc))


def _corr_bosonic_one(ctx, B, rng, kind, n, nc, covs, means, w0, modes, case, make, base, chk_state, EPS, BosonicBackend, try_):
        if kind in ("gd1", "gd2"):
            d = 2 * len(modes)
            sigma = m6.rand_cov(rng, d)
            vals = np.array([m6.dy(rng, -6, 6, 4) for _ in range(d)])
            b = make()
            try_("Measure.bosonicDyneComp vs BosonicModes.post_select_generaldyne", case,
                 lambda: b.post_select_generaldyne(sigma.copy(), list(modes), vals.copy()))
            case.update(sigma=sigma.tolist(), vals=vals.tolist())
            if kind == "gd1":
                B.add(dict(op="meas.bosonicPost", sigma=m6.rmat(sigma), vm=m6.rvec(vals), **base),
                      "Measure.bosonicDyneComp vs BosonicModes.post_select_generaldyne", case, lambda r, b=b: chk_state(r, b))
            else:
                ex = [2 * m for m in modes] + [2 * m + 1 for m in modes]
                Ws = []
                for V in covs:
                    S = [[Fraction(float(V[a, c])) + Fraction(float(sigma[i, j])) for j, c in enumerate(ex)] for i, a in enumerate(ex)]
                    Ws.append([[m6.rat(x) for x in row] for row in m6.frac_inv(S)])
                B.add(dict(op="meas.bosonicPostW", sigma=m6.rmat(sigma), vm=m6.rvec(vals), Ws=Ws, **base),
                      "Measure.bosonicDyneComp vs BosonicModes.post_select_generaldyne (2 modes)", case,
                      lambda r, b=b: chk_state(r, b))
        elif kind == "het_c":
            al = rand_select(rng, ctx, 'heterodyne')
            b = make()
            case.update(alpha=[al.real, al.imag])
            try_("Measure.bosonicDyneComp vs BosonicModes.post_select_heterodyne", case, lambda: b.post_select_heterodyne(modes[0], al))
            B.add(dict(op="meas.bosonicPost", hetCircuit=m6.rvec([al.real, al.imag]), **base),
                  "Measure.bosonicDyneComp vs BosonicModes.post_select_heterodyne", case, lambda r, b=b: chk_state(r, b))
        elif kind == "hom_c":
            val = rand_select(rng, ctx, 'homodyne')
            b = make()
            case.update(val=val)
            try_("Measure.bosonicDyneComp vs BosonicModes.post_select_homodyne", case, lambda: b.post_select_homodyne(modes[0], val, float(EPS)))
            B.add(dict(op="meas.bosonicPost", eps=m6.rat(EPS), homSelect=m6.rvec([1, 1, val]), **base),
                  "Measure.bosonicDyneComp vs BosonicModes.post_select_homodyne", case, lambda r, b=b: chk_state(r, b))
        else:
            be = BosonicBackend()
            be.begin_circuit(n)
            be.circuit.weights, be.circuit.means, be.circuit.covs = w0.astype(complex), means.astype(complex), covs.astype(complex)
            if kind == "b_het_sel":
                al = rand_select(rng, ctx, 'heterodyne')
                case.update(alpha=[al.real, al.imag])
                ret = try_("Measure vs BosonicBackend.measure_heterodyne(select)", case, lambda: be.measure_heterodyne(modes[0], select=al))
                B.add(dict(op="meas.bosonicPost", hetBackend=m6.rvec([al.real, al.imag]), **base),
                      "Measure (heterodyne select scaling, post-select) vs BosonicBackend.measure_heterodyne(select)", case,
                      lambda r, be=be, ret=ret, al=al: chk_state(r, be.circuit) or (
                          None if np.asarray(ret).shape == (1, 1) and np.asarray(ret)[0, 0] == al else ("alpha", np.asarray(ret).tolist())))
            else:
                sel = rand_select(rng, ctx, 'homodyne')
                case.update(select=sel)
                ret = try_("Measure vs BosonicBackend.measure_homodyne(select)", case, lambda: be.measure_homodyne(0.0, modes[0], select=sel))
                B.add(dict(op="meas.bosonicPost", eps=m6.rat(EPS), homSelect=m6.rvec([1, 1, sel]), scale=m6.rvec([1, 1]), **base),
                      "Measure (homodyne select scaling, post-select) vs BosonicBackend.measure_homodyne(select)", case,
                      lambda r, be=be, ret=ret: chk_state(r, be.circuit) or (
                          None if np.asarray(ret).shape == (1, 1) and abs(np.asarray(ret)[0, 0] - m6.unrat(r["homReturned"])) < 1e-9
                          else (m6.unrat(r["homReturned"]), np.asarray(ret).tolist())))


def corr_weights(ctx, B):
    """threshold click weights: drive BosonicModes.measure_threshold with a scripted click and compare the weights"""
    from strawberryfields.backends.bosonicbackend.bosoniccircuit import BosonicModes
    rng = ctx.rng
    for it in range(ctx.n(20, 200)):
        n = rng.randint(2, 3)
        nc = rng.randint(1, 3)
        covs = np.array([m6.rand_cov(rng, 2 * n) for _ in range(nc)])
        means = np.array([[m6.dy(rng, -4, 4, 4) for _ in range(2 * n)] for _ in range(nc)])
        w0 = np.array([rng.randint(1, 6) for _ in range(nc)], dtype=float)
        w0 = w0 / w0.sum()
        mode = rng.randrange(n)
        b = BosonicModes(n)
        b.weights, b.means, b.covs = w0.astype(complex), means.astype(complex), covs.astype(complex)
        with m6.ScriptRNG(choice=lambda a, p: 1) as sr:
            out = b.measure_threshold([mode])
        p0 = float(sr.calls("choice")[0]["p"][0])
        # reweights as NumPy computes them from the C + I blocks; model does the rational weight arithmetic
        ix = [2 * mode, 2 * mode + 1]
        rw = []
        for V, r in zip(covs, means):
            S = V[np.ix_(ix, ix)] + np.eye(2)
            rw.append(math.exp(-0.5 * r[ix] @ np.linalg.solve(S, r[ix])) / math.sqrt(np.linalg.det(2 * np.pi * S)))
        # to keep the model exact, the float inputs are sent as the exact rationals of their float64 values
        case = dict(kind="threshold_click", n=n, mode=mode, covs=covs.tolist(), means=means.tolist(), weights=w0.tolist())
        ctx.count("corr:bosonic:threshold_click", case, True, sample=dict(n=n, mode=mode, nc=nc))
        B.add(dict(op="meas.weights", kind="click", w=m6.rvec(w0), rw=m6.rvec(rw), c=m6.rat(4 * math.pi), p0=m6.rat(p0)),
              "Measure.thresholdClickWeights vs BosonicModes.measure_threshold", case,
              lambda r, b=b, out=out: None if out == 1 and m6.close(np.asarray(b.weights), np.array([m6.unrat(x) for x in r]), 1e-9)
              else ([m6.unrat(x) for x in r], [complex(x).real for x in b.weights]))


def corr_fock(ctx, B):
    from strawberryfields.backends.fockbackend.circuit import Circuit
    from strawberryfields.backends.fockbackend import ops as fops
    from lib import simcorr
    rng, nprng = ctx.rng, ctx.nprng(13)
    for it in range(ctx.n(60, 600)):
        n = rng.randint(1, 4)
        D = rng.choice([2, 3, 4])
        k = rng.randint(1, n)
        measure = rng.sample(range(n), k)
        pure = rng.random() < 0.5 or n == 4
        # a random normalised state with full support
        if pure:
            psi = nprng.normal(size=(D,) * n) + 1j * nprng.normal(size=(D,) * n)
            psi /= np.linalg.norm(psi)
            st = psi
        else:
            kets = [nprng.normal(size=(D,) * n) + 1j * nprng.normal(size=(D,) * n) for _ in range(2)]
            rho = sum(fops.mix(kk / np.linalg.norm(kk), n) for kk in kets) / 2
            st = rho
        i = rng.randrange(D ** k)
        c = Circuit(n, D, pure=pure)
        c._state, c._pure = np.array(st, dtype=np.complex128), pure
        case = dict(kind="measure_fock", n=n, D=D, measure=measure, i=i, pure=pure)
        try:
            with m6.ScriptRNG(choice=lambda a, p, i=i: a[i]) as sr:
                ret = c.measure_fock(list(measure))
        except Exception as e:  # noqa: BLE001
            if not (isinstance(e, ZeroDivisionError)):
                ctx.corr_cases += 1
                ctx.disagree("Measure.fockOutcome vs Circuit.measure_fock", case, "an outcome list", f"raised {type(e).__name__}: {e}")
            continue
        ctx.count("corr:fock:outcome", case, k >= 2 and measure != sorted(measure), sample=case)
        B.add(dict(op="meas.fockOutcome", measure=measure, i=i, D=D, n=n), "Measure.fockOutcome vs Circuit.measure_fock", case,
              lambda r, ret=ret: None if np.asarray(ret).tolist() == [r["outcome"]] else (r["outcome"], np.asarray(ret).tolist()))
        B.add(dict(op="meas.fockOutcome", measure=measure, i=i, D=D, n=n), "Measure.unIndex vs ops.unIndex", case,
              lambda r, i=i, k=k, D=D: None if [int(x) for x in fops.unIndex(i, k, D)] == r["permuted"] and r["flat"] == i
              else (r["permuted"], fops.unIndex(i, k, D)))
        # project_reset on integer tensors with the measured modes in the given (scrambled) order
        xs = [rng.randrange(D) for _ in measure]
        rank = n if pure else 2 * n
        if D ** rank <= 4096:
            t = simcorr.rand_int_tensor(nprng, (D,) * rank)
            out = fops.project_reset(list(measure), xs, t, pure, n, D)
            B.add(dict(op="fock.apply", kind="projectResetPure" if pure else "projectResetMixed", D=D, n=n, modes=measure,
                       xs=xs, state=simcorr.flat(t), mat=[]), "FockTensor.projectReset vs ops.project_reset", dict(case, xs=xs),
                  lambda r, out=out: None if r == simcorr.flat(out) else ("model", "impl differs"))


def corr_hermite(ctx, B):
    """`fockbackend/ops.hermiteVals` (memoised with lru_cache) vs Measure.{linspacePt, hermiteVals}: consecutive calls that
    differ in ONE argument only (grid maximum, number of bins, frequency, cutoff), each repeated later"""
    from strawberryfields.backends.fockbackend import ops as fops
    rng = ctx.rng
    base = [rng.choice([2, 3, 2.5]), rng.randint(3, 9), rng.choice([1.0, 0.25, 4.0]), rng.randint(2, 7)]
    calls = [tuple(base)]
    for _ in range(ctx.n(10, 60)):
        c = list(calls[-1])
        j = rng.randrange(4)
        c[j] = [rng.choice([2, 3, 2.5, 1.5]), rng.randint(3, 9), rng.choice([1.0, 0.25, 4.0]), rng.randint(2, 7)][j]
        calls.append(tuple(c))
        if rng.random() < 0.3:
            calls.append(rng.choice(calls))           # an earlier configuration again (served from the cache)
    for (q, nb, mw, trunc) in calls:
        case = dict(kind="hermite", q=q, nb=nb, m_omega_over_hbar=mw, trunc=trunc)
        ctx.count("corr:fock:hermite", case, True, sample=case)
        try:
            grid, H = fops.hermiteVals(q, nb, mw, trunc)
            Hm = np.array([np.broadcast_to(np.asarray(h, dtype=float), (nb,)) for h in H])
        except Exception as e:  # noqa: BLE001
            ctx.corr_cases += 1
            ctx.disagree("Measure.hermiteVals vs ops.hermiteVals", case, "a table", f"raised {type(e).__name__}: {e}")
            continue
        B.add(dict(op="meas.hermite", q=m6.rat(q), s=m6.rat(math.sqrt(mw)), nb=nb, trunc=trunc),
              "Measure.{linspacePt, hermiteVals} vs fockbackend ops.hermiteVals", case,
              lambda r, grid=np.array(grid, dtype=float), Hm=Hm: None if m6.close(grid, m6.unrvec(r["grid"]), 1e-12) and
              m6.close(Hm, m6.unrmat(r["H"]), 1e-10) else (dict(grid=r["grid"]), dict(grid=grid.tolist(), H=Hm.tolist())))


def corr_fock_dist(ctx, B):
    """the probabilities `Circuit.measure_fock` hands to numpy.random.choice vs `Measure.fockDist` on integer-valued
    density tensors (exact): which axes are traced, which diagonal entry sits at which flat position"""
    from strawberryfields.backends.fockbackend.circuit import Circuit
    from strawberryfields.backends.fockbackend import ops as fops
    from lib import simcorr
    rng, nprng = ctx.rng, ctx.nprng(17)
    for it in range(ctx.n(40, 400)):
        n = rng.randint(1, 3)
        D = rng.choice([2, 3]) if n == 3 else rng.choice([2, 3, 4])
        k = rng.randint(1, n)
        measure = scrambled(rng, n, k)
        if it % 3 == 0:
            psi = simcorr.rand_int_tensor(nprng, (D,) * n, -2, 2)
            if not np.any(psi):
                psi[(0,) * n] = 1
            st = fops.mix(psi, n)
        else:
            st = nprng.integers(0, 4, size=(D,) * (2 * n)) + 1j * nprng.integers(-3, 4, size=(D,) * (2 * n))
            st = st.astype(np.complex128)
        c = Circuit(n, D, pure=False)
        c._state, c._pure = np.array(st, dtype=np.complex128), False
        pick = rng.randrange(1000)

        def chooser(a, p, pick=pick):
            idx = [i for i in range(len(a)) if p[i] > 1e-12]
            return a[idx[pick % len(idx)]] if idx else a[0]
        case = dict(kind="fock_dist", n=n, D=D, measure=measure, state=simcorr.flat(st))
        ctx.count("corr:fock:dist", case, n > k or measure != sorted(measure), sample=dict(n=n, D=D, measure=measure))
        try:
            with m6.ScriptRNG(choice=chooser) as sr:
                c.measure_fock(list(measure))
        except ZeroDivisionError:
            ctx.tally("corr:fock:dist:zero")
            continue
        except Exception as e:  # noqa: BLE001
            ctx.corr_cases += 1
            ctx.disagree("Measure.fockDist vs Circuit.measure_fock", case, "a distribution", f"raised {type(e).__name__}: {e}")
            continue
        pv = sr.calls("choice")[0]["p"]

        def chk(r, pv=pv):
            d = np.array(r["dist"], dtype=float)
            tot = d.sum()
            if tot == 0:
                return None
            want = d / tot
            return None if want.shape == pv.shape and np.max(np.abs(want - pv)) <= 1e-12 else (want.tolist(), pv.tolist())
        B.add(dict(op="meas.fockDist", D=D, n=n, measure=measure, state=simcorr.flat(st)),
              "Measure.fockDist vs Circuit.measure_fock (probabilities handed to choice)", case, chk)


def _peak_factors(covs, means, ix, covmat, x):
    """(pref_i, e_i) of every peak at the point x, NumPy's det/exp on the marginals + measurement covariance"""
    out = []
    for V, r in zip(covs, means):
        S = V[np.ix_(ix, ix)] + covmat
        d = x - r[ix]
        out.append((1.0 / math.sqrt(np.linalg.det(2 * np.pi * S)), math.exp(-0.5 * d @ np.linalg.solve(S, d))))
    return out


class _GiveUp(Exception):
    pass


def corr_sampler(ctx, B):
    """BosonicModes.measure_dyne on multi-peak states (negative weights included) with the generator scripted: peak
    choice probabilities, proposal parameters, every accept / reject decision of the rejection loop, and the state update
    for the accepted point, against Measure.{ubIndices, ubWeightsProb, probDistVal, probUpbnd, accept, bosonicDyneComp}"""
    rng = ctx.rng
    for it in range(ctx.n(24, 240)):
        n = rng.randint(1, 3)
        nc = rng.randint(2, 4)
        covs = np.array([m6.rand_cov(rng, 2 * n) for _ in range(nc)])
        means = np.array([[m6.dy(rng, -6, 6, 4) for _ in range(2 * n)] for _ in range(nc)])
        w0 = np.array([rng.randint(1, 6) for _ in range(nc)], dtype=float)
        if rng.random() < 0.7:
            j = rng.randrange(1, nc)
            w0[j] = -w0[j] / 2            # a negative-weight peak (cat / Fock-like states)
        w0 = w0 / w0.sum()
        mode = rng.randrange(n)
        covmat = m6.phys_cov(rng, 2) if it % 2 else np.eye(2)
        ix = [2 * mode, 2 * mode + 1]
        offs = [np.array([m6.dy(rng, -8, 8, 4), m6.dy(rng, -8, 8, 4)]) for _ in range(4)]
        us = [rng.choice([0.995, 0.9, 0.5]), rng.choice([0.95, 0.45]), 0.0]
        picks = [rng.randrange(8) for _ in range(8)]
        case = dict(kind="sampler", n=n, mode=mode, covs=covs.tolist(), means=means.tolist(), weights=w0.tolist(),
                    covmat=covmat.tolist(), offs=[o.tolist() for o in offs], us=us, picks=picks)
        ctx.count("corr:bosonic:sampler", case, True, sample=dict(n=n, mode=mode, nc=nc, weights=w0.tolist()))
        sampler_one(ctx, B, case)


def sampler_one(ctx, B, case):
    """one scripted run of the rejection sampler (also the replay entry point); B = None skips the model comparison"""
    from strawberryfields.backends.bosonicbackend.bosoniccircuit import BosonicModes
    n, mode = case["n"], case["mode"]
    covs, means, w0 = np.array(case["covs"]), np.array(case["means"]), np.array(case["weights"])
    covmat, offs, us, picks = np.array(case["covmat"]), [np.array(o) for o in case["offs"]], case["us"], case["picks"]
    ix = [2 * mode, 2 * mode + 1]
    counter = dict(k=0)
    b = BosonicModes(n)
    b.weights, b.means, b.covs = w0.astype(complex), means.astype(complex), covs.astype(complex)
    counter = dict(k=0)

    def choose(a, p, picks=picks, counter=counter):
        v = a[picks[counter["k"] % len(picks)] % len(a)]
        return v

    def mvn(mean, cov, offs=offs, counter=counter):
        if counter["k"] >= 10:
            raise _GiveUp()                  # the scripted points never reach positive target density
        v = mean + offs[counter["k"] % len(offs)]
        counter["k"] += 1
        return v
    sr = m6.ScriptRNG(choice=choose, mvn=mvn, random=lambda k, us=us: us[min(k, len(us) - 1)])
    try:
        with sr:
            ret = b.measure_dyne(covmat.copy(), [mode], shots=1)
    except _GiveUp:
        ctx.tally("sampler:gave-up")
        return
    except Exception as e:  # noqa: BLE001
        ctx.corr_cases += 1
        ctx.disagree("Measure.accept vs BosonicModes.measure_dyne", case, "a sample", f"raised {type(e).__name__}: {e}")
        return
    ch, mv, rn = sr.calls("choice"), sr.calls("multivariate_normal"), sr.calls("random")
    if not (len(ch) == len(mv) == len(rn)) or len(mv) > 12:
        ctx.corr_cases += 1
        ctx.disagree("Measure.accept vs BosonicModes.measure_dyne", case, "one choice/mvn/random per iteration",
                     [len(ch), len(mv), len(rn)])
        return
    total = len(mv)
    ctx.tally(f"sampler:iterations={min(total, 4)}")
    for k in range(total):
        peak = ch[k]["a"][picks[k % len(picks)] % len(ch[k]["a"])]
        x = mv[k]["mean"] + offs[k % len(offs)]
        # proposal = the chosen peak's marginal + measurement covariance
        if not (np.allclose(mv[k]["mean"], means[peak][ix], atol=1e-12) and np.allclose(mv[k]["cov"], covs[peak][np.ix_(ix, ix)] + covmat, atol=1e-12)):
            ctx.corr_cases += 1
            ctx.disagree("proposal parameters of BosonicModes.measure_dyne", case,
                         dict(mean=means[peak][ix].tolist(), cov=(covs[peak][np.ix_(ix, ix)] + covmat).tolist()),
                         dict(mean=mv[k]["mean"].tolist(), cov=mv[k]["cov"].tolist()))
            break
        fac = _peak_factors(covs, means, ix, covmat, x)
        u = us[min(k, len(us) - 1)]
        pd = sum(w * pf * e for w, (pf, e) in zip(w0, fac))
        ub = sum(abs(w) * pf * e for w, (pf, e) in zip(w0, fac) if not w < 0)
        # the envelope implied by the recorded proposal (Z fixed by the first envelope peak); equals `ub` for the documented weights
        a_k, p_k = [int(i) for i in ch[k]["a"]], np.asarray(ch[k]["p"], dtype=float)
        if a_k and p_k[0] > 0:
            ub = abs(w0[a_k[0]]) / p_k[0] * sum(pj * fac[i][0] * fac[i][1] for pj, i in zip(p_k, a_k))
        if abs(u * ub - pd) < 1e-9 * max(ub, 1e-300):
            continue                                  # too close to the threshold to compare float with exact
        observed = (k == total - 1)
        # property-level: with proposal density envelope/Z the outcome is Born-distributed iff a uniform u is accepted
        # exactly when u < target/envelope (independent evaluation of both densities at the proposed point)
        ctx.oracle_cases += 1
        if observed != (u * ub < pd):
            ctx.fail("sampler-born:accept-test",
                     f"bosonic measure_dyne, mode {mode} of {n}, weights {w0.tolist()}: proposed point {x.tolist()} with uniform draw "
                     f"{u} was {'accepted' if observed else 'rejected'} although target density = {pd:.6g}, envelope = {ub:.6g} "
                     f"(ratio {pd / ub:.6g}): accepted samples are not Born-distributed", dict(kind="sampler", case=case))

        def chk(r, ck=ch[k], observed=observed, w0=w0):
            if list(ck["a"]) != r["ubInd"]:
                return (r["ubInd"], list(ck["a"]))
            mp = np.array([m6.unrat(x_) for x_ in r["ubProb"]])
            if not m6.close(ck["p"], mp, 1e-12):
                return (mp.tolist(), ck["p"].tolist())
            if bool(r["accept"]) != observed:
                return (dict(accept=r["accept"], p=m6.unrat(r["p"]), ub=m6.unrat(r["ub"])), dict(accepted=observed))
            return None
        if B is not None:
            B.add(dict(op="meas.sampler", ws=m6.rvec(w0), u=m6.rat(u),
                       peaks=[[m6.rat(float(w)), m6.rat(pf), m6.rat(e)] for w, (pf, e) in zip(w0, fac)]),
                  "Measure.{ubIndices, ubWeightsProb, accept} vs BosonicModes.measure_dyne (rejection loop)", dict(case, iteration=k), chk)
    # state update for the accepted point
    if n > 1 and B is not None:
        vm = np.asarray(ret)[0]

        def chk2(r, b=b, w0=w0):
            comps = r["comps"]
            mc = np.array([m6.unrmat(c["cov"]) for c in comps])
            mm = np.array([m6.unrvec(c["mean"]) for c in comps])
            wm = _weights_from_model(comps, w0)
            keep = np.abs(wm) > 0
            if not m6.close(b.covs, mc[keep], 1e-8) or not m6.close(b.means, mm[keep], 1e-8) or not m6.close(b.weights, wm[keep], 1e-8):
                return (dict(weights=[complex(x).real for x in wm]), dict(weights=[complex(x).real for x in b.weights]))
            return None
        B.add(dict(op="meas.bosonicPost", sigma=m6.rmat(covmat), vm=m6.rvec(vm), covs=[m6.rmat(V) for V in covs],
                   means=[m6.rvec(r) for r in means], modes=[mode]),
              "Measure.bosonicDyneComp vs BosonicModes.measure_dyne (accepted sample)", case, chk2)




def oracle_sampler_complex(ctx, rng, case=None):
    """bosonic measure_dyne on a state with a conjugate pair of complex-mean, complex-weight peaks (the cat-state
    representation) plus a real peak, generator scripted: every accept / reject decision must be `u · envelope < target`
    with the target density Re Σ w_i N(x; μ_i, Σ_i + σ) and the envelope Σ |w_i| e^{½ μ_Iᵀ W μ_I} N(x; Re μ_i, Σ_i + σ), both
    evaluated here independently; peak-choice probabilities = normalised envelope weights; proposal = the chosen peak with
    the real part of its mean"""
    from strawberryfields.backends.bosonicbackend.bosoniccircuit import BosonicModes
    if case is None:
        n = rng.randint(1, 2)
        mode = rng.randrange(n)
        cov_r, cov_p = m6.rand_cov(rng, 2 * n), m6.rand_cov(rng, 2 * n)
        mu_r = [m6.dy(rng, -4, 4, 4) for _ in range(2 * n)]
        mu_p = [m6.dy(rng, -4, 4, 4) for _ in range(2 * n)]
        nu_p = [m6.dy(rng, -3, 3, 4) for _ in range(2 * n)]
        c = [m6.dy(rng, -2, 2, 8), m6.dy(rng, -2, 2, 8)]
        while c == [0, 0]:
            c = [m6.dy(rng, -2, 2, 8), m6.dy(rng, -2, 2, 8)]        # a pair of weight zero would not be a complex-mean state
        case = dict(n=n, mode=mode, cov_r=cov_r.tolist(), cov_p=cov_p.tolist(), mu_r=mu_r, mu_p=mu_p, nu_p=nu_p, c=c,
                    covmat=(m6.phys_cov(rng, 2) if rng.random() < 0.5 else np.eye(2)).tolist(),
                    offs=[[m6.dy(rng, -6, 6, 4), m6.dy(rng, -6, 6, 4)] for _ in range(4)],
                    us=[rng.choice([0.99, 0.8, 0.4]), rng.choice([0.9, 0.3]), 0.0], picks=[rng.randrange(6) for _ in range(6)])
    n, mode = case["n"], case["mode"]
    cc = complex(*case["c"])
    wr = 1.0 - 2 * cc.real
    weights = np.array([wr, cc, np.conj(cc)], dtype=complex)
    mp = np.array(case["mu_p"]) + 1j * np.array(case["nu_p"])
    means = np.array([np.array(case["mu_r"], dtype=complex), mp, np.conj(mp)])
    covs = np.array([case["cov_r"], case["cov_p"], case["cov_p"]], dtype=complex)
    covmat, offs, us, picks = np.array(case["covmat"]), [np.array(o) for o in case["offs"]], case["us"], case["picks"]
    ix = [2 * mode, 2 * mode + 1]
    rp = dict(kind="samplercx", case=case)
    b = BosonicModes(n)
    b.weights, b.means, b.covs = weights.copy(), means.copy(), covs.copy()
    counter = dict(k=0)

    def mvn(mean, cov):
        if counter["k"] >= 10:
            raise _GiveUp()
        v = mean + offs[counter["k"] % len(offs)]
        counter["k"] += 1
        return v
    sr = m6.ScriptRNG(choice=lambda a, p: a[picks[counter["k"] % len(picks)] % len(a)], mvn=mvn,
                      random=lambda k: us[min(k, len(us) - 1)])
    try:
        with sr:
            b.measure_dyne(covmat.copy(), [mode], shots=1)
    except _GiveUp:
        ctx.tally("samplercx:gave-up")
        return
    except Exception as e:  # noqa: BLE001
        ctx.fail("sampler-born:raises", f"bosonic measure_dyne on a complex-mean mixture raised {type(e).__name__}: {e}", rp)
        return
    ch, mv = sr.calls("choice"), sr.calls("multivariate_normal")
    S = [covs[i][np.ix_(ix, ix)].real + covmat for i in range(3)]
    W = [np.linalg.inv(x_) for x_ in S]
    pref = [1.0 / math.sqrt(np.linalg.det(2 * np.pi * x_)) for x_ in S]
    ubw = np.array([abs(weights[i]) * math.exp(0.5 * means[i][ix].imag @ W[i] @ means[i][ix].imag) for i in range(3)])
    ub_ids = [i for i in range(3) if (abs(means[i][ix].imag).max() > 0) or not (weights[i].imag == 0 and weights[i].real < 0)]
    for k in range(len(mv)):
        ctx.oracle_cases += 1
        pk = np.asarray(ch[k]["p"], dtype=float)
        if [int(i) for i in ch[k]["a"]] != ub_ids or abs(pk.sum() - 1) > 1e-9 or np.any(pk < 0) or pk[0] <= 0:
            ctx.fail("sampler-born:proposal-weights", f"bosonic measure_dyne (complex-mean peaks): peak choice over {list(ch[k]['a'])} with "
                     f"p = {pk.tolist()}; the envelope peaks are {ub_ids}", rp)
            return
        if not np.allclose(pk, ubw[ub_ids] / ubw[ub_ids].sum(), atol=1e-12):
            ctx.tally("samplercx:other-envelope-weights")      # allowed as long as the accept test uses the same envelope (below)
        peak = ch[k]["a"][picks[k % len(picks)] % len(ch[k]["a"])]
        if not (np.allclose(mv[k]["mean"], means[peak][ix].real, atol=1e-12) and np.allclose(mv[k]["cov"], S[peak], atol=1e-12)):
            ctx.fail("sampler-born:proposal", f"bosonic measure_dyne (complex-mean peaks): proposal N({mv[k]['mean'].tolist()}, ...) for peak {peak}, "
                     f"expected mean {means[peak][ix].real.tolist()} and cov {S[peak].tolist()}", rp)
            return
        x = mv[k]["mean"] + offs[k % len(offs)]
        pd = sum((weights[i] * pref[i] * np.exp(-0.5 * (x - means[i][ix]) @ W[i] @ (x - means[i][ix]))) for i in range(3)).real
        # envelope implied by the proposal: Z · Σ p_i N(x; Re μ_i, S_i) with Z fixed by the real peak 0 (|w_0| = Z p_0);
        # any such envelope gives Born-distributed samples iff it dominates the target and the accept test is u·envelope < target
        Z = abs(weights[0]) / pk[0]
        ub = Z * sum(pk[j] * pref[i] * math.exp(-0.5 * (x - means[i][ix].real) @ W[i] @ (x - means[i][ix].real))
                     for j, i in enumerate(ub_ids))
        if pd > ub * (1 + 1e-9) + 1e-15:
            ctx.fail("sampler-born:not-dominated", f"bosonic measure_dyne (complex-mean peaks): at the proposed point {x.tolist()} the target density "
                     f"{pd:.6g} exceeds the envelope {ub:.6g} implied by the proposal", rp)
            return
        u = us[min(k, len(us) - 1)]
        if abs(u * ub - pd) < 1e-9 * max(ub, 1e-300):
            continue
        observed = (k == len(mv) - 1)
        if observed != (u * ub < pd):
            ctx.fail("sampler-born:accept-test", f"bosonic measure_dyne (complex-mean peaks, weights {weights.tolist()}): proposed point {x.tolist()} "
                     f"with uniform draw {u} was {'accepted' if observed else 'rejected'} although target = {pd:.6g}, envelope = {ub:.6g}", rp)
            return


class _Stub:
    """scripted measurement results: entry (shot, position j in the command) of call number c is a unique tag"""

    def __init__(self):
        self.calls = []

    def result(self, modes, shots, kind):
        c = len(self.calls)
        modes = [modes] if isinstance(modes, (int, np.integer)) else list(modes)
        val = np.array([[1000 * (c + 1) + 10 * s + j for j in range(len(modes))] for s in range(shots)])
        self.calls.append(dict(kind=kind, regs=[int(m) for m in modes], val=val.tolist()))
        return val


def _stub_backend(eng, stub):
    be = eng.backend
    be.measure_fock = lambda modes, shots=1, select=None, **kw: stub.result(modes, shots, "fock")
    be.measure_threshold = lambda modes, shots=1, select=None, **kw: stub.result(modes, shots, "threshold")
    be.measure_homodyne = lambda phi, mode, shots=1, select=None, **kw: stub.result(mode, shots, "homodyne").astype(float)
    be.measure_heterodyne = lambda mode, shots=1, select=None, **kw: stub.result(mode, shots, "heterodyne")


def scrambled(rng, n, k):
    """k distinct modes of range(n); when k >= 2 mostly NOT in ascending order (ascending is what the tests cover)"""
    regs = rng.sample(range(n), k)
    if k >= 2 and regs == sorted(regs) and rng.random() < 0.8:
        regs = regs[1:] + regs[:1] if rng.random() < 0.5 else regs[::-1]
    return regs


def gen_meas_program(rng, n, holes=False):
    """a program of gates and several measurement commands (multi-mode in scrambled order, repeated modes); with
    `holes`, a mode is deleted first and modes created later are measured too"""
    ops = []
    live = list(range(n))
    if holes and n >= 3:
        d = rng.sample(range(n - 1), rng.choice([1, 1, 2]))
        ops.append(dict(cls="Del", regs=d, pars=[]))
        live = [i for i in live if i not in d]
        if rng.random() < 0.6:
            k = rng.randint(1, 2)
            ops.append(dict(cls="New", regs=list(range(n, n + k)), pars=[]))
            live += list(range(n, n + k))
        return dict(n=n, ops=ops + _meas_cmds(rng, live), live=live)
    return dict(n=n, ops=_meas_cmds(rng, live), live=live)


def _meas_cmds(rng, live):
    ops = []
    pick = lambda k: [live[i] for i in scrambled(rng, len(live), k)]
    for _ in range(rng.randint(1, 4)):
        u = rng.random()
        if u < 0.55:
            ops.append(dict(cls=rng.choice(["MeasureFock", "MeasureFock", "MeasureThreshold"]),
                            regs=pick(rng.randint(1, min(len(live), 3))), pars=[]))
        elif u < 0.8:
            ops.append(dict(cls="MeasureHomodyne", regs=[rng.choice(live)], pars=[rng.choice([0.0, 0.5])]))
        else:
            ops.append(dict(cls="MeasureHeterodyne", regs=[rng.choice(live)], pars=[]))
        if rng.random() < 0.4:
            ops.append(dict(cls="Rgate", regs=[rng.choice(live)], pars=[0.25]))
    return ops


def run_stubbed(sf, spec, shots, backend="gaussian", shared=False):
    prog, _ = progs.build(spec, op_cache={} if shared else None)
    eng = sf.Engine(backend, backend_options=dict(cutoff_dim=3) if backend == "fock" else {})
    stub = _Stub()
    eng._init_backend(prog.init_num_subsystems) if False else None
    # the engine creates the circuit in run(); stub the API methods of the backend object first
    _stub_backend(eng, stub)
    res = eng.run(prog, shots=shots)
    regvals = {r.ind: (None if r.val is None else np.asarray(r.val).tolist()) for r in eng.run_progs[-1].reg_refs.values()}
    return res, stub, regvals


def layout_expect(calls):
    """independent statement of the property: one row per shot, one column per measured mode in ascending mode
    order, holding the latest outcome of that mode; samples_dict keeps every outcome in measurement order"""
    latest, allv = {}, {}
    for c in calls:
        for j, m in enumerate(c["regs"]):
            col = [row[j] for row in c["val"]]
            latest[m] = col
            allv.setdefault(m, []).append(col)
    modes = sorted(latest)
    shots = len(calls[0]["val"]) if calls else 0
    samples = [[latest[m][s] for m in modes] for s in range(shots)]
    return samples, allv, latest


def check_layout(ctx, sf, spec, shots, backend, B=None, shared=False):
    res, stub, regvals = run_stubbed(sf, spec, shots, backend, shared=shared)
    calls = stub.calls
    samples = np.asarray(res.samples)
    sd = {int(k): [np.asarray(a).tolist() for a in v] for k, v in (res.samples_dict or {}).items()}
    exp_s, exp_all, latest = layout_expect(calls)
    rp = dict(kind="layout", spec=spec, shots=shots, backend=backend, shared=shared)
    ctx.oracle_cases += 1
    got = np.real(samples).tolist() if samples.size else []
    if calls and (samples.shape != (shots, len(latest)) or got != exp_s):
        ctx.fail("samples-layout:rows-columns",
                 f"Result.samples {got} (shape {samples.shape}) is not one row per shot with the columns in ascending mode "
                 f"order {exp_s}; measurements {[(c['kind'], c['regs']) for c in calls]} shots={shots} on {backend}", rp)
    if calls and {k: [np.real(a).tolist() for a in v] for k, v in sd.items()} != {k: v for k, v in exp_all.items()}:
        ctx.fail("samples-layout:samples_dict", f"Result.samples_dict {sd} differs from the outcomes per mode {exp_all}; "
                 f"measurements {[(c['kind'], c['regs']) for c in calls]} on {backend}", rp)
    for m, col in latest.items():
        if regvals.get(m) is None or np.real(np.asarray(regvals[m])).tolist() != col:
            ctx.fail("samples-layout:regref-val", f"RegRef q[{m}].val = {regvals.get(m)} but the latest outcome of mode {m} is {col}; "
                     f"measurements {[(c['kind'], c['regs']) for c in calls]} on {backend}", rp)
            break
    if B is not None and calls:
        evs = [dict(regs=c["regs"], val=c["val"]) for c in calls]
        B.add(dict(op="meas.collate", events=evs), "Measure.combineAndSort/runSamples vs LocalEngine._run_program", rp,
              lambda r, got=got, sd=sd: None if r["samples"] == [[int(x) for x in row] for row in got] and
              {int(k): v for k, v in r["dict"]} == {k: [[int(np.real(x)) for x in a] for a in v] for k, v in sd.items()}
              else (dict(samples=r["samples"], dict=r["dict"]), dict(samples=got, dict=sd)))


def corr_engine(ctx, B, sf):
    rng = ctx.rng
    for it in range(ctx.n(60, 600)):
        backend = rng.choice(["gaussian", "gaussian", "fock", "bosonic"])
        big = backend == "gaussian" and it % 4 == 0         # multi-digit mode indices: 10 sorts after 2
        holes = backend in ("gaussian", "fock") and it % 3 == 0
        n = rng.randint(11, 13) if big else rng.randint(2, 5) if not holes else rng.randint(3, 5)
        spec = gen_meas_program(rng, n, holes=holes)
        if big:                                              # make sure a two-digit and a one-digit index meet in one command
            lv = spec["live"]
            spec["ops"].append(dict(cls="MeasureFock", pars=[], regs=[rng.choice([m for m in lv if m >= 10]),
                                                                      rng.choice([m for m in lv if 2 <= m <= 9])]))
        ctx.tally("layout:holes" if holes else "layout:contiguous")
        shots = rng.choice([1, 1, 2, 4]) if backend == "gaussian" else 1
        if backend == "bosonic":
            for o in spec["ops"]:
                if o["cls"] == "MeasureFock":
                    o["cls"] = "MeasureThreshold"
        if backend == "fock":
            spec["ops"] = [o for o in spec["ops"] if o["cls"] not in ("MeasureHeterodyne", "MeasureThreshold")] or \
                [dict(cls="MeasureFock", regs=[n - 1, 0], pars=[])]
        meas = [o for o in spec["ops"] if progs.category(o["cls"]) == "meas"]
        nt = any(o["regs"] != sorted(o["regs"]) for o in meas) or len(meas) >= 2
        ctx.count(f"layout:{backend}", dict(spec=spec, shots=shots), nt, sample=dict(spec=spec, shots=shots, backend=backend))
        if it % 5 == 0:                                      # the same measurement objects shared by the commands
            shared = True
        else:
            shared = False
        check_layout(ctx, sf, spec, shots, backend, B if ctx.proof_ok else None, shared=shared)
    # _combine_and_sort_samples directly (dictionary in scrambled insertion order)
    eng = sf.Engine("gaussian")
    for it in range(ctx.n(30, 300)):
        modes = rng.sample(range(14), rng.randint(1, 5))
        shots = rng.randint(1, 3)
        d, evs = {}, []
        for t in range(rng.randint(1, 2)):
            for m in (modes if t == 0 else rng.sample(modes, rng.randint(1, len(modes)))):
                col = [rng.randint(0, 99) for _ in range(shots)]
                d.setdefault(m, []).append(np.array(col))
                evs.append(dict(regs=[m], val=[[x] for x in col]))
        s, d2 = eng._combine_and_sort_samples({k: list(v) for k, v in d.items()})
        case = dict(kind="combine", d={k: [a.tolist() for a in v] for k, v in d.items()})
        ctx.count("corr:engine:combine", case, len(modes) >= 2 and modes != sorted(modes))
        if ctx.proof_ok:
            B.add(dict(op="meas.collate", events=evs), "Measure.combineAndSort vs LocalEngine._combine_and_sort_samples", case,
                  lambda r, s=s: None if r["samples"] == np.asarray(s).tolist() else (r["samples"], np.asarray(s).tolist()))


# =================================================================== (b) oracle

def _prefix(rng, n, mixed=True, scale=1.0):
    ops = sim.correlated_prefix(rng, n)
    if not mixed:
        ops = [o for o in ops if o["cls"] != "LossChannel"]
    if scale != 1.0:
        for o in ops:
            if o["cls"] in ("Sgate", "Dgate"):
                o["pars"][0] = round(o["pars"][0] * scale, 3)
    return ops


def _moments(sf, state, backend, hbar):
    if backend == "gaussian":
        return sim.moments_gaussian(state, hbar)
    if backend == "bosonic":
        return sim.moments_bosonic(state, hbar)
    return sim.moments_fock(state)[:3]


class SFRaised(Exception):
    """the simulator raised something other than a documented refusal while executing a measurement program"""

    def __init__(self, exc, backend):
        super().__init__(f"{type(exc).__name__}: {exc}")
        self.exc, self.backend = exc, backend


def _run(sf, spec, backend, hbar=2.0, cutoff=None, script=None, shots=None):
    """run a spec; returns (Result, engine, moments)"""
    with m6.hbar_set(sf, hbar):
        prog, _ = progs.build(spec)
        eng = sf.Engine(backend, backend_options=dict(cutoff_dim=cutoff) if backend == "fock" else {})
        kw = {} if shots is None else dict(shots=shots)
        try:
            if script is not None:
                with script:
                    res = eng.run(prog, **kw)
            else:
                res = eng.run(prog, **kw)
        except (NotImplementedError, ZeroDivisionError):
            raise
        except Exception as e:  # noqa: BLE001
            raise SFRaised(e, backend)
        mom = _moments(sf, res.state, backend, hbar)
    return res, eng, mom


def _meas_op(kind, mode, phi=None, select=None):
    if kind == "homodyne":
        return dict(cls="MeasureHomodyne", regs=[mode], pars=[phi], select=select)
    return dict(cls="MeasureHeterodyne", regs=[mode], pars=[], select=select)


ZERO_FORMS = dict(homodyne=["int", "float", "negfloat"], heterodyne=["int", "float", "complex", "negcomplex"])


def zero_value(form):
    """post-selection on exactly zero, in every form a user may write it (all are falsy in Python, all are valid outcomes)"""
    return {"int": 0, "float": 0.0, "negfloat": -0.0, "complex": 0j, "negcomplex": complex(-0.0, 0.0)}[form]


def make_zero(rng, case):
    """turn a generated post-selection case into one that heralds on the value 0"""
    case["zero"] = rng.choice(ZERO_FORMS[case["kind"]])
    case["outcome"] = 0.0 if case["kind"] == "homodyne" else [0.0, 0.0]
    return case


def check_postselected_protocol(ctx, rp, backend, kind, sel, res, eng, mode, script, what):
    """what the property demands of ANY post-selected measurement besides the conditional state: the reported sample and the
    RegRef value are the selected value itself, and the random generator is not consulted (the only documented draw is the
    unobserved conjugate quadrature in the Gaussian finite-squeezing homodyne)"""
    samples = np.asarray(res.samples)
    if samples.shape != (1, 1) or not (samples[0, 0] == sel or abs(samples[0, 0] - sel) <= 1e-12 * max(1.0, abs(sel))):
        ctx.fail(f"dyne-select-returned:{kind}:{backend}", f"{backend}: {what}: post-selected value {sel!r} reported as {samples.tolist()}", rp)
    val = eng.run_progs[-1].reg_refs[mode].val
    v = None if val is None else np.asarray(val).ravel()
    if v is None or v.shape != (1,) or not (v[0] == sel or abs(v[0] - sel) <= 1e-12 * max(1.0, abs(sel))):
        ctx.fail(f"select-regref:{kind}:{backend}", f"{backend}: {what}: RegRef q[{mode}].val = {val!r} after post-selecting {sel!r}", rp)
    if script is not None:
        allowed = {"normal"} if (backend == "gaussian" and kind == "homodyne") else set()
        draws = [c["fn"] for c in script.log if c["fn"] not in allowed]
        if draws or len(script.calls("normal")) > 1:
            ctx.fail(f"select-consults-rng:{kind}:{backend}", f"{backend}: {what}: a post-selected measurement drew from the random generator "
                     f"({[c['fn'] for c in script.log]}): the outcome is not the one that was selected", rp)


def oracle_dyne_case(ctx, sf, case):
    """post-select a homodyne / heterodyne outcome on every back end; compare the full post-measurement state
    (unmeasured modes conditional, measured mode vacuum) with the independent reference"""
    n, m, kind, hbar, backend = case["n"], case["mode"], case["kind"], case["hbar"], case["backend"]
    pre = dict(n=n, ops=case["prefix"])
    ref = sim.reference(pre, hbar)
    sc = math.sqrt(hbar / 2)
    if kind == "homodyne":
        out2 = case["outcome"]                               # hbar = 2 units
        sel = out2 * sc if not case.get("zero") else zero_value(case["zero"])
        refc = m6.ref_condition(ref, m, "homodyne", out2, case["phi"])
        op = _meas_op("homodyne", m, case["phi"], sel)
    else:
        al = complex(*case["outcome"])
        sel = al if not case.get("zero") else zero_value(case["zero"])
        refc = m6.ref_condition(ref, m, "heterodyne", al)
        op = _meas_op("heterodyne", m, select=sel)
    spec = dict(n=n, ops=case["prefix"] + [op])
    if case.get("zero"):
        ctx.tally(f"select-zero:{kind}:{backend}:{case['zero']}")
    want = refc.alpha_N_M()
    if hasattr(ref, "active") and ref.active != list(range(ref.n)):
        want = sim.restrict_moments(want, ref.active)      # register with holes: the state lists the live modes, ascending
    rp = dict(kind="dyne", case=case)
    ctx.oracle_cases += 1
    script = m6.ScriptRNG()           # the p-quadrature draw of the Gaussian post_select_homodyne: its mean
    if backend != "fock":
        res, eng, got = _run(sf, spec, backend, hbar, script=script)
        d = sim.moment_dist(got, want)
        tol = 2e-6
        bad = d > tol
    else:
        D = case.get("cutoff", 10)
        res, eng, got = _run(sf, spec, backend, hbar, cutoff=D, script=script)
        d = sim.moment_dist(got, want)
        bad = False
        if d > 2e-4:
            _, _, got2 = _run(sf, spec, backend, hbar, cutoff=D + 6)
            d2 = sim.moment_dist(got2, want)
            ctx.tally("fock:escalated")
            bad = d2 > max(2e-5, d / 2)
            d = d2 if bad else d
    samples = np.asarray(res.samples)
    if bad:
        ctx.fail(f"dyne-conditional:{kind}:{backend}",
                 f"{backend}: state after Measure{kind.capitalize()}(select={sel}) on mode {m} of {n} (phi={case.get('phi')}, "
                 f"hbar={hbar}) differs from the conditional state by {d:.3g} in (alpha, N, M)", rp)
    check_postselected_protocol(ctx, rp, backend, kind, sel, res, eng, m, script,
                                f"Measure{kind.capitalize()}(select={sel!r}) on mode {m} of {n} (phi={case.get('phi')}, hbar={hbar})")


def gen_dyne_case(rng, backend, kind):
    n = rng.randint(2, 4) if backend != "fock" else rng.randint(2, 3)
    if backend != "fock" and rng.random() < 0.12:
        n = 1                       # no spectator: everything that exists is measured
    m = rng.randrange(n)
    hbar = rng.choice([2.0, 2.0, 1.0, 0.5, 4.5])
    prefix = _prefix(rng, n, mixed=(backend != "fock" or n == 2), scale=0.7 if backend == "fock" else 1.0)
    ref = sim.reference(dict(n=n, ops=prefix), hbar)
    mu, V = m6.ref_marginal(ref, [m])
    case = dict(n=n, mode=m, kind=kind, hbar=hbar, backend=backend, prefix=prefix)
    if kind == "homodyne":
        phi = rng.choice([0.0, math.pi / 2, round(rng.uniform(-3.1, 3.1), 3), round(rng.uniform(-3.1, 3.1), 3)])
        u = np.array([math.cos(phi), math.sin(phi)])
        case.update(phi=phi, outcome=round(float(u @ mu) + rng.uniform(-1.2, 1.2) * math.sqrt(float(u @ V @ u)), 3))
    else:
        case.update(outcome=[round(float(mu[0]) / 2 + rng.uniform(-0.5, 0.5), 3), round(float(mu[1]) / 2 + rng.uniform(-0.5, 0.5), 3)])
    if backend == "fock":
        case["cutoff"] = 10 if n == 3 else 12
    return case


def gen_holes_case(rng, backend, kind):
    """register with a hole (and possibly a late mode): subsystem index != position in the simulator"""
    n = 3 if backend == "fock" else rng.randint(3, 4)
    ops_ = _prefix(rng, n, mixed=(backend != "fock"), scale=0.7 if backend == "fock" else 1.0)
    d = rng.randrange(n - 1) if rng.random() < 0.7 else rng.randrange(n)      # mostly a hole *below* other modes
    ops_.append(dict(cls="Del", regs=[d], pars=[]))
    alive = [i for i in range(n) if i != d]
    if rng.random() < 0.6:
        ops_.append(dict(cls="New", regs=[n], pars=[]))
        ops_.append(dict(cls="Sgate", regs=[n], pars=[round(rng.uniform(0.1, 0.3), 3), sim.angle(rng)]))
        a = rng.choice(alive)
        ops_.append(dict(cls="BSgate", regs=rng.choice([[n, a], [a, n]]), pars=[round(rng.uniform(0.4, 1.1), 3), sim.angle(rng)]))
        alive.append(n)
    above = [i for i in alive if i > d]
    m = rng.choice(above) if above and rng.random() < 0.8 else rng.choice(alive)
    hbar = rng.choice([2.0, 1.0])
    ref = sim.reference(dict(n=n, ops=ops_), hbar)
    mu, V = m6.ref_marginal(ref, [m])
    case = dict(n=n, mode=m, kind=kind, hbar=hbar, backend=backend, prefix=ops_, holes=True)
    if kind == "homodyne":
        phi = rng.choice([0.0, round(rng.uniform(-3.1, 3.1), 3)])
        u = np.array([math.cos(phi), math.sin(phi)])
        case.update(phi=phi, outcome=round(float(u @ mu) + rng.uniform(-1.0, 1.0) * math.sqrt(float(u @ V @ u)), 3))
    else:
        case.update(outcome=[round(float(mu[0]) / 2 + rng.uniform(-0.4, 0.4), 3), round(float(mu[1]) / 2 + rng.uniform(-0.4, 0.4), 3)])
    if backend == "fock":
        case["cutoff"] = 9
    return case


def oracle_sample_case(ctx, sf, case):
    """unselected homodyne / heterodyne with the generator scripted: (1) the arguments handed to the generator are
    the Born marginal of the measured quadratures (+ measurement noise), (2) the reported value is the drawn
    phase-space point in the user's units, (3) the state afterwards is the conditional state of *that* value"""
    n, m, kind, hbar, backend = case["n"], case["mode"], case["kind"], case["hbar"], case["backend"]
    ref = sim.reference(dict(n=n, ops=case["prefix"]), hbar)
    sc = math.sqrt(hbar / 2)
    phi = case.get("phi", 0.0)
    op = _meas_op(kind, m, phi)
    op.pop("select")
    spec = dict(n=n, ops=case["prefix"] + [op])
    script = m6.ScriptRNG(mvn_offset=case["off"])
    res, eng, got = _run(sf, spec, backend, hbar, script=script)
    rp = dict(kind="sample", case=case)
    ctx.oracle_cases += 1
    calls = script.calls("multivariate_normal")
    if len(calls) != 1:
        ctx.fail(f"dyne-rng:{kind}:{backend}:calls", f"{backend}: {len(calls)} calls of multivariate_normal for one measurement", rp)
        return
    # Born marginal in the rotated frame: x_phi, p_phi of mode m
    mu, V = m6.ref_marginal(ref, [m])
    R = np.array([[math.cos(phi), math.sin(phi)], [-math.sin(phi), math.cos(phi)]])
    mu_r, V_r = R @ mu, R @ V @ R.T
    eps = 0.0002
    sigma = np.diag([eps ** 2, 1 / eps ** 2]) if kind == "homodyne" else np.eye(2)
    cm, cc = calls[0]["mean"], calls[0]["cov"]
    if not (np.allclose(cm, mu_r, atol=1e-8) and np.allclose(cc, V_r + sigma, rtol=1e-9, atol=1e-8)):
        ctx.fail(f"dyne-rng:{kind}:{backend}:args",
                 f"{backend}: Measure{kind.capitalize()} on mode {m} of {n} (phi={phi}) draws from N({cm.tolist()}, {cc.tolist()}) "
                 f"but the Born marginal (+ measurement noise) is N({mu_r.tolist()}, {(V_r + sigma).tolist()})", rp)
    vm = cm + np.asarray(case["off"], dtype=float)
    samples = np.asarray(res.samples)
    if kind == "homodyne":
        want_val = vm[0] * sc
        refc = m6.ref_condition(ref, m, "homodyne", float(vm[0]), phi)
    else:
        want_val = complex(vm[0], vm[1]) / 2
        refc = m6.ref_condition(ref, m, "heterodyne", want_val)
    if samples.shape != (1, 1) or abs(samples[0, 0] - want_val) > 1e-9 * max(1, abs(want_val)):
        ctx.fail(f"dyne-returned:{kind}:{backend}", f"{backend}: drawn phase-space point {vm.tolist()} (hbar=2 units) reported as "
                 f"{samples.tolist()} instead of {want_val} (hbar={hbar})", rp)
    want = refc.alpha_N_M()
    if hasattr(ref, "active") and ref.active != list(range(ref.n)):
        want = sim.restrict_moments(want, ref.active)
    d = sim.moment_dist(got, want)
    if d > 2e-6:
        ctx.fail(f"dyne-conditional-sampled:{kind}:{backend}", f"{backend}: state after Measure{kind.capitalize()} on mode {m} of {n} "
                 f"with drawn outcome {vm.tolist()} differs from the conditional state of that outcome by {d:.3g}", rp)


def oracle_cat_case(ctx, sf, case):
    """non-Gaussian input (cat state): post-selected homodyne / heterodyne on bosonic vs Fock (re-weighting of peaks)"""
    a, kind, hbar = case["a"], case["kind"], case["hbar"]
    ops_ = [dict(cls="Catstate", regs=[0], pars=[a, 0.0, case["p"]]),
            dict(cls="Sgate", regs=[1], pars=[case["r"], 0.0]),
            dict(cls="BSgate", regs=case["bs_regs"], pars=[case["theta"], case["bsphi"]])]
    m = case["mode"]
    sc = math.sqrt(hbar / 2)
    if kind == "homodyne":
        op = _meas_op("homodyne", m, case["phi"], case["outcome"] * sc)
    else:
        op = _meas_op("heterodyne", m, select=complex(*case["outcome"]))
    spec = dict(n=2, ops=ops_ + [op])
    rp = dict(kind="cat", case=case)
    ctx.oracle_cases += 1
    _, _, gb = _run(sf, spec, "bosonic", hbar)
    D = 16
    _, _, gf = _run(sf, spec, "fock", hbar, cutoff=D)
    d = sim.moment_dist(gb, gf)
    if d > 5e-4:
        _, _, gf2 = _run(sf, spec, "fock", hbar, cutoff=D + 8)
        d2 = sim.moment_dist(gb, gf2)
        ctx.tally("fock:escalated")
        if d2 > max(5e-5, d / 2):
            ctx.fail(f"dyne-conditional:{kind}:bosonic-vs-fock:cat",
                     f"cat state a={a} through a beamsplitter, Measure{kind.capitalize()} select on mode {m}: bosonic and fock "
                     f"conditional states differ by {d2:.3g} (cutoff {D + 8}; {d:.3g} at {D})", rp)


def _fock_state_of(sf, spec, cutoff, pure=True, script=None):
    """run on the Fock back end; here every exception counts (the callers only ask for outcomes of non-zero probability)"""
    prog, _ = progs.build(spec)
    eng = sf.Engine("fock", backend_options=dict(cutoff_dim=cutoff, pure=pure))
    try:
        if script is not None:
            with script:
                res = eng.run(prog)
        else:
            res = eng.run(prog)
    except Exception as e:  # noqa: BLE001
        raise SFRaised(e, "fock")
    return res, sim.dm_of(res.state), eng


def oracle_fock_case(ctx, sf, case):
    """MeasureFock on the Fock back end, measured modes in any order: with `select`, the post state is the
    projection on exactly those photon numbers; without, the generator is scripted: the probability with which the
    returned outcome was drawn is its Born probability, and the post state is the projection on the returned outcome"""
    n, D, pure = case["n"], case["cutoff"], case["pure"]
    pre = dict(n=n, ops=case["prefix"])
    _, rho0, _ = _fock_state_of(sf, pre, D, pure)
    # register with holes: the state object lists the live modes in ascending order
    alive = [m for m in range(n) if m not in case.get("deleted", [])]
    posn = {m: alive.index(m) for m in alive}
    true_regs = case["regs"]
    regs = [posn[m] for m in true_regs]            # positions in the returned state, used by the reference projection
    n = len(alive)
    rp = dict(kind="fock", case=case)
    ctx.oracle_cases += 1
    if case.get("select") is not None:
        sel = case["select"]
        want, p = m6.fock_project(rho0, n, dict(zip(regs, sel)))
        spec = dict(n=case["n"], ops=case["prefix"] + [dict(cls="MeasureFock", regs=true_regs, pars=[], select=sel)])
        if p < 1e-9:
            return
        script0 = m6.ScriptRNG()
        res, rho1, eng0 = _fock_state_of(sf, spec, D, pure, script=script0)
        outcome = dict(zip(regs, sel))
        if script0.log:
            ctx.fail("select-consults-rng:fock:fock", f"MeasureFock(select={sel}) | {true_regs} drew from the random generator "
                     f"({[c['fn'] for c in script0.log]})", rp)
        vals = [eng0.run_progs[-1].reg_refs[m].val for m in true_regs]
        if any(v is None for v in vals) or [int(np.real(np.asarray(v).ravel()[0])) for v in vals] != list(sel):
            ctx.fail("select-regref:fock:fock", f"MeasureFock(select={sel}) | {true_regs}: RegRef values {vals}", rp)
        if all(v == 0 for v in sel):
            ctx.tally("select-zero:fock:fock")
    else:
        spec = dict(n=case["n"], ops=case["prefix"] + [dict(cls="MeasureFock", regs=true_regs, pars=[])])
        pick = case["pick"]

        def chooser(a, p, pick=pick):
            idx = [i for i in range(len(a)) if p[i] > 1e-7]
            return a[idx[pick % len(idx)]]
        script = m6.ScriptRNG(choice=chooser)
        res, rho1, _ = _fock_state_of(sf, spec, D, pure, script=script)
        calls = script.calls("choice")
        if len(calls) != 1:
            ctx.fail("fock-rng:calls", f"{len(calls)} calls of numpy.random.choice for one MeasureFock", rp)
            return
        # returned outcome per mode, read from samples_dict
        outcome = {posn[m]: int(np.real(res.samples_dict[m][-1][0])) for m in true_regs}
        want, p = m6.fock_project(rho0, n, outcome)
        pvec = calls[0]["p"]
        drawn = calls[0]["a"].index(chooser(calls[0]["a"], pvec))
        tot = float(np.real(np.einsum("".join(chr(97 + i) * 2 for i in range(n)), rho0)))
        if abs(pvec[drawn] - p / tot) > 1e-7:
            ctx.fail("fock-born:probability",
                     f"MeasureFock | {regs} (n={n}, cutoff {D}): outcome {outcome} was drawn with probability {pvec[drawn]:.6g} "
                     f"but its Born probability is {p / tot:.6g}", rp)
        if abs(float(np.sum(pvec)) - 1) > 1e-7:
            ctx.fail("fock-born:normalisation", f"probabilities handed to choice sum to {float(np.sum(pvec))}", rp)
    # samples: one row, columns ascending mode order
    samples = np.real(np.asarray(res.samples)).astype(int).tolist()
    exp_row = [outcome[m] for m in sorted(regs)]
    if samples != [exp_row]:
        ctx.fail("fock-samples:order", f"MeasureFock | {regs} with outcome per mode {outcome}: Result.samples = {samples}, "
                 f"expected {[exp_row]} (ascending mode order)", rp)
    d = float(np.max(np.abs(rho1 - want)))
    if d > 1e-7:
        ctx.fail("fock-conditional:" + ("select" if case.get("select") is not None else "sampled"),
                 f"MeasureFock | {regs} (n={n}, cutoff {D}, pure={pure}) outcome {outcome}: post-measurement state differs from the "
                 f"projected, reset state by {d:.3g}", rp)


def gen_fock_case(rng, selected):
    n = rng.randint(2, 4)
    D = rng.choice([4, 5]) if n <= 3 else 4
    k = rng.randint(1, n) if rng.random() < 0.3 else rng.randint(2, n)
    regs = scrambled(rng, n, k)
    pure = rng.random() < 0.6 or n == 4
    ops_ = []
    for m in range(n):
        u = rng.random()
        if u < 0.5:
            ops_.append(dict(cls="Fock", regs=[m], pars=[rng.randint(0, 2)]))
        else:
            ops_.append(dict(cls="Sgate", regs=[m], pars=[round(rng.uniform(0.2, 0.5), 3), sim.angle(rng)]))
            ops_.append(dict(cls="Dgate", regs=[m], pars=[round(rng.uniform(0.1, 0.5), 3), sim.angle(rng)]))
    for _ in range(rng.randint(1, n)):
        a, b = rng.sample(range(n), 2)
        ops_.append(dict(cls="BSgate", regs=[a, b], pars=[round(rng.uniform(0.3, 1.2), 3), sim.angle(rng)]))
    if not pure:
        ops_.append(dict(cls="LossChannel", regs=[rng.randrange(n)], pars=[0.7]))
    case = dict(n=n, cutoff=D, regs=regs, pure=pure, prefix=ops_)
    if n >= 3 and rng.random() < 0.35:           # delete a mode that is not the highest: later indices != positions
        d = rng.randrange(n - 1)
        case["deleted"] = [d]
        case["prefix"] = ops_ + [dict(cls="Del", regs=[d], pars=[])]
        case["regs"] = [m for m in regs if m != d] or [n - 1]
        regs = case["regs"]
    if selected:
        case["select"] = [rng.randint(0, 2) for _ in regs]
        u = rng.random()
        if u < 0.25:
            case["select"] = [0 for _ in regs]                     # heralding on vacuum: [0], [0, 0], ...
        elif u < 0.4:
            case["select"][rng.randrange(len(regs))] = D - 1       # the highest photon number the cutoff can represent
    else:
        case["pick"] = rng.randrange(50)
    return case


def oracle_threshold_case(ctx, sf, case):
    """MeasureThreshold: gaussian -> (mu, cov) handed to the torontonian sampler are the reduced state of the measured
    modes in the order given; bosonic -> the click probabilities handed to numpy.random.choice are the conditional
    Born probabilities, and the state afterwards is the conditional state of the scripted pattern"""
    n, regs, backend, hbar = case["n"], case["regs"], case["backend"], case["hbar"]
    pre = dict(n=n, ops=case["prefix"])
    ref = sim.reference(pre, hbar)
    spec = dict(n=n, ops=case["prefix"] + [dict(cls=case.get("cls", "MeasureThreshold"), regs=regs, pars=[])])
    rp = dict(kind="threshold", case=case)
    ctx.oracle_cases += 1
    if backend == "gaussian":
        import strawberryfields.backends.gaussianbackend.backend as gb
        log = []
        shots = case.get("shots", 1)

        def fake_tor(mu=None, cov=None, samples=1, **kw):
            log.append(dict(fn="torontonian", mu=np.array(mu, dtype=float), cov=np.array(cov, dtype=float), samples=samples))
            return np.array([[10 * s + j for j in range(len(mu) // 2)] for s in range(samples)])

        def fake_haf(cov, samples=1, mean=None, **kw):
            k = len(cov) // 2
            log.append(dict(fn="hafnian", mu=np.zeros(2 * k) if mean is None else np.array(mean, dtype=float),
                            cov=np.array(cov, dtype=float), samples=samples))
            return np.array([[10 * s + j for j in range(k)] for s in range(samples)])
        old = gb.torontonian_sample_state, gb.hafnian_sample_state
        gb.torontonian_sample_state, gb.hafnian_sample_state = fake_tor, fake_haf
        try:
            with m6.hbar_set(sf, hbar):
                prog, _ = progs.build(spec)
                res = sf.Engine("gaussian").run(prog, shots=shots)
        finally:
            gb.torontonian_sample_state, gb.hafnian_sample_state = old
        mu, V = m6.ref_marginal(ref, regs)
        if len(log) != 1 or log[0]["samples"] != shots or not np.allclose(log[0]["mu"], mu, atol=1e-8) or \
                not np.allclose(log[0]["cov"], V, atol=1e-8):
            got = [(c["mu"].tolist(), c["cov"].tolist()) for c in log]
            ctx.fail(f"discrete-rng:gaussian:{spec['ops'][-1]['cls']}",
                     f"gaussian {spec['ops'][-1]['cls']} | {regs} of {n}: sampler received {got}, the reduced state of the measured "
                     f"modes (in the order given, hbar=2) is {(mu.tolist(), V.tolist())}", rp)
        exp = [[10 * s + regs.index(m) for m in sorted(regs)] for s in range(shots)]
        if np.asarray(res.samples).tolist() != exp:
            ctx.fail("samples-layout:rows-columns", f"gaussian {spec['ops'][-1]['cls']} | {regs} shots={shots}: samples "
                     f"{np.asarray(res.samples).tolist()} expected {exp}", rp)
        return
    # bosonic: scripted clicks
    pattern = case["pattern"]
    it = iter(pattern)
    script = m6.ScriptRNG(choice=lambda a, p: next(it))
    res, eng, got = _run(sf, spec, "bosonic", hbar, script=script)
    calls = script.calls("choice")
    if len(calls) != len(regs):
        ctx.fail("threshold-rng:bosonic:calls", f"{len(calls)} draws for {len(regs)} measured modes", rp)
        return
    done = {}
    for j, (m, v) in enumerate(zip(regs, pattern)):
        p_prev = m6.threshold_pattern_prob(ref, done)
        p0 = m6.threshold_pattern_prob(ref, {**done, m: 0}) / p_prev
        pv = calls[j]["p"]
        if list(calls[j]["a"]) != [0, 1] or abs(pv[0] - p0) > 1e-7 or abs(pv[0] + pv[1] - 1) > 1e-9:
            ctx.fail("threshold-born:bosonic",
                     f"bosonic MeasureThreshold | {regs} of {n}: mode {m} after outcomes {done} is drawn with P(no click) = {pv[0]:.8g}, "
                     f"Born probability {p0:.8g}", rp)
            return
        done[m] = v
    exp = [[done[m] for m in sorted(regs)]]
    if np.asarray(res.samples).tolist() != exp:
        ctx.fail("samples-layout:rows-columns", f"bosonic MeasureThreshold | {regs}: samples {np.asarray(res.samples).tolist()} "
                 f"expected {exp}", rp)
    # conditional state of the remaining modes: mixture over inclusion-exclusion terms of heterodyne-0 conditioned states
    want = _threshold_conditional(ref, done)
    if hasattr(ref, "active") and ref.active != list(range(ref.n)):
        want = sim.restrict_moments(want, ref.active)
    d = sim.moment_dist(got, want)
    if d > 1e-6:
        ctx.fail("threshold-conditional:bosonic", f"bosonic MeasureThreshold | {regs} of {n} with outcomes {done}: state afterwards differs "
                 f"from the conditional state by {d:.3g} in (alpha, N, M)", rp)


def _threshold_conditional(ref, done):
    """moments of  rho' ∝ Σ_{S ⊆ ones} (-1)^|S| <0_{zeros ∪ S}| rho |0_{zeros ∪ S}> ⊗ (rest traced) , measured modes reset"""
    import itertools
    zeros = [m for m, v in done.items() if v == 0]
    ones = [m for m, v in done.items() if v == 1]
    n = ref.n
    terms = []
    for r in range(len(ones) + 1):
        for sub in itertools.combinations(ones, r):
            cur = ref
            w = (-1) ** r * m6.vacuum_prob(ref, zeros + list(sub))
            for m in zeros + list(sub):
                cur = m6.ref_condition(cur, m, "heterodyne", 0j)
            for m in ones:
                if m not in sub:
                    cur = m6.ref_condition(cur, m, "trace")
            terms.append((w, cur))
    tot = sum(w for w, _ in terms)
    mu = sum(w * t.mu for w, t in terms) / tot
    second = sum(w * (t.V + np.outer(t.mu, t.mu)) for w, t in terms) / tot
    out = sim.RefState(n)
    out.mu, out.V = mu, second - np.outer(mu, mu)
    return out.alpha_N_M()


def holes_prefix(rng, n, mixed=True, scale=1.0):
    """correlated prefix on n modes, then a deletion (mostly of a low mode) and possibly a late mode coupled to a live one;
    returns (ops, live modes)"""
    ops_ = _prefix(rng, n, mixed=mixed, scale=scale)
    d = rng.randrange(n - 1) if rng.random() < 0.7 else rng.randrange(n)
    ops_.append(dict(cls="Del", regs=[d], pars=[]))
    alive = [i for i in range(n) if i != d]
    if rng.random() < 0.5:
        ops_.append(dict(cls="New", regs=[n], pars=[]))
        ops_.append(dict(cls="Sgate", regs=[n], pars=[round(rng.uniform(0.1, 0.3), 3), sim.angle(rng)]))
        a = rng.choice(alive)
        ops_.append(dict(cls="BSgate", regs=rng.choice([[n, a], [a, n]]), pars=[round(rng.uniform(0.4, 1.1), 3), sim.angle(rng)]))
        alive.append(n)
    return ops_, alive


def gen_threshold_case(rng, backend, holes=False):
    n = rng.randint(2, 4)
    if holes:
        n = rng.randint(3, 4)
        prefix, alive = holes_prefix(rng, n)
        k = rng.randint(1, min(len(alive), 3)) if rng.random() < 0.3 else rng.randint(2, min(len(alive), 3))
        regs = [alive[i] for i in scrambled(rng, len(alive), k)]
        case = dict(n=n, regs=regs, backend=backend, hbar=rng.choice([2.0, 2.0, 1.0]), prefix=prefix, holes=True)
        if backend == "bosonic":
            case["pattern"] = [rng.randint(0, 1) for _ in regs]
        else:
            case["cls"] = rng.choice(["MeasureThreshold", "MeasureFock"])
            case["shots"] = rng.choice([1, 3])
        return case
    k = rng.randint(1, min(n, 3)) if rng.random() < 0.3 else rng.randint(2, min(n, 3))
    regs = scrambled(rng, n, k)
    case = dict(n=n, regs=regs, backend=backend, hbar=rng.choice([2.0, 2.0, 1.0]), prefix=_prefix(rng, n))
    if backend == "bosonic":
        case["pattern"] = [rng.randint(0, 1) for _ in regs]
    else:
        case["cls"] = rng.choice(["MeasureThreshold", "MeasureThreshold", "MeasureFock"])
        case["shots"] = rng.choice([1, 3])
    return case


def oracle_fock_layout(ctx, sf, rng, spec=None):
    """deterministic end-to-end layout check: distinct Fock states per mode, several MeasureFock commands in scrambled
    order; half of the runs with dark counts (every command its own list, the Poisson generator scripted)"""
    if spec is None:
        n = rng.randint(2, 4)
        ks = [rng.randint(0, 3) for _ in range(n)]
        ops_ = [dict(cls="Fock", regs=[m], pars=[ks[m]]) for m in range(n)]
        modes = list(range(n))
        rng.shuffle(modes)
        cut = rng.randint(1, n)
        groups = [modes[:cut], modes[cut:]] if cut < n else [modes]
        dark = rng.random() < 0.5
        for g in groups:
            op = dict(cls="MeasureFock", regs=g, pars=[])
            if dark:
                dc = [round(rng.uniform(0.1, 2.0), 2) if rng.random() < 0.7 else 0 for _ in g]
                if rng.random() < 0.2:
                    dc = [0 for _ in g]                            # zero rates are valid (and falsy)
                op["kw"] = dict(dark_counts=dc if not (len(g) == 1 and rng.random() < 0.4) else dc[0])
            ops_.append(op)
        spec = dict(n=n, ops=ops_)
    n = spec["n"]
    ks = [o["pars"][0] for o in spec["ops"] if o["cls"] == "Fock"]
    cmds = [o for o in spec["ops"] if o["cls"] == "MeasureFock"]
    groups = [o["regs"] for o in cmds]
    ctx.oracle_cases += 1
    rp = dict(kind="focklayout", spec=spec)
    script = m6.ScriptRNG(poisson=lambda lam, size: np.array([[3 + j for j in range(size[-1])] for _ in range(size[0])]))
    try:
        res, _, eng = _fock_state_of(sf, spec, 8, script=script)
    except SFRaised as e:
        ctx.fail("fock-measure:raises", f"Fock states {ks} measured by MeasureFock on {groups}: {e}", rp)
        return
    exp = list(ks)
    calls = script.calls("poisson")
    as_list = lambda dc: [float(x) for x in (dc if isinstance(dc, (list, tuple)) else [dc])]
    want_calls = [(as_list(o["kw"]["dark_counts"]), (1, len(o["regs"]))) for o in cmds
                  if o.get("kw", {}).get("dark_counts") is not None]
    for o in cmds:
        if o.get("kw", {}).get("dark_counts") is not None:
            for j, m in enumerate(o["regs"]):
                exp[m] += 3 + j
    got_calls = [([float(x) for x in np.atleast_1d(c["lam"])], tuple(int(z) for z in c["size"]) if c["size"] is not None else None)
                 for c in calls]
    if sorted(map(repr, got_calls)) != sorted(map(repr, [(list(l), sz) for l, sz in want_calls])):
        ctx.fail("dark-counts:rng-args", f"MeasureFock commands {[(o['regs'], o.get('kw')) for o in cmds]}: Poisson generator called with "
                 f"{got_calls}, expected rates/shapes {want_calls}", rp)
    if np.asarray(res.samples).tolist() != [exp]:
        ctx.fail("samples-layout:rows-columns", f"Fock states {ks} measured by MeasureFock on {groups} "
                 f"(dark counts {[o.get('kw') for o in cmds]}, scripted Poisson 3+column): Result.samples = "
                 f"{np.asarray(res.samples).tolist()}, expected {[exp]}", rp)
    vals = [int(np.asarray(eng.run_progs[-1].reg_refs[m].val).ravel()[0]) for m in range(n)]
    if vals != exp:
        ctx.fail("samples-layout:regref-val", f"Fock states {ks} measured on {groups}: RegRef values {vals}, expected {exp}", rp)


def gen_sample_case(rng, backend, kind):
    c = gen_dyne_case(rng, backend, kind)
    c.pop("outcome")
    c["off"] = [round(rng.uniform(-1.0, 1.0), 3), round(rng.uniform(-1.0, 1.0), 3)]
    return c


def gen_cat_case(rng):
    kind = "homodyne"           # the Fock back end (the only reference for non-Gaussian inputs) has no heterodyne
    case = dict(a=round(rng.uniform(0.6, 1.0), 3), p=rng.choice([0, 1]), r=round(rng.uniform(-0.3, 0.3), 3),
                theta=round(rng.uniform(0.4, 1.1), 3), bsphi=sim.angle(rng), bs_regs=rng.choice([[0, 1], [1, 0]]),
                mode=rng.randrange(2), kind=kind, hbar=rng.choice([2.0, 1.0]))
    if kind == "homodyne":
        case.update(phi=rng.choice([0.0, math.pi / 2, round(rng.uniform(-3, 3), 3)]), outcome=round(rng.uniform(-1.0, 1.0), 3))
    else:
        case.update(outcome=[round(rng.uniform(-0.5, 0.5), 3), round(rng.uniform(-0.5, 0.5), 3)])
    return case



# ------------------------------------------------------------------ shared measurement objects, options in later commands

def _run_prog(sf, prog, backend, hbar, cutoff=None, script=None, pure=True):
    with m6.hbar_set(sf, hbar):
        eng = sf.Engine(backend, backend_options=dict(cutoff_dim=cutoff, pure=pure) if backend == "fock" else {})
        try:
            if script is not None:
                with script:
                    res = eng.run(prog)
            else:
                res = eng.run(prog)
        except NotImplementedError:
            raise
        except Exception as e:  # noqa: BLE001
            raise SFRaised(e, backend)
        return res, eng


def _snapshot_ops(prog):
    return [(id(c.op), type(c.op).__name__, copy.deepcopy(list(c.op.p)), copy.deepcopy(getattr(c.op, "select", None)),
             copy.deepcopy(getattr(c.op, "dark_counts", None)), [r.ind for r in c.reg]) for c in prog.circuit]


def oracle_shared_case(ctx, sf, case):
    """ONE measurement object (same select) applied to several modes of a program and re-used in a second program with
    another input state; a second object with the same angle but another select in between.  Every application must
    condition on its own mode with its own select; the user's objects must come back unchanged."""
    backend, hbar, n = case["backend"], case["hbar"], case["n"]
    cache = {}
    rp = dict(kind="shared", case=case)
    ctx.oracle_cases += 1
    sc = math.sqrt(hbar / 2)
    for which, prefix in enumerate(case["prefixes"]):
        ops_ = list(prefix)
        for (m, phi, out2) in case["meas"]:
            ops_.append(dict(cls="MeasureHomodyne", regs=[m], pars=[phi], select=out2 * sc))
        spec = dict(n=n, ops=ops_)
        with m6.hbar_set(sf, hbar):
            prog, _ = progs.build(spec, op_cache=cache)
        before = _snapshot_ops(prog)
        res, eng = _run_prog(sf, prog, backend, hbar, script=m6.ScriptRNG())
        with m6.hbar_set(sf, hbar):
            got = _moments(sf, res.state, backend, hbar)
        after = _snapshot_ops(prog)
        if before != after:
            ctx.fail("shared-op:mutated", f"{backend}: running a program changed the user's measurement objects: {before} -> {after}", rp)
            return
        ref = sim.reference(dict(n=n, ops=prefix), hbar)
        for (m, phi, out2) in case["meas"]:
            ref = m6.ref_condition(ref, m, "homodyne", out2, phi)
        d = sim.moment_dist(got, ref.alpha_N_M())
        if d > 5e-6:
            ctx.fail(f"shared-op:conditional:{backend}",
                     f"{backend}: program {which} applying shared MeasureHomodyne objects {case['meas']} (mode, phi, outcome): state "
                     f"differs from the sequentially conditioned state by {d:.3g}", rp)
        exp = {}
        for (m, phi, out2) in case["meas"]:
            exp[m] = out2 * sc
        row = [exp[m] for m in sorted(exp)]
        smp = np.asarray(res.samples)
        if smp.shape != (1, len(row)) or not np.allclose(smp[0], row, atol=1e-9):
            ctx.fail(f"shared-op:samples:{backend}", f"{backend}: samples {smp.tolist()} for post-selected values per mode {exp}", rp)


def gen_shared_case(rng, backend):
    n = rng.randint(3, 4)
    hbar = rng.choice([2.0, 1.0])
    prefixes = [_prefix(rng, n), _prefix(rng, n)]
    a, b, c = rng.sample(range(n), 3)
    phi = round(rng.uniform(-1.5, 1.5), 3)
    o1, o2 = round(rng.uniform(-0.6, 0.6), 3), round(rng.uniform(-0.6, 0.6), 3)
    if rng.random() < 0.4:
        o1 = 0.0
    elif rng.random() < 0.3:
        o2 = 0.0
    # (a, phi, o1) and (c, phi, o1) share one object; (b, phi, o2) has the same angle but another select
    return dict(backend=backend, hbar=hbar, n=n, prefixes=prefixes, meas=[(a, phi, o1), (b, phi, o2), (c, phi, o1)])


def oracle_fock_shared_case(ctx, sf, case):
    """MeasureFock(select=...) objects shared between commands and programs, a different select in the second command"""
    n, D = case["n"], case["cutoff"]
    cache = {}
    rp = dict(kind="fockshared", case=case)
    ctx.oracle_cases += 1
    for which, prefix in enumerate(case["prefixes"]):
        _, rho0, _ = _fock_state_of(sf, dict(n=n, ops=prefix), D, True)
        ops_ = list(prefix)
        want, ptot, outcome = rho0, 1.0, {}
        for regs, sel in case["meas"]:
            ops_.append(dict(cls="MeasureFock", regs=regs, pars=[], select=sel))
            want, p = m6.fock_project(want, n, dict(zip(regs, sel)))
            ptot *= p
            outcome.update(dict(zip(regs, sel)))
        if ptot < 1e-7:
            ctx.tally("fockshared:improbable")
            continue
        prog, _ = progs.build(dict(n=n, ops=ops_), op_cache=cache)
        before = _snapshot_ops(prog)
        res, eng = _run_prog(sf, prog, "fock", 2.0, cutoff=D)
        if before != _snapshot_ops(prog):
            ctx.fail("shared-op:mutated", f"fock: running a program changed the user's MeasureFock objects ({before})", rp)
            return
        d = float(np.max(np.abs(sim.dm_of(res.state) - want)))
        if d > 1e-7:
            ctx.fail("shared-op:conditional:fock", f"fock: program {which} with MeasureFock commands {case['meas']} (shared objects): post state "
                     f"differs from the sequential projection by {d:.3g}", rp)
        row = [outcome[m] for m in sorted(outcome)]
        if np.real(np.asarray(res.samples)).astype(int).tolist() != [row]:
            ctx.fail("shared-op:samples:fock", f"fock: samples {np.asarray(res.samples).tolist()} for selects per mode {outcome}", rp)


def gen_fock_shared_case(rng):
    n = 4
    def pre():
        ops_ = []
        for m in range(n):
            ops_.append(dict(cls="Sgate", regs=[m], pars=[round(rng.uniform(0.25, 0.5), 3), sim.angle(rng)]))
            ops_.append(dict(cls="Dgate", regs=[m], pars=[round(rng.uniform(0.2, 0.5), 3), sim.angle(rng)]))
        for _ in range(3):
            a, b = rng.sample(range(n), 2)
            ops_.append(dict(cls="BSgate", regs=[a, b], pars=[round(rng.uniform(0.3, 1.2), 3), sim.angle(rng)]))
        return ops_
    modes = list(range(n))
    rng.shuffle(modes)
    v = [rng.randint(0, 1), rng.randint(0, 2)]
    u = rng.randint(0, 1)
    kind = rng.random()
    if kind < 0.5:    # one single-mode object applied to two modes, another select in between
        meas = [([modes[0]], [u]), ([modes[1]], [1 - u]), ([modes[2]], [u])]
    else:             # one two-mode object (scrambled order) applied to two different pairs
        meas = [([modes[0], modes[1]], v), ([modes[2], modes[3]], v)]
    return dict(n=n, cutoff=4, prefixes=[pre(), pre()], meas=meas)


# ------------------------------------------------------------------ Fock homodyne: Born pdf on the grid, history independence

def oracle_fock_pdf(ctx, sf, rng):
    """sampled MeasureHomodyne on the Fock back end, back-end level (so that the grid options can vary): the probabilities
    handed to numpy.random.multinomial are the Born pdf of x_phi on the grid; the value returned is the grid point drawn;
    the state afterwards is the one obtained by post-selecting that value.  Several configurations that differ only in
    cutoff / grid are interleaved in one process (memoised grids / Hermite tables must not leak between them)."""
    from strawberryfields.backends.fockbackend import FockBackend
    base_nb, base_q = rng.choice([1501, 2001]), rng.choice([8, 10])
    D1, D2 = rng.sample([5, 6, 7, 8], 2)
    configs = [(D1, base_nb, base_q), (D2, base_nb, base_q), (D1, base_nb + 500, base_q), (D1, base_nb, base_q - 2), (D2, base_nb, base_q)]
    for (D, nb, qmax) in configs:
        n = rng.randint(1, 2)
        mode = rng.randrange(n)
        phi = rng.choice([0.0, math.pi / 2, round(rng.uniform(-3.0, 3.0), 3)])
        prefix = []
        for m in range(n):
            prefix.append(dict(cls="Sgate", regs=[m], pars=[round(rng.uniform(0.1, 0.3), 3), sim.angle(rng)]))
            prefix.append(dict(cls="Dgate", regs=[m], pars=[round(rng.uniform(0.1, 0.4), 3), sim.angle(rng)]))
        if n == 2:
            prefix.append(dict(cls="BSgate", regs=[0, 1], pars=[round(rng.uniform(0.4, 1.1), 3), sim.angle(rng)]))
        spec = dict(n=n, ops=prefix)
        case = dict(D=D, nb=nb, qmax=qmax, n=n, mode=mode, phi=phi, prefix=prefix)
        rp = dict(kind="fockpdf", case=case)
        ctx.oracle_cases += 1
        ctx.count("oracle:fock-pdf", case, True)
        pick = rng.random()

        def chooser(pv, pick=pick):
            c = np.cumsum(pv)
            return int(np.searchsorted(c, 0.15 + 0.7 * pick))
        try:
            res0, rho0, eng = _fock_state_of(sf, spec, D, True)
            rho1 = sim.reduced_dm(rho0, n, [mode])
            script = m6.ScriptRNG(multinomial=chooser)
            with script:
                ret = eng.backend.measure_homodyne(phi, mode, num_bins=nb, max=qmax)
            post = sim.dm_of(eng.backend.state())
            # twin: post-select the returned value
            _, _, eng2 = _fock_state_of(sf, spec, D, True)
            eng2.backend.measure_homodyne(phi, mode, select=float(np.asarray(ret)[0, 0]), num_bins=nb, max=qmax)
            post2 = sim.dm_of(eng2.backend.state())
        except SFRaised as e:
            ctx.fail("fock-pdf:raises", f"fock measure_homodyne (cutoff {D}, {nb} bins, max {qmax}): {e}", rp)
            continue
        except Exception as e:  # noqa: BLE001
            ctx.fail("fock-pdf:raises", f"fock measure_homodyne (cutoff {D}, {nb} bins, max {qmax}) raised {type(e).__name__}: {e}", rp)
            continue
        calls = script.calls("multinomial")
        if len(calls) != 1 or calls[0]["n"] != 1:
            ctx.fail("fock-pdf:calls", f"{len(calls)} calls of multinomial for one homodyne measurement", rp)
            continue
        x, pdf = m6.fock_homodyne_pdf(rho1, phi, qmax, nb)
        pv = calls[0]["pvals"]
        if pv.shape != pdf.shape or float(np.max(np.abs(pv - pdf))) > 5e-9:
            dd = "shape" if pv.shape != pdf.shape else f"{float(np.max(np.abs(pv - pdf))):.3g}"
            ctx.fail("fock-pdf:born", f"fock MeasureHomodyne(phi={phi}) on mode {mode} of {n}, cutoff {D}, grid {nb} bins on [-{qmax}, {qmax}]: "
                     f"probabilities handed to multinomial differ from the Born pdf on that grid ({dd})", rp)
            continue
        idx = chooser(pv)
        if np.asarray(ret).shape != (1, 1) or abs(np.asarray(ret)[0, 0] - x[idx]) > 1e-12:
            ctx.fail("fock-pdf:returned", f"bin {idx} drawn (x = {x[idx]}) but {np.asarray(ret).tolist()} returned", rp)
        d = float(np.max(np.abs(post - post2)))
        if d > 1e-9:
            ctx.fail("fock-pdf:conditional", f"fock MeasureHomodyne sampled x = {x[idx]}: state afterwards differs from the state "
                     f"post-selected on that value by {d:.3g}", rp)


def oracle_multi_dyne_case(ctx, sf, case):
    """general-dyne measurement of SEVERAL modes at circuit level (`GaussianModes.measure_dyne`, `BosonicModes.measure_dyne`;
    not reachable through the front end): generator arguments = joint marginal + measurement covariance, state afterwards =
    joint conditional state of the drawn point, measured modes vacuum"""
    n, modes, backend = case["n"], case["modes"], case["backend"]
    sigma, off = np.array(case["sigma"]), np.array(case["off"])
    ref = sim.reference(dict(n=n, ops=case["prefix"]), 2.0)
    rp = dict(kind="multidyne", case=case)
    ctx.oracle_cases += 1
    prog, _ = progs.build(dict(n=n, ops=case["prefix"]))
    eng = sf.Engine(backend)
    eng.run(prog)
    script = m6.ScriptRNG(mvn_offset=off)
    try:
        with script:
            ret = eng.backend.circuit.measure_dyne(sigma.copy(), list(modes), shots=1)
        st = eng.backend.state()
    except Exception as e:  # noqa: BLE001
        ctx.fail(f"multi-dyne:raises:{backend}", f"{backend} circuit.measure_dyne(covmat, {modes}) raised {type(e).__name__}: {e}", rp)
        return
    Bx = list(modes) + [m + n for m in modes]
    Ax = [i for i in range(2 * n) if i not in Bx]
    mu_b, V_b = ref.mu[Bx], ref.V[np.ix_(Bx, Bx)]
    calls = script.calls("multivariate_normal")
    if len(calls) != 1 or not np.allclose(calls[0]["mean"], mu_b, atol=1e-8) or not np.allclose(calls[0]["cov"], V_b + sigma, atol=1e-8):
        ctx.fail(f"multi-dyne:rng-args:{backend}", f"{backend} circuit.measure_dyne(covmat, {modes}) of {n}: generator received "
                 f"{[(c['mean'].tolist(), c['cov'].tolist()) for c in calls]}, joint marginal + covmat is {(mu_b.tolist(), (V_b + sigma).tolist())}", rp)
        return
    vm = mu_b + off
    W = np.linalg.inv(V_b + sigma)
    out = sim.RefState(n)
    out.V, out.mu = np.eye(2 * n), np.zeros(2 * n)
    out.V[np.ix_(Ax, Ax)] = ref.V[np.ix_(Ax, Ax)] - ref.V[np.ix_(Ax, Bx)] @ W @ ref.V[np.ix_(Bx, Ax)]
    out.mu[Ax] = ref.mu[Ax] + ref.V[np.ix_(Ax, Bx)] @ W @ (vm - mu_b)
    got = _moments(sf, st, backend, 2.0)
    d = sim.moment_dist(got, out.alpha_N_M())
    if d > 1e-7 or not np.allclose(np.asarray(ret)[0], vm, atol=1e-9):
        ctx.fail(f"multi-dyne:conditional:{backend}", f"{backend} circuit.measure_dyne(covmat, {modes}) of {n} with drawn point {vm.tolist()}: "
                 f"returned {np.asarray(ret).tolist()}, state differs from the joint conditional state by {d:.3g}", rp)


def gen_multi_dyne_case(rng, backend):
    n = rng.randint(3, 4)
    modes = scrambled(rng, n, rng.randint(2, n - 1))
    k = len(modes)
    return dict(n=n, modes=modes, backend=backend, prefix=_prefix(rng, n), sigma=m6.phys_cov(rng, 2 * k).tolist(),
                off=[round(rng.uniform(-0.8, 0.8), 3) for _ in range(2 * k)])


def oracle_gauss_certain(ctx, sf, rng, case=None):
    """Gaussian MeasureFock / MeasureThreshold with the REAL thewalrus samplers, outcomes that are certain under the Born
    rule only (no statistics): a vacuum mode never yields a photon / a click however bright its neighbours are; the two arms
    of a two-mode squeezed vacuum always agree.  The register has a hole (a mode deleted before the measurement) and
    sometimes a late mode; every exception is a failure."""
    if case is None:
        n = rng.randint(4, 5)
        roles = list(range(n))
        rng.shuffle(roles)
        d = min(roles[:2]) if rng.random() < 0.7 else roles[0]       # mostly a low index is deleted
        rest = [m for m in range(n) if m != d]
        rng.shuffle(rest)
        v, a, b = rest[0], rest[1], rest[2]
        bright = rest[3:] if len(rest) > 3 else []
        ops_ = [dict(cls="S2gate", regs=[a, b], pars=[round(rng.uniform(0.5, 0.9), 3), sim.angle(rng)]),
                dict(cls="Sgate", regs=[d], pars=[0.6, 0.3])]
        for m in bright:
            ops_.append(dict(cls="Sgate", regs=[m], pars=[round(rng.uniform(0.6, 1.0), 3), sim.angle(rng)]))
        ops_.append(dict(cls="Del", regs=[d], pars=[]))
        late = rng.random() < 0.4
        if late:
            ops_.append(dict(cls="New", regs=[n], pars=[]))
        regs = [v, a, b] + ([n] if late else [])
        rng.shuffle(regs)
        case = dict(n=n, ops=ops_, regs=regs, vac=[v] + ([n] if late else []), pair=[a, b],
                    cls=rng.choice(["MeasureFock", "MeasureThreshold"]), shots=6, np_seed=rng.randrange(10 ** 6))
    rp = dict(kind="gausscertain", case=case)
    ctx.oracle_cases += 1
    spec = dict(n=case["n"], ops=case["ops"] + [dict(cls=case["cls"], regs=case["regs"], pars=[])])
    import warnings
    state = np.random.get_state()
    np.random.seed(case["np_seed"])
    try:
        with warnings.catch_warnings():
            warnings.simplefilter("ignore")
            prog, _ = progs.build(spec)
            res = sf.Engine("gaussian").run(prog, shots=case["shots"])
    except Exception as e:  # noqa: BLE001
        ctx.fail("gauss-certain:raises", f"gaussian {case['cls']} | {case['regs']} after Del (program {case['ops']}) raised "
                 f"{type(e).__name__}: {e}", rp)
        return
    finally:
        np.random.set_state(state)
    smp = np.asarray(res.samples)
    cols = sorted(case["regs"])
    if smp.shape != (case["shots"], len(cols)):
        ctx.fail("samples-layout:rows-columns", f"gaussian {case['cls']} | {case['regs']} shots={case['shots']}: samples shape {smp.shape}", rp)
        return
    for m in case["vac"]:
        if np.any(smp[:, cols.index(m)] != 0):
            ctx.fail("gauss-certain:vacuum", f"gaussian {case['cls']} | {case['regs']} after `Del`: mode {m} is in the vacuum state but the "
                     f"outcomes are {smp[:, cols.index(m)].tolist()} (Born probability of a photon / click is 0); program {case['ops']}", rp)
            return
    a, b = case["pair"]
    if np.any(smp[:, cols.index(a)] != smp[:, cols.index(b)]):
        ctx.fail("gauss-certain:tmsv", f"gaussian {case['cls']} | {case['regs']} after `Del`: the arms {a}, {b} of a two-mode squeezed vacuum gave "
                 f"different outcomes {smp[:, [cols.index(a), cols.index(b)]].tolist()}; program {case['ops']}", rp)


ORACLES = dict(dyne=oracle_dyne_case, sample=oracle_sample_case, cat=oracle_cat_case, fock=oracle_fock_case,
               threshold=oracle_threshold_case, shared=oracle_shared_case, fockshared=oracle_fock_shared_case,
               multidyne=oracle_multi_dyne_case)


def run_oracle_case(ctx, sf, kind, case):
    try:
        ORACLES[kind](ctx, sf, case)
    except (NotImplementedError, ZeroDivisionError) as e:   # documented refusals are not violations
        ctx.tally(f"refused:{type(e).__name__}")
    except SFRaised as e:
        meas = case.get("kind", kind)
        ctx.fail(f"{kind}:raises:{e.backend}:{type(e.exc).__name__}",
                 f"{e.backend}: running the measurement program ({meas}, n={case.get('n')}, measured "
                 f"{case.get('mode', case.get('regs'))}) raised {e}", dict(kind=kind, case=case))


def oracle(ctx, sf):
    rng = ctx.rng
    for f in sorted(CORPUS.glob("*.json")) if CORPUS.exists() else []:
        rp = json.loads(f.read_text())
        ctx.count("corpus", rp, True)
        _replay_one(ctx, sf, rp)
    for it in range(ctx.n(36, 400)):
        backend = ["gaussian", "bosonic"][it % 2]
        kind = ["homodyne", "heterodyne"][(it // 2) % 2]
        case = gen_dyne_case(rng, backend, kind)
        if it % 12 >= 8:                       # a third of the cases of every (back end, measurement) pair herald on exactly 0
            make_zero(rng, case)
        ctx.count(f"oracle:dyne:{kind}:{backend}", case, True, sample=dict(n=case["n"], mode=case["mode"], kind=kind, backend=backend))
        run_oracle_case(ctx, sf, "dyne", case)
    for it in range(ctx.n(6, 60)):
        case = gen_dyne_case(rng, "fock", "homodyne")
        if it % 3 == 2:
            make_zero(rng, case)
        ctx.count("oracle:dyne:homodyne:fock", case, True)
        run_oracle_case(ctx, sf, "dyne", case)
    for it in range(ctx.n(24, 300)):
        backend = ["gaussian", "bosonic"][it % 2]
        kind = ["homodyne", "heterodyne"][(it // 2) % 2]
        case = gen_sample_case(rng, backend, kind)
        ctx.count(f"oracle:sample:{kind}:{backend}", case, True)
        run_oracle_case(ctx, sf, "sample", case)
    for it in range(ctx.n(4, 40)):
        case = gen_cat_case(rng)
        ctx.count("oracle:cat", case, True, sample=case)
        run_oracle_case(ctx, sf, "cat", case)
    for it in range(ctx.n(30, 300)):
        case = gen_fock_case(rng, selected=(it % 2 == 0))
        ctx.count("oracle:fock:" + ("select" if it % 2 == 0 else "sampled"), case,
                  len(case["regs"]) >= 2 and case["regs"] != sorted(case["regs"]), sample=dict(n=case["n"], regs=case["regs"]))
        run_oracle_case(ctx, sf, "fock", case)
    for it in range(ctx.n(24, 240)):
        case = gen_threshold_case(rng, ["gaussian", "bosonic"][it % 2])
        ctx.count(f"oracle:threshold:{case['backend']}", case, True, sample=dict(n=case["n"], regs=case["regs"]))
        run_oracle_case(ctx, sf, "threshold", case)
    for it in range(ctx.n(10, 100)):
        ctx.count("oracle:fock-layout", None)
        oracle_fock_layout(ctx, sf, rng)
    for it in range(ctx.n(12, 120)):
        backend = ["gaussian", "bosonic", "fock"][it % 3] if it % 6 != 5 else "fock"
        backend = backend if backend != "fock" or it % 2 == 1 else "gaussian"
        case = gen_holes_case(rng, backend, ["homodyne", "heterodyne"][(it // 3) % 2] if backend != "fock" else "homodyne")
        if it % 4 == 3:
            make_zero(rng, case)
        ctx.count(f"oracle:holes:{case['kind']}:{backend}", case, True, sample=dict(n=case["n"], mode=case["mode"], backend=backend))
        run_oracle_case(ctx, sf, "dyne", case)
    for it in range(ctx.n(6, 60)):
        case = gen_shared_case(rng, ["gaussian", "bosonic"][it % 2])
        ctx.count(f"oracle:shared:{case['backend']}", case, True, sample=dict(meas=case["meas"]))
        run_oracle_case(ctx, sf, "shared", case)
    for it in range(ctx.n(4, 40)):
        case = gen_fock_shared_case(rng)
        ctx.count("oracle:shared:fock", case, True, sample=dict(meas=case["meas"]))
        run_oracle_case(ctx, sf, "fockshared", case)
    for it in range(ctx.n(1, 8)):
        oracle_fock_pdf(ctx, sf, rng)
    # every (back end, measurement) pair on registers with holes and late modes
    for it in range(ctx.n(16, 160)):
        case = gen_threshold_case(rng, ["gaussian", "gaussian", "bosonic"][it % 3], holes=True)
        ctx.count(f"oracle:holes:threshold:{case['backend']}:{case.get('cls', 'MeasureThreshold')}", case, True,
                  sample=dict(n=case["n"], regs=case["regs"], backend=case["backend"]))
        run_oracle_case(ctx, sf, "threshold", case)
    for it in range(ctx.n(8, 80)):
        backend = ["gaussian", "bosonic"][it % 2]
        case = gen_holes_case(rng, backend, ["homodyne", "heterodyne"][(it // 2) % 2])
        case.pop("outcome")
        case["off"] = [round(rng.uniform(-1.0, 1.0), 3), round(rng.uniform(-1.0, 1.0), 3)]
        ctx.count(f"oracle:holes:sample:{case['kind']}:{backend}", case, True)
        run_oracle_case(ctx, sf, "sample", case)
    for it in range(ctx.n(6, 60)):
        ctx.count("oracle:gauss-certain", None)
        oracle_gauss_certain(ctx, sf, rng)
    for it in range(ctx.n(16, 160)):
        ctx.count("oracle:sampler-complex", None)
        oracle_sampler_complex(ctx, rng)
    for it in range(ctx.n(8, 80)):
        case = gen_multi_dyne_case(rng, ["gaussian", "bosonic"][it % 2])
        ctx.count(f"oracle:multi-dyne:{case['backend']}", case, True, sample=dict(n=case["n"], modes=case["modes"]))
        run_oracle_case(ctx, sf, "multidyne", case)


# =================================================================== entry points

def run(ctx, sf):
    B = Batch(ctx)
    if ctx.proof_ok:
        corr_chop(ctx, B)
        corr_gauss(ctx, B, sf)
        corr_gauss_multi(ctx, B)
        corr_gauss_discrete(ctx, B)
        corr_bosonic(ctx, B, sf)
        corr_weights(ctx, B)
        corr_fock(ctx, B)
        corr_fock_dist(ctx, B)
        corr_hermite(ctx, B)
        corr_sampler(ctx, B)
    corr_engine(ctx, B, sf)       # layout oracle always; model comparison only when the proof side is intact
    B.flush()
    oracle(ctx, sf)


def search(ctx, sf):
    run(ctx, sf)


def _replay_one(ctx, sf, rp):
    kind = rp.get("kind")
    if kind == "layout":
        check_layout(ctx, sf, rp["spec"], rp["shots"], rp["backend"], shared=rp.get("shared", False))
    elif kind == "focklayout":
        oracle_fock_layout(ctx, sf, None, spec=rp["spec"])
    elif kind == "sampler":
        sampler_one(ctx, None, rp["case"])
    elif kind == "samplercx":
        oracle_sampler_complex(ctx, None, case=rp["case"])
    elif kind == "gausscertain":
        oracle_gauss_certain(ctx, sf, None, case=rp["case"])
    elif kind in ORACLES:
        run_oracle_case(ctx, sf, kind, rp["case"])


def replay(ctx, rp):
    import strawberryfields as sf
    n0 = len(ctx.failures)
    _replay_one(ctx, sf, rp)
    return len(ctx.failures) > n0
