"""C20 — trainable-GBS and chemistry numerics are self-consistent.

(a) correspondence: apps/train/{embed,param,cost}.py, apps/qchem/{vibronic,dynamics,utils}.py and
    similarity.prob_orbit_exact / prob_event_exact against the Lean model SFV.Model.Train at exact rational
    points (every float64 the implementation produces is handed to the model as the rational it is);
(b) oracle: the property itself on the real code -- central finite differences of the reported costs vs the
    reported gradients (PNR mode), probabilities / means against an independent calculation of the GBS state
    (own perfect-matching hafnian, own moments), exact orbit / event probabilities against brute-force sums over an
    independently built state, photon-number conservation of the time evolution on the Fock back end, and the
    Doktorov circuit against the Duschinsky relation in phase space (lib/train20.py);
(c) replay of stored failing inputs."""
import itertools
import json
import math
import traceback
import warnings
from fractions import Fraction

import numpy as np

from lib import core
from lib import train20 as T

RULE = ("train: symmetric real matrices on 1..5 modes (random weights, graphs, with / without diagonal), feature "
        "matrices m x d (d = 1..4, dyadic entries incl. 0 and negative) and Exp(m), dyadic parameter vectors, both "
        "threshold flags, sf.hbar in {2, 1, 0.5}; data / sample sets of 1..6 patterns; store histories of 1..6 add/get "
        "calls. qchem: 1..4 modes, frequencies 100..4000 cm^-1, random orthogonal / perturbed Duschinsky matrices, "
        "displacements incl. 0, T in {0, 1 K (underflow), 300..1500 K}, times 0..100 fs, register subsets. similarity: "
        "G(n,p) on 2..5 nodes, every orbit / event up to 4..5 photons incl. orbits longer than the mode count, loss in "
        "{0, 0.2, 0.5}.  Non-trivial = at least 2 modes and a parameter vector / displacement that is not all zero; "
        "distinct by (function, canonical input).")
ASSUMPTIONS = ["adjacency matrices are real symmetric with singular values below one after rescaling (VGBS rejects "
               "non-symmetric input; GBS needs the spectral bound)",
               "gradient = derivative is claimed in PNR mode only (threshold=False), as the property states",
               "the support of the exponential family in the theorems is finite (a truncation of the photon-number "
               "patterns); the implementation's distribution has the same form on the full support",
               "Duschinsky matrices are real and invertible, frequencies positive"]
TRUSTED = ["modelled: embed.ExpFeatures/Exp {weights, jacobian}, param.{_Omat, A_to_cov, VGBS.W, A, generate_samples, "
           "add/get_A_init_samples, n_mean}, cost.{KL.grad, KL.evaluate, Stochastic.h_reparametrized, "
           "_gradient_one_sample, grad, evaluate}, dynamics.TimeEvolution, vibronic.{gbs_params matrix, "
           "VibronicTransition}, utils.prob, similarity.{prob_orbit_exact, prob_event_exact}",
           "transcendental values (exp, sqrt, log, cos, sin, determinants, SVD factors) enter the model as atoms taken "
           "from the implementation's own float64 results; the theorems assume only their algebraic relations",
           "third-party numerics: thewalrus (hafnian / torontonian probabilities, photon_number_mean_vector, Qmat, "
           "rescaling root finder, probabilities, reduced_gaussian, density_matrix_element), numpy.linalg (inv, det, svd)",
           "the Gauss-Jordan inverse of the driver is re-checked by exact multiplication on every call, not proved"]

SQRT2 = math.sqrt(2.0)


# ------------------------------------------------------------------------------------------ small tools

class Batch:
    """collects model requests; `cmp(model_answer)` returns None or a short description of the difference"""

    def __init__(self, ctx):
        self.ctx, self.reqs, self.meta = ctx, [], []
        self.enabled = ctx.proof_ok

    def add(self, pair, req, cmp, case=None):
        if not self.enabled:
            return
        self.reqs.append(req)
        self.meta.append((pair, case if case is not None else req, cmp))
        if len(self.reqs) >= 1500:
            self.flush()

    def flush(self):
        if not self.reqs:
            return
        res = self.ctx.lean(self.reqs)
        for (pair, case, cmp), model in zip(self.meta, res):
            self.ctx.corr_cases += 1
            if isinstance(model, dict) and "__error__" in model:
                self.ctx.disagree(pair + " (driver error)", case, model, None)
                continue
            try:
                diff = cmp(model)
            except Exception as e:            # malformed answer = disagreement, not a crash
                diff = "comparison failed: " + repr(e)
            if diff:
                self.ctx.disagree(pair, case, json.loads(json.dumps(model, default=core._jsonable))
                                  if len(str(model)) < 2000 else str(model)[:2000], diff)
                self.ctx.tally("disagree:" + pair)
        self.reqs, self.meta = [], []


def cmp_close(get_model, impl, tol=1e-11, what=""):
    def f(model):
        mv = get_model(model)
        if not T.close(mv, impl, tol):
            return f"{what} model={np.asarray(mv).tolist()} impl={np.asarray(impl).tolist()}"
        return None
    return f


def vec(model_list):
    return np.array([T.unfr(x) for x in model_list], dtype=float)


def dy(rng, lo=-16, hi=16, den=8):
    return rng.randint(lo, hi) / den


def rand_sym(rng, m, kind=None):
    """real symmetric matrix with dyadic entries"""
    kind = kind or rng.choice(["graph", "weighted", "loops", "dense"])
    A = np.zeros((m, m))
    for i in range(m):
        for j in range(i, m):
            if kind == "graph":
                v = float(rng.random() < 0.6) if i != j else 0.0
            elif kind == "weighted":
                v = dy(rng, -8, 8, 4) if i != j and rng.random() < 0.75 else 0.0
            elif kind == "loops":
                v = dy(rng, 0, 8, 4) if rng.random() < 0.8 else 0.0
            else:
                v = dy(rng, -8, 8, 4)
            A[i, j] = A[j, i] = v
    if not A.any():
        A[0, m - 1] = A[m - 1, 0] = 1.0
        if m == 1:
            A[0, 0] = 1.0
    return A


def rand_embedding(rng, m, embed):
    """(embedding, F, d): ExpFeatures with a dyadic feature matrix, or Exp(m)"""
    if rng.random() < 0.3:
        return embed.Exp(m), np.eye(m), m, "Exp"
    d = rng.randint(1, 4)
    F = np.array([[dy(rng, -8, 8, 4) if rng.random() < 0.85 else 0.0 for _ in range(d)] for _ in range(m)])
    return embed.ExpFeatures(F), F, d, "ExpFeatures"


def rand_theta(rng, d, zero_p=0.1):
    if rng.random() < zero_p:
        return np.zeros(d)
    return np.array([dy(rng, -6, 10, 16) for _ in range(d)])


def set_hbar(sf, h):
    sf.hbar = h


class Hbar:
    def __init__(self, sf, h):
        self.sf, self.h = sf, h

    def __enter__(self):
        self.old = self.sf.hbar
        self.sf.hbar = self.h

    def __exit__(self, *a):
        self.sf.hbar = self.old


def call(f, *a, **k):
    try:
        return "ok", f(*a, **k)
    except ValueError as e:
        return "ValueError", str(e)
    except Exception as e:     # any other exception class is reported as such
        return type(e).__name__, str(e)[:200]


# ------------------------------------------------------------------------------------------ checks (oracle)
# every check takes a JSON-able case, runs the REAL code, calls ctx.fail on a violation; replay re-runs it.

def vgbs_of(case):
    from strawberryfields.apps.train import embed, param
    A = np.array(case["A"], dtype=float)
    F = np.array(case["F"], dtype=float)
    emb = embed.Exp(len(A)) if case.get("exp") else embed.ExpFeatures(F)
    samples = np.array(case["samples"], dtype=int) if case.get("samples") else None
    return param.VGBS(A, case["n_mean"], emb, case["threshold"], samples), emb


def chk_kl_fd(ctx, case):
    """KL.grad = d KL.evaluate / d theta (PNR), central differences"""
    from strawberryfields.apps.train import cost
    vg, _ = vgbs_of(case)
    th = np.array(case["theta"], dtype=float)
    data = np.array(case["data"], dtype=int)
    kl = cost.KL(data, vg)
    g = np.asarray(kl.grad(th), dtype=float)
    eps = 1e-5
    fd = np.array([(kl.evaluate(th + eps * e) - kl.evaluate(th - eps * e)) / (2 * eps) for e in np.eye(len(th))])
    ctx.oracle_cases += 1
    if not (np.all(np.isfinite(fd)) and np.all(np.isfinite(g))):
        return       # a data pattern of probability 0: the cost is infinite there, nothing is claimed
    if g.shape != fd.shape or np.max(np.abs(g - fd)) > 2e-6 * max(1.0, np.max(np.abs(fd))):
        ctx.fail("train:KL.grad!=finite-difference", f"KL.grad {g.tolist()} vs finite differences {fd.tolist()} on {case}",
                 dict(chk="kl_fd", case=case))


def chk_stoch_fd(ctx, case):
    """Stochastic.grad = d Stochastic.evaluate / d theta on the same fixed sample set (PNR)"""
    from strawberryfields.apps.train import cost
    vg, _ = vgbs_of(case)
    th = np.array(case["theta"], dtype=float)
    hw = np.array(case["hw"], dtype=float)
    h = lambda s: float(np.dot(hw[:-1], s) + hw[-1])
    st = cost.Stochastic(h, vg)
    n = len(case["samples"])
    g = np.asarray(st.grad(th, n), dtype=float)
    eps = 1e-5
    fd = np.array([(st.evaluate(th + eps * e, n) - st.evaluate(th - eps * e, n)) / (2 * eps) for e in np.eye(len(th))])
    ctx.oracle_cases += 1
    if g.shape != fd.shape or not np.all(np.isfinite(g)) or \
            np.max(np.abs(g - fd)) > 2e-6 * max(1.0, np.max(np.abs(fd))):
        ctx.fail("train:Stochastic.grad!=finite-difference",
                 f"Stochastic.grad {g.tolist()} vs finite differences {fd.tolist()} on {case}",
                 dict(chk="stoch_fd", case=case))


def chk_state(ctx, case):
    """probabilities normalised and equal to those of the Gaussian state of A(theta); mean photon / click numbers
    equal those of that state; the initial mean equals the requested one"""
    import strawberryfields as sf
    from strawberryfields.apps.train import param
    with Hbar(sf, case.get("hbar", 2)):
        vg, emb = vgbs_of(case)
        th = np.array(case["theta"], dtype=float)
        m = len(case["A"])
        A0 = np.asarray(vg.A_init, dtype=float)
        w = np.exp(-np.array(case["F"], dtype=float) @ th) if not case.get("exp") else np.exp(-th)
        Ath = np.sqrt(np.outer(w, w)) * A0                      # own reading of W A W
        ctx.oracle_cases += 1
        rp = dict(chk="state", case=case)
        if np.linalg.svd(Ath, compute_uv=False).max() >= 0.95:
            return                                              # outside the GBS domain / badly conditioned
        # 1. initial mean = requested mean (rescale_adjacency)
        want = case["n_mean"]
        got0 = T.mean_clicks(A0).sum() if case["threshold"] else T.mean_photons(A0).sum()
        reachable = np.linalg.svd(A0, compute_uv=False).max() < 0.95      # else the requested mean sits at the edge of
        if reachable and abs(got0 - want) > 1e-6 * max(1.0, want):         # (or beyond) what the matrix can give
            ctx.fail("train:rescale:initial-mean", f"A_init has mean {got0} instead of the requested {want} on {case}", rp)
        # 2. A(theta)
        if not T.close(vg.A(th), Ath, 1e-11):
            ctx.fail("train:VGBS.A!=WAW", f"VGBS.A differs from sqrt(w_i w_j) A_ij on {case}", rp)
        # 3. means
        mp = np.asarray(vg.mean_photons_by_mode(th), dtype=float)
        if not T.close(mp, T.mean_photons(Ath), 1e-8):
            ctx.fail("train:mean_photons_by_mode", f"{mp.tolist()} vs state {T.mean_photons(Ath).tolist()} on {case}", rp)
        mc = np.asarray(vg.mean_clicks_by_mode(th), dtype=float)
        if not T.close(mc, T.mean_clicks(Ath), 1e-8):
            ctx.fail("train:mean_clicks_by_mode", f"{mc.tolist()} vs state {T.mean_clicks(Ath).tolist()} on {case}", rp)
        nm = float(vg.n_mean(th))
        ref = T.mean_clicks(Ath).sum() if case["threshold"] else T.mean_photons(Ath).sum()
        if abs(nm - ref) > 1e-8 * max(1.0, ref):
            ctx.fail("train:n_mean", f"n_mean {nm} vs state {ref} (threshold={case['threshold']}) on {case}", rp)
        # 4. probabilities
        if case["threshold"]:
            tot, by_mode = 0.0, np.zeros(m)
            for s in itertools.product([0, 1], repeat=m):
                p = float(np.real(vg.prob_sample(th, np.array(s))))
                tot += p
                by_mode += np.array(s) * p
            if abs(tot - 1) > 1e-8:
                ctx.fail("train:prob_click:normalisation", f"click probabilities sum to {tot} on {case}", rp)
            if not T.close(by_mode, T.mean_clicks(Ath), 1e-8):
                ctx.fail("train:prob_click:marginals", f"click marginals {by_mode.tolist()} vs state "
                         f"{T.mean_clicks(Ath).tolist()} on {case}", rp)
        else:
            tot_i = tot_o = 0.0
            worst = None
            for s in T.patterns_upto(m, case.get("nmax", 6)):
                pi = float(vg.prob_sample(th, np.array(s)))
                po = T.gbs_prob(Ath, s)
                tot_i += pi
                tot_o += po
                if abs(pi - po) > 1e-9 and worst is None:
                    worst = (s, pi, po)
            if worst:
                ctx.fail("train:prob_photon_sample!=state", f"P{worst[0]} = {worst[1]} vs {worst[2]} of the Gaussian state "
                         f"of A(theta) on {case}", rp)
            if tot_i > 1 + 1e-8 or abs(tot_i - tot_o) > 1e-8:
                ctx.fail("train:prob_photon_sample:normalisation", f"sum of probabilities {tot_i} (state: {tot_o}) on {case}", rp)
            ctx.tally("state:pnr-mass-covered>=0.99" if tot_o >= 0.99 else "state:pnr-mass-covered<0.99")


def own_graph_state(case):
    import thewalrus.quantum as twq
    A = np.array(case["A"], dtype=float)
    x = T.scale_to_mean(A, case["n_mean"])
    V = T.cov_xxpp(x * A, case["loss"])
    return V, twq


def chk_orbit(ctx, case):
    """prob_orbit_exact / prob_event_exact = sum of the pattern probabilities of an independently built state"""
    import networkx as nx
    from strawberryfields.apps import similarity
    A = np.array(case["A"], dtype=float)
    g = nx.from_numpy_array(A)
    m = len(A)
    V, twq = own_graph_state(case)
    ctx.oracle_cases += 1

    def table(photons):
        if photons == 0:
            cut = 1
        else:
            cut = photons + 1
        probs = twq.probabilities(np.zeros(2 * m), V, cut, hbar=2)
        return np.real(probs)

    if "orbit" in case:
        orbit = list(case["orbit"])
        want = 0.0
        if len(orbit) <= m:
            tab = table(sum(orbit))
            for s in T.patterns_exact(m, sum(orbit)):
                if sorted([c for c in s if c], reverse=True) == sorted([c for c in orbit if c], reverse=True):
                    want += float(tab[s])
        st, got = call(similarity.prob_orbit_exact, g, list(orbit), case["n_mean"], case["loss"])
        name, sig = f"prob_orbit_exact({orbit})", "similarity:prob_orbit_exact"
    else:
        n, mx = case["photons"], case["max"]
        tab = table(n)
        want = sum(float(tab[s]) for s in T.patterns_exact(m, n) if max(s, default=0) <= mx)
        st, got = call(similarity.prob_event_exact, g, n, mx, case["n_mean"], case["loss"])
        name, sig = f"prob_event_exact({n}, {mx})", "similarity:prob_event_exact"
    if st != "ok":
        ctx.fail(sig + ":raises", f"{name} raises {st}: {got} (expected {want}) on {case}", dict(chk="orbit", case=case))
    elif not (abs(float(got) - want) <= 1e-7 * max(1.0, want) + 1e-10):
        ctx.fail(sig + ":value", f"{name} = {got}, brute force over the state gives {want} on {case}",
                 dict(chk="orbit", case=case))


def chk_time(ctx, case):
    """TimeEvolution: conserves photon number on the Fock back end, has the documented phase on the Gaussian one"""
    import strawberryfields as sf
    from strawberryfields.apps.qchem import dynamics
    w = np.array(case["w"], dtype=float)
    t = case["t"]
    n = len(w)
    N = case.get("N", n)
    regs = case.get("regs", list(range(n)))
    ctx.oracle_cases += 1
    rp = dict(chk="time", case=case)
    th = T.theta_ref(w, t)
    # Gaussian: coherent amplitudes pick up e^{i theta}, spectators untouched
    amps = np.array(case["alpha"], dtype=complex) if "alpha" in case else None
    if amps is None:
        amps = np.array([0.3 + 0.1 * k + 0.2j * (k + 1) for k in range(N)])
    prog = sf.Program(N)
    with prog.context as q:
        for k in range(N):
            sf.ops.Dgate(abs(amps[k]), float(np.angle(amps[k]))) | q[k]
        if N >= 2:
            sf.ops.BSgate(0.4, 0.3) | (q[0], q[1])
        dynamics.TimeEvolution(w, t) | [q[r] for r in regs]
    ref = sf.Program(N)
    with ref.context as q:
        for k in range(N):
            sf.ops.Dgate(abs(amps[k]), float(np.angle(amps[k]))) | q[k]
        if N >= 2:
            sf.ops.BSgate(0.4, 0.3) | (q[0], q[1])
    mu1 = sf.Engine("gaussian").run(prog).state.means()
    mu0 = sf.Engine("gaussian").run(ref).state.means()
    a1 = (mu1[:N] + 1j * mu1[N:]) / 2
    a0 = (mu0[:N] + 1j * mu0[N:]) / 2
    want = a0.copy()
    for i, r in enumerate(regs):
        want[r] = a0[r] * np.exp(1j * th[i])
    if not T.close(a1, want, 1e-9):
        ctx.fail("dynamics:TimeEvolution:phase", f"amplitudes {a1.tolist()} instead of {want.tolist()} "
                 f"(a_i -> a_i exp(-i 2 pi c w_i t)) on {case}", rp)
    # Fock: a Fock input of total photon number below the cutoff, through U_l^T, exp(-iHt), U_l
    if case.get("fock"):
        fk = case["fock"]
        D = sum(fk) + 1
        Ul = np.array(case["Ul"], dtype=float)
        p2 = sf.Program(n)
        with p2.context as q:
            for k in range(n):
                sf.ops.Fock(fk[k]) | q[k]
            sf.ops.Interferometer(Ul.T) | q
            dynamics.TimeEvolution(w, t) | q
            sf.ops.Interferometer(Ul) | q
        with warnings.catch_warnings():
            warnings.simplefilter("ignore")
            state = sf.Engine("fock", backend_options={"cutoff_dim": D}).run(p2).state
        probs = np.real(state.all_fock_probs())
        tot = sum(float(probs[s]) for s in T.patterns_exact(n, sum(fk)))
        if abs(tot - 1) > 1e-8 or abs(probs.sum() - 1) > 1e-8:
            ctx.fail("dynamics:photon-number-not-conserved", f"probability {tot} on total photon number {sum(fk)} "
                     f"(trace {probs.sum()}) after U(t) on |{fk}> on {case}", rp)
        # own single-particle propagation for one-photon inputs: amplitudes U_l diag(e^{i theta}) U_l^T e_k
        if sum(fk) == 1:
            k0 = fk.index(1)
            amp = Ul @ (np.exp(1j * th) * (Ul.T[:, k0]))
            own = np.abs(amp) ** 2
            got = np.array([float(probs[tuple(int(i == j) for i in range(n))]) for j in range(n)])
            if not T.close(got, own, 1e-8):
                ctx.fail("dynamics:single-excitation-transfer", f"one-photon transfer probabilities {got.tolist()} vs "
                         f"|U_l e^(i theta) U_l^T|^2 = {own.tolist()} on {case}", rp)


def chk_vibronic(ctx, case):
    """gbs_params reconstructs the Duschinsky relation; the Doktorov circuit maps the vacuum to the initial
    vibrational ground state in the coordinates of the final state"""
    import strawberryfields as sf
    from strawberryfields.apps.qchem import vibronic
    w, wp = np.array(case["w"], dtype=float), np.array(case["wp"], dtype=float)
    Ud, delta, Tk = np.array(case["Ud"], dtype=float), np.array(case["delta"], dtype=float), case["T"]
    n = len(w)
    ctx.oracle_cases += 1
    rp = dict(chk="vibronic", case=case)
    t, U1, r, U2, alpha = vibronic.gbs_params(w, wp, Ud, delta, Tk)
    J = T.duschinsky_J(w, wp, Ud)
    if not (T.close(U1 @ np.conj(U1).T, np.eye(n), 1e-9) and T.close(U2 @ np.conj(U2).T, np.eye(n), 1e-9)):
        ctx.fail("vibronic:gbs_params:unitaries", f"U1 / U2 not unitary on {case}", rp)
    if not T.close(U2 @ np.diag(np.exp(r)) @ U1, J, 1e-9):
        ctx.fail("vibronic:gbs_params:duschinsky-matrix", f"U2 exp(r) U1 differs from sqrt(wp) Ud / sqrt(w) on {case}", rp)
    if not T.close(np.asarray(alpha) * SQRT2, delta, 1e-12):
        ctx.fail("vibronic:gbs_params:displacement", f"alpha sqrt(2) = {(np.asarray(alpha) * SQRT2).tolist()} vs delta on {case}", rp)
    if Tk == 0:
        if np.any(np.asarray(t) != 0) or len(t) != n:
            ctx.fail("vibronic:gbs_params:zero-temperature", f"t = {np.asarray(t).tolist()} at T = 0 on {case}", rp)
    else:
        if len(t) != n or not T.close(np.tanh(t) ** 2, T.boltzmann_factor(w, Tk), 1e-9):
            ctx.fail("vibronic:gbs_params:thermal-squeezing", f"tanh(t)^2 = {(np.tanh(t) ** 2).tolist()} vs Boltzmann factors "
                     f"{T.boltzmann_factor(w, Tk).tolist()} on {case}", rp)
    # the circuit on the Gaussian back end
    N = case.get("N", n)
    regs = case.get("regs", list(range(n)))
    prog = sf.Program(N)
    with prog.context as q:
        vibronic.VibronicTransition(U1, r, U2, alpha) | [q[k] for k in regs]
    state = sf.Engine("gaussian").run(prog).state
    mu, V = np.asarray(state.means()), np.asarray(state.cov())
    ix = list(regs) + [k + N for k in regs]
    rest = [k for k in range(2 * N) if k not in ix]
    mu_t, V_t = mu[ix], V[np.ix_(ix, ix)]
    if rest and not (T.close(V[np.ix_(rest, rest)], np.eye(len(rest)), 1e-9) and T.close(V[np.ix_(ix, rest)], 0 * V[np.ix_(ix, rest)], 1e-9, 1.0)):
        ctx.fail("vibronic:VibronicTransition:spectators", f"modes outside {regs} are touched on {case}", rp)
    mu_w, V_w = T.doktorov_state(J, delta)
    G = J @ J.T
    scale = max(1.0, float(np.max(np.abs(V_w))))
    # a common rotation of all modes by a quarter turn (x -> p, p -> -x) commutes with photon counting: the Franck-Condon
    # factors cannot tell the two states apart, so both are accepted
    Rq = np.block([[np.zeros((n, n)), -np.eye(n)], [np.eye(n), np.zeros((n, n))]])
    same = any(T.close(R @ mu_t, mu_w, 1e-8) and T.close(R @ V_t @ R.T, V_w, 1e-8, scale) for R in (np.eye(2 * n), Rq, -Rq, -np.eye(2 * n)))
    if not same:
        # classify: the position and momentum blocks exchanged while the displacement stays along x
        V_sw = np.block([[np.linalg.inv(G), np.zeros((n, n))], [np.zeros((n, n)), G]])
        if T.close(mu_t, mu_w, 1e-8) and T.close(V_t, V_sw, 1e-8, scale):
            ctx.fail("vibronic:doktorov-circuit:squeezed-quadrature-exchanged",
                     f"VibronicTransition(*gbs_params) gives Cov(x) = (J J^T)^-1, Cov(p) = J J^T with the displacement "
                     f"along x; the Duschinsky relation Q' = J Q + delta needs Cov(x) = J J^T on {case}", rp)
        else:
            ctx.fail("vibronic:doktorov-circuit:state", f"state of the Doktorov circuit: means {mu_t.tolist()} cov "
                     f"{np.round(V_t, 6).tolist()} vs Duschinsky {mu_w.tolist()} / {np.round(V_w, 6).tolist()} on {case}", rp)


def chk_sample_shape(ctx, case):
    """vibronic.sample returns patterns on 2N modes; the last N are zero-padded only when no thermal modes exist"""
    from strawberryfields.apps.qchem import vibronic
    n = len(case["t"])
    U = np.eye(n)
    ctx.oracle_cases += 1
    np.random.seed(case.get("seed", 1))
    st, s = call(vibronic.sample, np.array(case["t"], dtype=float), U, np.array(case["r"], dtype=float), U,
                 np.array(case["alpha"], dtype=float), case.get("shots", 2))
    if st != "ok":
        ctx.fail("vibronic:sample:raises", f"sample raises {st}: {s} on {case}", dict(chk="sample_shape", case=case))
        return
    shape = np.array(s).shape
    if shape != (case.get("shots", 2), 2 * n):
        ctx.fail("vibronic:sample:shape", f"samples have shape {shape}, expected {(case.get('shots', 2), 2 * n)} on {case}",
                 dict(chk="sample_shape", case=case))


def chk_marginals(ctx, case):
    """utils.marginals = single-mode photon-number distributions of the state (vs the Fock back end, own partial trace)"""
    import strawberryfields as sf
    from lib import sim
    from strawberryfields.apps.qchem import utils
    spec = case["spec"]
    ref = sim.reference(spec)
    hb = case.get("hbar", 2.0)
    n = spec["n"]
    nmax = case["nmax"]
    ctx.oracle_cases += 1
    rp = dict(chk="marginals", case=case)
    st, p = call(utils.marginals, ref.mu * math.sqrt(hb / 2), ref.V * hb / 2, nmax, hb)
    if st != "ok":
        ctx.fail("utils:marginals:raises", f"marginals raises {st}: {p} on {case}", rp)
        return
    p = np.asarray(p)
    if p.shape != (n, nmax):
        ctx.fail("utils:marginals:shape", f"shape {p.shape} instead of {(n, nmax)} on {case}", rp)
        return
    D = case.get("cutoff", 14)
    with warnings.catch_warnings():
        warnings.simplefilter("ignore")
        state, _ = sim.run_spec(sf, spec, "fock", cutoff_dim=D)
    rho = sim.dm_of(state)
    tr = float(np.real(sim.reduced_dm(rho, n, [])))
    if 1 - tr > 1e-7:
        ctx.tally("marginals:skipped-truncation")
        return
    for k in range(n):
        own = np.real(np.diag(sim.reduced_dm(rho, n, [k])))[:nmax]
        if not T.close(p[k, :len(own)], own, 1e-6, 1.0):
            ctx.fail("utils:marginals:value", f"mode {k}: {p[k].tolist()} vs Fock simulation {own.tolist()} on {case}", rp)
            return


def chk_duschinsky(ctx, case):
    from strawberryfields.apps.qchem import utils
    a = {k: np.array(v, dtype=float) for k, v in case.items()}
    ctx.oracle_cases += 1
    U, delta = utils.duschinsky(a["Li"], a["Lf"], a["ri"], a["rf"], a["wf"], a["m"])
    Uo, do = T.duschinsky_ref(a["Li"], a["Lf"], a["ri"], a["rf"], a["wf"], a["m"])
    if not (T.close(U, Uo, 1e-12) and T.close(delta, do, 1e-7)):
        ctx.fail("utils:duschinsky", f"U / delta = {np.asarray(U).tolist()} / {np.asarray(delta).tolist()} vs "
                 f"{Uo.tolist()} / {do.tolist()} on {case}", dict(chk="duschinsky", case=case))



# ------------------------------------------------------------------------------------------ history / aliasing oracles

def _train_stack(case, cfg):
    """fresh arrays and fresh objects for the configuration `cfg` = (n_mean, threshold)"""
    from strawberryfields.apps.train import cost, embed, param
    A = np.array(case["A"], dtype=float)
    F = np.array(case["F"], dtype=float)
    emb = embed.Exp(len(A)) if case.get("exp") else embed.ExpFeatures(F)
    data = np.array(case["data"], dtype=int)
    hw = np.array(case["hw"], dtype=float)
    h = lambda s_: float(np.dot(hw[:-1], s_) + hw[-1])
    vg = param.VGBS(A, cfg[0], emb, cfg[1], data.copy())
    return dict(A=A, F=F, emb=emb, data=data, vg=vg, kl=cost.KL(data, vg), st=cost.Stochastic(h, vg), h=h)


def _train_call(stk, name, th, arg):
    vg, kl, st = stk["vg"], stk["kl"], stk["st"]
    if name == "A":
        return vg.A(th)
    if name == "W":
        return vg.W(th)
    if name == "mean_photons":
        return vg.mean_photons_by_mode(th)
    if name == "mean_clicks":
        return vg.mean_clicks_by_mode(th)
    if name == "n_mean":
        return vg.n_mean(th)
    if name == "prob_sample":
        return vg.prob_sample(th, np.array(arg))
    if name == "weights":
        return stk["emb"](th)
    if name == "jacobian":
        return stk["emb"].jacobian(th)
    if name == "kl_grad":
        return kl.grad(th)
    if name == "kl_eval":
        return kl.evaluate(th)
    if name == "st_grad":
        return st.grad(th, arg)
    if name == "st_eval":
        return st.evaluate(th, arg)
    if name == "h_rep":
        return st.h_reparametrized(np.array(arg), th)
    if name == "samples":
        return vg.get_A_init_samples(arg)
    raise KeyError(name)


def chk_history_train(ctx, case):
    """one VGBS / KL / Stochastic stack (and one adjacency array, one embedding, shared parameter arrays) used for a
    whole script of calls; every answer must equal the answer of freshly built equal objects, every input must be left
    as it was, and scribbling over a returned array must not change later answers"""
    ctx.oracle_cases += 1
    rp = dict(chk="history_train", case=case)
    cfg = (case["n_mean"], case["threshold"])
    shared = _train_stack(case, cfg)
    A_obj, emb_obj = shared["A"], shared["emb"]
    pool = [np.array(t, dtype=float) for t in case["thetas"]]           # shared parameter arrays
    content = [list(t) for t in case["thetas"]]
    for k, step in enumerate(case["steps"]):
        name = step[0]
        if name == "edit_theta":                                         # the same ndarray object, new content
            i, j, v = step[1:]
            pool[i][j] = v
            content[i][j] = v
            continue
        if name == "rebuild":                                            # a second VGBS from the same A / embedding objects
            from strawberryfields.apps.train import cost, param
            cfg = (step[1], bool(step[2]))
            shared["vg"] = param.VGBS(A_obj, cfg[0], emb_obj, cfg[1], shared["data"].copy())
            shared["kl"] = cost.KL(shared["data"], shared["vg"])
            shared["st"] = cost.Stochastic(shared["h"], shared["vg"])
            continue
        i, arg = step[1], (step[2] if len(step) > 2 else None)
        got = _train_call(shared, name, pool[i], arg)
        fresh = _train_stack(case, cfg)
        want = _train_call(fresh, name, np.array(content[i], dtype=float), arg)
        where = f"step {k} {step} (configuration n_mean={cfg[0]}, threshold={cfg[1]})"
        if not T.close(np.asarray(got, dtype=complex), np.asarray(want, dtype=complex), 1e-11):
            ctx.fail(f"history:train:{name}", f"{name} on reused objects gives {np.asarray(got).tolist()}, freshly built "
                     f"objects give {np.asarray(want).tolist()} at {where} of {case}", rp)
            return
        # inputs untouched
        if not (np.array_equal(A_obj, np.array(case["A"], dtype=float)) and np.array_equal(shared["F"], np.array(case["F"], dtype=float))
                and np.array_equal(pool[i], np.array(content[i], dtype=float))
                and np.array_equal(shared["data"], np.array(case["data"], dtype=int))
                and np.array_equal(np.asarray(emb_obj.features), np.asarray(fresh["emb"].features))):
            ctx.fail(f"history:train:input-modified:{name}", f"{name} modified one of its inputs (adjacency, features, "
                     f"parameters, data) at {where} of {case}", rp)
            return
        if not (T.close(shared["vg"].A_init, fresh["vg"].A_init, 1e-12) and
                np.array_equal(shared["vg"].A_init_samples, fresh["vg"].A_init_samples)
                and T.close(shared["kl"].mean_n_data, fresh["kl"].mean_n_data, 1e-14)):
            ctx.fail(f"history:train:state-drift:{name}", f"A_init / A_init_samples / mean_n_data changed by {where} of {case}", rp)
            return
        if isinstance(got, np.ndarray) and got.size and name != "samples":
            try:
                got[...] = 7.25                                          # scribble over the returned array
            except ValueError:
                pass
    ctx.tally("history:train:steps", len(case["steps"]))


def chk_history_graph(ctx, case):
    """one networkx graph object queried repeatedly with different mean photon numbers / losses and edited in place in
    between: every answer must equal the answer for a freshly built graph with the current edges"""
    import networkx as nx
    from strawberryfields.apps import similarity
    ctx.oracle_cases += 1
    rp = dict(chk="history_graph", case=case)
    A = np.array(case["A"], dtype=float)
    g = nx.from_numpy_array(A)
    for k, step in enumerate(case["steps"]):
        if step[0] == "toggle":
            i, j = step[1:]
            if g.has_edge(i, j):
                g.remove_edge(i, j)
            else:
                g.add_edge(i, j)
            continue
        cur = nx.to_numpy_array(g, nodelist=range(len(A)))
        fresh = nx.from_numpy_array(cur)
        if step[0] == "orbit":
            _, orbit, n_mean, loss = step
            got = call(similarity.prob_orbit_exact, g, list(orbit), n_mean, loss)
            want = call(similarity.prob_orbit_exact, fresh, list(orbit), n_mean, loss)
        else:
            _, n, mx, n_mean, loss = step
            got = call(similarity.prob_event_exact, g, n, mx, n_mean, loss)
            want = call(similarity.prob_event_exact, fresh, n, mx, n_mean, loss)
        same = got[0] == want[0] and (got[0] != "ok" or abs(float(got[1]) - float(want[1])) <= 1e-12)
        if not same:
            ctx.fail("history:graph:" + step[0], f"{step} on the reused graph object gives {got}, a fresh graph with the same "
                     f"edges {sorted(fresh.edges)} gives {want} at step {k} of {case}", rp)
            return
        if not np.array_equal(nx.to_numpy_array(g, nodelist=range(len(A))), cur) or list(g.nodes) != list(range(len(A))):
            ctx.fail("history:graph:input-modified", f"{step} modified the graph at step {k} of {case}", rp)
            return


def chk_qchem_inputs(ctx, case):
    """gbs_params / energies / duschinsky / marginals / TimeEvolution leave their array arguments alone and answer the
    same when called twice with the same objects"""
    import strawberryfields as sf
    from strawberryfields.apps.qchem import dynamics, utils, vibronic
    ctx.oracle_cases += 1
    rp = dict(chk="qchem_inputs", case=case)
    w, wp = np.array(case["w"], dtype=float), np.array(case["wp"], dtype=float)
    Ud, delta = np.array(case["Ud"], dtype=float), np.array(case["delta"], dtype=float)
    snap = [x.copy() for x in (w, wp, Ud, delta)]
    r1 = vibronic.gbs_params(w, wp, Ud, delta, case["T"])
    r2 = vibronic.gbs_params(w, wp, Ud, delta, case["T"])
    if not all(np.array_equal(a, b) for a, b in zip((w, wp, Ud, delta), snap)):
        ctx.fail("history:gbs_params:input-modified", f"gbs_params modified an argument on {case}", rp)
    if not all(T.close(a, b, 1e-13) for a, b in zip(r1, r2)):
        ctx.fail("history:gbs_params:not-repeatable", f"two calls of gbs_params differ on {case}", rp)
    # energies: own formula, list and single-sample branch, arguments untouched
    n = len(w)
    samples = case["samples"]
    want = [float(np.dot(s_[:n], wp) - np.dot(s_[n:], w)) for s_ in samples]
    keep = json.loads(json.dumps(samples))
    st, got = call(vibronic.energies, samples, w, wp)
    st1, got1 = call(vibronic.energies, samples[0], w, wp)
    if st != "ok" or not T.close(got, want, 1e-12) or st1 != "ok" or not T.close(got1, want[0], 1e-12) or samples != keep:
        ctx.fail("vibronic:energies", f"energies {st} {got} / single {st1} {got1} vs m.wp - n.w = {want} on {case}", rp)
    # TimeEvolution built twice from the same frequency array, the array edited in place in between
    t = case["t"]
    ths = []
    for rnd in range(2):
        prog = sf.Program(n)
        with prog.context as q:
            dynamics.TimeEvolution(w, t) | q
        ths.append([float(c.op.p[0]) for c in prog.circuit])
        if not T.close(ths[-1], T.theta_ref(w, t), 1e-12):
            ctx.fail("history:TimeEvolution:stale-angles", f"round {rnd}: angles {ths[-1]} vs -2 pi c w t = "
                     f"{T.theta_ref(w, t).tolist()} (frequency array edited in place between the rounds) on {case}", rp)
            break
        w[0] += 17.0                                  # same array object, new content
    w[0] -= 34.0


def _capture_programs(fn, *a, **k):
    """run `fn` and record every (program, engine backend, options, shots) handed to LocalEngine.run"""
    import strawberryfields as sf
    from strawberryfields.engine import LocalEngine
    rec = []
    orig = LocalEngine.run

    def run(self, program, *args, **kwargs):
        rec.append(dict(ops=[[c.op.__class__.__name__, [r.ind for r in c.reg], [p for p in c.op.p]] for c in program.circuit],
                        n=program.num_subsystems, backend=self.backend_name, options=dict(self.backend_options),
                        shots=kwargs.get("shots")))
        return orig(self, program, *args, **kwargs)
    LocalEngine.run = run
    try:
        return call(fn, *a, **k), rec
    finally:
        LocalEngine.run = orig


def _fmt_ops(ops, ident):
    """[[class, parameter index (via `ident`), modes]] of a captured program"""
    return [[name, ident(name, pars, regs), regs] for name, regs, pars in ops]


def sample_program_case(ctx, B, kind, case):
    """correspondence + oracle for one call of vibronic.sample / dynamics.sample_*: the program handed to the engine vs
    the model's command list, parameters by value, engine options, shape of what is returned"""
    from strawberryfields.apps.qchem import dynamics, vibronic
    n = case["n"]
    loss = case["loss"]
    np.random.seed(case["seed"])
    Ul = np.array(case["Ul"], dtype=float)
    w = np.array(case["w"], dtype=float)
    th = T.theta_ref(w, case["t"])
    par = {}
    if kind == "vibsample":
        t, r, alpha = (np.array(case[k], dtype=float) for k in ("tt", "r", "alpha"))
        U2 = np.array(case["U2"], dtype=float)
        (st, out), rec = _capture_programs(vibronic.sample, t, Ul, r, U2, alpha, case["shots"], loss)
        anyT = bool(np.any(t != 0))
        par = dict(S2gate=[[x, 0.0] for x in t], Sgate=[[x, 0.0] for x in r], Dgate=[[abs(x), float(np.angle(x))] for x in alpha],
                   I1=Ul, I2=U2)
        width = 2 * n
    elif kind == "dynfock":
        (st, out), rec = _capture_programs(dynamics.sample_fock, list(case["fock"]), case["t"], Ul, w, case["shots"], case["cutoff"], loss)
        anyT = True
        par = dict(Fock=[[x] for x in case["fock"]], Rgate=[[x] for x in th], I1=Ul.T, I2=Ul)
        width = n
    elif kind == "dyntmsv":
        (st, out), rec = _capture_programs(dynamics.sample_tmsv, [list(x) for x in case["r2"]], case["t"], Ul, w, case["shots"], loss)
        anyT = True
        par = dict(S2gate=[list(x) for x in case["r2"]], Rgate=[[x] for x in th], I1=Ul.T, I2=Ul)
        width = 2 * n
    else:
        (st, out), rec = _capture_programs(dynamics.sample_coherent, [list(x) for x in case["a2"]], case["t"], Ul, w, case["shots"], loss)
        anyT = True
        par = dict(Dgate=[list(x) for x in case["a2"]], Rgate=[[x] for x in th], I1=Ul.T, I2=Ul)
        width = n
    ctx.oracle_cases += 1
    rp = dict(chk="sample_program", case=dict(case, kind=kind))
    if st != "ok":
        ctx.fail(f"qchem:{kind}:raises", f"{kind} raises {st}: {out} on {case}", rp)
        return
    arr = np.array(out)
    if arr.shape != (case["shots"], width) or (arr < 0).any():
        ctx.fail(f"qchem:{kind}:shape", f"{kind} returns shape {arr.shape}, expected {(case['shots'], width)} on {case}", rp)
    if kind == "vibsample" and not anyT and arr.shape[1] == 2 * n and arr[:, n:].any():
        ctx.fail(f"qchem:{kind}:padding", f"non-zero counts in the padded columns on {case}", rp)
    if loss == 1.0 and arr.any():
        ctx.fail(f"qchem:{kind}:all-loss", f"photons detected although every photon is lost on {case}", rp)
    if not rec:
        ctx.fail(f"qchem:{kind}:no-engine-run", f"no program reached LocalEngine.run on {case}", rp)
        return
    first = rec[0]
    # parameters by value (oracle): every gate carries the documented parameter of ITS mode
    bad = None
    for name, regs, pars in first["ops"]:
        pv = [np.asarray(x, dtype=complex) if not np.isscalar(x) else complex(x) for x in pars]
        if name == "Interferometer":
            continue
        if name == "LossChannel":
            if abs(pv[0] - (1 - loss)) > 1e-14:
                bad = (name, regs, pars)
        elif name in par:
            i = regs[0]
            want = par[name][i] if i < len(par[name]) else None
            if want is None or not T.close([complex(x) for x in pv[:len(want)]], want, 1e-12):
                bad = (name, regs, [complex(x) for x in pv], want)
    if bad:
        ctx.fail(f"qchem:{kind}:parameter", f"program of {kind}: {bad[0]} on modes {bad[1]} carries {bad[2:]} on {case}", rp)
    lossy = sorted(regs[0] for name, regs, _ in first["ops"] if name == "LossChannel")
    if lossy != (list(range(first["n"])) if loss else []):
        ctx.fail(f"qchem:{kind}:loss-channels", f"loss channels on modes {lossy} of {first['n']} (loss = {loss}) on {case}", rp)
    meas = [regs for name, regs, _ in first["ops"] if name == "MeasureFock"]
    if meas != [list(range(first["n"]))] or first["ops"][-1][0] != "MeasureFock":
        ctx.fail(f"qchem:{kind}:measurement", f"measurements {meas} in a program on {first['n']} modes on {case}", rp)
    exp_backend = "fock" if kind == "dynfock" else "gaussian"
    runs_ok = (len(rec) == (case["shots"] if kind == "dynfock" else 1) and all(r["backend"] == exp_backend for r in rec)
               and (kind == "dynfock" or first["shots"] == case["shots"])
               and (kind != "dynfock" or first["options"].get("cutoff_dim") == case["cutoff"]))
    if not runs_ok:
        ctx.fail(f"qchem:{kind}:engine", f"engine runs {[(r['backend'], r['shots'], r['options']) for r in rec]} on {case}", rp)

    seen = [0]

    def ident(name, pars, regs):
        if name == "Interferometer":
            m = np.asarray(pars[0])
            seen[0] += 1
            is1 = m.shape == par["I1"].shape and np.array_equal(m, par["I1"])
            is2 = m.shape == par["I2"].shape and np.array_equal(m, par["I2"])
            return seen[0] if (is1 and is2 and seen[0] <= 2) else 1 if is1 else 2 if is2 else 0
        if name in ("LossChannel", "MeasureFock"):
            return 0
        return regs[0]
    impl_ops = _fmt_ops(first["ops"], ident)
    B.add(f"{kind} program", dict(op="train.sampleops", kind=kind, n=n, anyT=anyT, loss=bool(loss)),
          lambda model, impl_ops=impl_ops, nm=first["n"], w_=arr.shape[1] if arr.ndim == 2 else -1:
          None if (model["ops"] == impl_ops and model["modes"] == nm and model["modes"] + model["pad"] == w_) else
          f"program {impl_ops} on {nm} modes, {w_} columns vs model {model}", dict(case, kind=kind))


def chk_sample_program(ctx, case):
    class _NoModel:
        def add(self, *a, **k):
            pass
    sample_program_case(ctx, _NoModel(), case["kind"], case)


def guarded(name, chk):
    """an exception escaping from the code under test on a valid input is a failing input, not a harness crash"""
    def run_chk(ctx, case):
        try:
            chk(ctx, case)
        except core.Infra:
            raise
        except Exception as e:
            tb = traceback.extract_tb(e.__traceback__)
            where = next((f"{fr.filename.split('/')[-1]}:{fr.lineno}" for fr in reversed(tb) if "strawberryfields" in fr.filename), "harness")
            if where == "harness":
                raise
            ctx.fail(f"{name}:raises:{type(e).__name__}", f"{type(e).__name__}: {str(e)[:200]} at {where} on {case}",
                     dict(chk=name, case=case))
    return run_chk


CHECKS = {k: guarded(k, v) for k, v in {
    "kl_fd": chk_kl_fd, "stoch_fd": chk_stoch_fd, "state": chk_state, "orbit": chk_orbit, "time": chk_time,
    "vibronic": chk_vibronic, "sample_shape": chk_sample_shape, "marginals": chk_marginals,
    "duschinsky": chk_duschinsky, "history_train": chk_history_train, "history_graph": chk_history_graph,
    "qchem_inputs": chk_qchem_inputs, "sample_program": chk_sample_program}.items()}


# ------------------------------------------------------------------------------------------ generators

def gen_train_case(rng, embed, mmax=4, threshold=None, pnr_small=False):
    m = rng.randint(1 if not pnr_small else 2, mmax)
    A = rand_sym(rng, m)
    emb, F, d, kind = rand_embedding(rng, m, embed)
    threshold = (rng.random() < 0.5) if threshold is None else threshold
    n_mean = rng.choice([0.25, 0.4, 0.6]) if not threshold else rng.choice([0.3, 0.6, 1.0]) * min(1.0, m / 2)
    th = rand_theta(rng, d)
    case = dict(A=A.tolist(), F=np.asarray(F).tolist(), exp=(kind == "Exp"), n_mean=float(n_mean),
                threshold=bool(threshold), theta=th.tolist())
    return case


def admissible(case):
    """A(theta) stays inside the GBS domain (singular values < 0.9)"""
    from strawberryfields.apps.train import param
    try:
        vg, _ = vgbs_of(case)
    except Exception:
        return None
    Ath = vg.A(np.array(case["theta"], dtype=float))
    if not np.all(np.isfinite(Ath)) or np.linalg.svd(Ath, compute_uv=False).max() >= 0.9:
        return None
    return vg


def positive_patterns(A, m, k, rng, tot=4):
    """patterns of positive probability under the GBS state of A"""
    pats = [s for s in T.patterns_upto(m, tot) if T.gbs_prob(A, s) > 1e-9]
    rng.shuffle(pats)
    return [list(s) for s in pats[:k]]


# ------------------------------------------------------------------------------------------ correspondence

def corr_embed(ctx, B):
    from strawberryfields.apps.train import embed
    rng = ctx.rng
    for _ in range(ctx.n(150, 1500)):
        m = rng.randint(1, 5)
        emb, F, d, kind = rand_embedding(rng, m, embed)
        lenθ = d if rng.random() < 0.9 else rng.choice([d + 1, max(0, d - 1)])
        th = rand_theta(rng, lenθ) if lenθ else np.zeros(0)
        st, w = call(emb.weights, th)
        st2, jac = call(emb.jacobian, th)
        stc, wc = call(emb, th)
        case = dict(kind=kind, F=np.asarray(F).tolist(), theta=th.tolist())
        wq = w if st == "ok" else np.ones(m)
        req = dict(op="train.embed", m=m, d=d, F=T.frmat(F), theta=T.frvec(th), w=T.frvec(wq))

        def cmp(model, st=st, w=w, st2=st2, jac=jac, stc=stc, wc=wc, m=m, d=d):
            ex = model["exponents"]
            if "err" in ex:
                ok = st == st2 == stc == "ValueError" and "Dimension of parameter vector" in str(w)
                return None if ok else f"model raises {ex['err']}, impl {st}/{st2}/{stc}: {w}"
            if not (st == st2 == stc == "ok"):
                return f"model ok, impl raises {st}/{st2}: {w} {jac}"
            e = vec(ex["ok"])
            if np.asarray(w).shape != (m,) or not T.close(np.asarray(w), np.exp(e), 1e-13) or not np.array_equal(w, wc):
                return f"weights {np.asarray(w).tolist()} vs exp(model exponents) {np.exp(e).tolist()}"
            mj = T.unmat(model["jac"]).reshape(m, d)
            if np.asarray(jac).shape != (m, d) or not T.close(np.asarray(jac), mj, 1e-13):
                return f"jacobian {np.asarray(jac).tolist()} vs model {mj.tolist()}"
            return None
        B.add("ExpFeatures.weights/jacobian", req, cmp, case)
        ctx.count("embed:" + kind + (":bad-length" if lenθ != d else ""), ("embed", case), m >= 2 and th.any(), sample=case)
    for n in (1, 2, 5):
        e = embed.Exp(n)
        B.add("Exp.features", dict(op="train.expid", n=n),
              lambda model, e=e, n=n: None if np.array_equal(T.unmat(model).reshape(n, n), e.features) else "features != identity")


def corr_param(ctx, B, sf):
    from strawberryfields.apps.train import embed, param
    import thewalrus.samples
    rng = ctx.rng
    # _Omat: complex integer matrices, exact
    for _ in range(ctx.n(60, 400)):
        n = rng.randint(1, 4)
        A = np.array([[complex(rng.randint(-3, 3), rng.randint(-3, 3)) for _ in range(n)] for _ in range(n)])
        O = param._Omat(A)
        req = dict(op="train.omat", n=n, A=[[[T.fr(z.real), T.fr(z.imag)] for z in row] for row in A])

        def cmp(model, O=O, n=n):
            mo = np.array([[complex(T.unfr(z[0]), T.unfr(z[1])) for z in row] for row in model]).reshape(2 * n, 2 * n)
            return None if O.shape == mo.shape and np.array_equal(O, mo) else f"_Omat {O.tolist()} vs model {mo.tolist()}"
        B.add("_Omat", req, cmp, dict(A=str(A.tolist())))
        ctx.count("omat", ("omat", str(A.tolist())), n >= 2)
    # A_to_cov at rational points, several hbar
    for _ in range(ctx.n(60, 400)):
        n = rng.randint(1, 4)
        A = rand_sym(rng, n)
        s = np.linalg.svd(A, compute_uv=False).max()
        A = A / (2 ** math.ceil(math.log2(s * rng.choice([1.3, 2.0, 4.0]))))        # dyadic scaling below 1
        hb = rng.choice([2, 2, 1, 0.5])
        with Hbar(sf, hb):
            cov = param.A_to_cov(A)
        req = dict(op="train.atocov", n=n, A=T.frmat(A), hbar=T.fr(hb))

        def cmp(model, cov=cov, n=n):
            if model.get("singular"):
                return "model: I - O singular"
            if model.get("inverseChecked") is not True:
                return "model inverse failed its own check"
            mc = T.unmat(model["cov"]).reshape(2 * n, 2 * n)
            return None if T.close(cov, mc, 1e-9) else f"A_to_cov {np.asarray(cov).tolist()} vs model {mc.tolist()}"
        B.add("A_to_cov", req, cmp, dict(A=A.tolist(), hbar=hb))
        ctx.count("atocov:hbar=%s" % hb, ("atocov", A.tolist(), hb), n >= 2)
    # VGBS.W / A
    for _ in range(ctx.n(120, 1200)):
        case = gen_train_case(rng, embed, mmax=5)
        try:
            vg, emb = vgbs_of(case)
        except Exception as e:
            ctx.tally("vgbs:construction-error:" + type(e).__name__)
            continue
        th = np.array(case["theta"])
        m = len(case["A"])
        w = emb(th)
        s = np.sqrt(w)
        W, Ath = vg.W(th), vg.A(th)
        req = dict(op="train.waw", n=m, s=T.frvec(s), A=T.frmat(vg.A_init))

        def cmp(model, W=W, Ath=Ath, m=m):
            mW, mA = T.unmat(model["W"]).reshape(m, m), T.unmat(model["A"]).reshape(m, m)
            if np.asarray(W).shape != (m, m) or not T.close(W, mW, 1e-15):
                return f"W {np.asarray(W).tolist()} vs model {mW.tolist()}"
            if np.asarray(Ath).shape != (m, m) or not T.close(Ath, mA, 1e-13):
                return f"A(theta) {np.asarray(Ath).tolist()} vs model {mA.tolist()}"
            return None
        B.add("VGBS.W/A", req, cmp, case)
        ctx.count("waw:" + ("threshold" if case["threshold"] else "pnr"), ("waw", case), m >= 2 and th.any(), sample=case)
        nm = vg.n_mean(th)
        byk = vg.mean_clicks_by_mode(th) if case["threshold"] else vg.mean_photons_by_mode(th)
        B.add("VGBS.n_mean", dict(op="train.nmean", m=m, v=T.frvec(byk)),
              cmp_close(lambda mo: T.unfr(mo), float(nm), 1e-13, "n_mean"), case)
    # generate_samples: which sampler, which covariance; sample store histories
    for _ in range(ctx.n(40, 300)):
        case = gen_train_case(rng, embed, mmax=3)
        try:
            vg, emb = vgbs_of(case)
        except Exception:
            continue
        m = len(case["A"])
        calls = []
        orig = (thewalrus.samples.torontonian_sample_state, thewalrus.samples.hafnian_sample_state)
        thewalrus.samples.torontonian_sample_state = lambda cov, n, **kw: calls.append(("torontonian_sample_state", cov, n, kw)) or np.zeros((n, m), dtype=int)
        thewalrus.samples.hafnian_sample_state = lambda cov, n, **kw: calls.append(("hafnian_sample_state", cov, n, kw)) or np.zeros((n, m), dtype=int)
        try:
            Ath = vg.A(np.array(case["theta"]))
            k = rng.randint(1, 4)
            vg.generate_samples(Ath, k)
        finally:
            thewalrus.samples.torontonian_sample_state, thewalrus.samples.hafnian_sample_state = orig
        name, cov, kk, kw = calls[0] if calls else ("none", None, None, {})
        ok_args = cov is not None and T.close(cov, param.A_to_cov(Ath), 1e-12) and kk == k and kw.get("hbar") == sf.hbar
        B.add("VGBS.generate_samples sampler", dict(op="train.sampler", threshold=case["threshold"]),
              lambda model, name=name, ok_args=ok_args: None if (model == name and ok_args) else
              f"calls {name} (args ok: {ok_args}), model {model}", case)
        # store history
        ops, log = [], []
        pre = rng.randint(0, 3) if rng.random() < 0.5 else 0
        counter = [0]

        def fresh(k, m=m):
            rows = np.array([[counter[0] + i] + [0] * (m - 1) for i in range(k)], dtype=int).reshape(k, m)
            counter[0] += k
            return rows
        vg2 = param.VGBS(np.array(case["A"]), case["n_mean"], emb, case["threshold"], fresh(pre) if pre else None)
        if pre:
            ops.append(["add", pre])
            log.append(dict(stored=pre))
        gen_args = []
        vg2.generate_samples = lambda A, n, **kw: gen_args.append((A, n)) or fresh(n)
        for _ in range(rng.randint(1, 6)):
            if rng.random() < 0.35:
                k = rng.randint(1, 3)
                vg2.add_A_init_samples(fresh(k))
                ops.append(["add", k])
                log.append(dict(stored=int(vg2.A_init_samples.shape[0])))
            else:
                n = rng.randint(1, 7)       # get_A_init_samples(0) on an empty store is not a use case
                before = len(gen_args)
                res = vg2.get_A_init_samples(n)
                req_n = gen_args[-1][1] if len(gen_args) > before else 0
                ops.append(["get", n])
                log.append(dict(stored=int(vg2.A_init_samples.shape[0]) if vg2.A_init_samples is not None else 0,
                                result=[int(r[0]) for r in res] if res is not None else [], requested=int(req_n)))
        from_init = all(a is vg2.A_init or np.array_equal(a, vg2.A_init) for a, _ in gen_args)
        B.add("VGBS sample store", dict(op="train.store", ops=ops),
              lambda model, log=log, from_init=from_init: None if (model == log and from_init) else
              f"impl history {log} (generated from A_init: {from_init})", dict(ops=ops))
        ctx.count("store", ("store", ops), len(ops) >= 3, sample=dict(ops=ops))


def corr_cost(ctx, B, sf):
    from strawberryfields.apps.train import cost, embed, param
    rng = ctx.rng
    for it in range(ctx.n(70, 600)):
        case = gen_train_case(rng, embed, mmax=3 if it % 3 else 4, pnr_small=True)
        vg = admissible(case)
        if vg is None:
            ctx.tally("cost:skipped-outside-domain")
            continue
        th = np.array(case["theta"])
        m, F = len(case["A"]), np.array(case["F"])
        d = len(th)
        emb = vg.embedding
        w = emb(th)
        Ath = vg.A(th)
        data = positive_patterns(np.asarray(vg.A_init), m, rng.randint(1, 6), rng) if not case["threshold"] else \
            [[rng.randint(0, 1) for _ in range(m)] for _ in range(rng.randint(1, 6))]
        if not data:
            continue
        case = dict(case, data=data)
        # KL.grad as the chain-rule image
        kl = cost.KL(np.array(data), vg)
        nModel = vg.mean_clicks_by_mode(th) if case["threshold"] else vg.mean_photons_by_mode(th)
        g = kl.grad(th)
        B.add("KL.grad", dict(op="train.klgrad", m=m, d=d, F=T.frmat(F), w=T.frvec(w), nModel=T.frvec(nModel), data=data),
              lambda model, g=g, kl=kl, m=m: (
                  None if (T.close(g, vec(model["grad"]), 1e-11) and T.close(kl.mean_n_data, vec(model["meanData"]), 1e-14))
                  else f"KL.grad {np.asarray(g).tolist()} vs model {vec(model['grad']).tolist()}"), case)
        ctx.count("klgrad:" + ("threshold" if case["threshold"] else "pnr"), ("kl", case), m >= 2 and th.any(), sample=case)
        # KL.evaluate from the logs
        probs = [vg.prob_sample(th, np.array(s)) for s in data]
        if all(np.real(p) > 0 for p in probs):
            logs = [float(np.log(np.real(p))) for p in probs]
            B.add("KL.evaluate", dict(op="train.klcost", logP=T.frvec(logs)),
                  cmp_close(lambda mo: T.unfr(mo), float(np.real(kl.evaluate(th))), 1e-12, "KL.evaluate"), case)
        # Stochastic
        hw = [dy(rng, -8, 8, 4) for _ in range(m + 1)]
        h = lambda s, hw=hw: float(np.dot(hw[:-1], s) + hw[-1])
        vg2 = param.VGBS(np.array(case["A"]), case["n_mean"], emb, case["threshold"], np.array(data))
        stc = cost.Stochastic(h, vg2)
        Id = np.eye(2 * m)
        dets = math.sqrt(np.linalg.det(Id - param._Omat(Ath)) / np.linalg.det(Id - param._Omat(vg2.A_init)))
        hreps = [stc.h_reparametrized(np.array(s), th) for s in data]
        ones = [stc._gradient_one_sample(np.array(s), th) for s in data]
        sg, sc = stc.grad(th, len(data)), stc.evaluate(th, len(data))
        req = dict(op="train.stoch", m=m, d=d, F=T.frmat(F), w=T.frvec(w), nModel=T.frvec(nModel), dets=T.fr(dets),
                   samples=[[T.fr(h(s)), s] for s in data])

        def cmp(model, hreps=hreps, ones=ones, sg=sg, sc=sc, d=d):
            if not T.close(hreps, vec(model["hrep"]), 1e-10):
                return f"h_reparametrized {np.asarray(hreps).tolist()} vs model {vec(model['hrep']).tolist()}"
            mo = np.array([vec(r) for r in model["one"]]).reshape(len(ones), d)
            if not T.close(np.array(ones), mo, 1e-10):
                return f"_gradient_one_sample {np.asarray(ones).tolist()} vs model {mo.tolist()}"
            if not T.close(sg, vec(model["grad"]), 1e-10):
                return f"Stochastic.grad {np.asarray(sg).tolist()} vs model {vec(model['grad']).tolist()}"
            if not T.close(sc, T.unfr(model["cost"]), 1e-10):
                return f"Stochastic.evaluate {sc} vs model {T.unfr(model['cost'])}"
            return None
        B.add("Stochastic.h_reparametrized/_gradient_one_sample/grad/evaluate", req, cmp, dict(case, hw=hw))
        # the exponential-family form the gradient theorems rest on:  P_theta(n) = c(n) prod w^n * Z_0 / Z_theta
        if not case["threshold"]:
            sup = [list(s) for s in T.patterns_upto(m, 4)]
            c = [float(param.prob_photon_sample(np.asarray(vg.A_init), np.array(s))) for s in sup]
            pth = [float(param.prob_photon_sample(Ath, np.array(s))) for s in sup]
            req = dict(op="train.expfam", m=m, w=T.frvec(w), S=[[s, T.fr(ci)] for s, ci in zip(sup, c)])
            B.add("exponential family form of prob_photon_sample", req,
                  lambda model, pth=pth, dets=dets: None if T.close(np.array(pth), vec(model["num"]) * dets, 1e-9, 1.0) else
                  f"P_theta {pth} vs c(n) prod w^n sqrt(det ratio) {(vec(model['num']) * dets).tolist()}", case)
            ctx.count("expfam", ("expfam", case), m >= 2 and th.any())


def corr_qchem(ctx, B, sf):
    from strawberryfields.apps.qchem import dynamics, utils, vibronic
    rng = ctx.rng
    nprng = ctx.nprng(3)
    kc = 100.0 * T.C_LIGHT * 1.0e-15
    for _ in range(ctx.n(60, 500)):
        n = rng.randint(1, 4)
        N = n + rng.randint(0, 2)
        regs = sorted(rng.sample(range(N), n)) if rng.random() < 0.6 else rng.sample(range(N), n)
        w = np.array([float(rng.randint(100, 4000)) + rng.choice([0, 0.25, 0.5]) for _ in range(n)])
        t = rng.choice([0.0, 1.0, 12.5, float(rng.randint(1, 100))])
        # --- TimeEvolution command list and angles
        prog = sf.Program(N)
        with prog.context as q:
            dynamics.TimeEvolution(w, t) | [q[k] for k in regs]
        impl = [[c.op.__class__.__name__, [r.ind for r in c.reg], [float(p) for p in c.op.p]] for c in prog.circuit]
        case = dict(w=w.tolist(), t=t, N=N, regs=regs)

        def cmp_ops(model, impl=impl, regs=regs):
            want = [[k, [regs[ms[0]]]] for k, _, ms in model]
            got = [[k, ms] for k, ms, _ in impl]
            return None if want == got else f"commands {got} vs model {want}"
        B.add("TimeEvolution commands", dict(op="train.ops", kind="time", n=n), cmp_ops, case)
        th_impl = [p[2][0] for p in impl] if len(impl) == n else []
        B.add("TimeEvolution angles", dict(op="train.theta", n=n, w=T.frvec(w), kc=T.fr(kc), t=T.fr(t), twoPi=T.fr(2.0 * math.pi)),
              cmp_close(lambda mo: vec(mo), np.array(th_impl), 1e-13, "theta"), case)
        ctx.count("time-ops", ("time", case), n >= 2 and t != 0, sample=case)
        # --- action on the Gaussian simulator (state attributes nmat / mmat / mean)
        eng = sf.Engine("gaussian")
        pre = sf.Program(N)
        with pre.context as q:
            for k in range(N):
                sf.ops.Sgate(dy(rng, -4, 4, 8), dy(rng, -8, 8, 4)) | q[k]
                sf.ops.Dgate(abs(dy(rng, 0, 6, 8)), dy(rng, -8, 8, 4)) | q[k]
            for k in range(N - 1):
                sf.ops.BSgate(dy(rng, 1, 8, 8), dy(rng, -8, 8, 4)) | (q[k], q[k + 1])
        eng.run(pre)
        c0 = eng.backend.circuit
        N0, M0, mu0 = c0.nmat.copy(), c0.mmat.copy(), c0.mean.copy()
        if regs == list(range(n)):
            ev = sf.Program(N)
            with ev.context as q:
                dynamics.TimeEvolution(w, t) | [q[k] for k in regs]
            eng.run(ev)
            c1 = eng.backend.circuit
            rots = [[T.fr(math.cos(a)), T.fr(math.sin(a))] for a in th_impl]
            cx = lambda z: [T.fr(z.real), T.fr(z.imag)]
            req = dict(op="train.timeevolve", n=N, N=[[cx(z) for z in row] for row in N0], M=[[cx(z) for z in row] for row in M0],
                       mean=[cx(z) for z in mu0], rots=rots)

            def cmp_te(model, c1N=c1.nmat.copy(), c1M=c1.mmat.copy(), c1m=c1.mean.copy(), N=N):
                un = lambda rows: np.array([[complex(T.unfr(z[0]), T.unfr(z[1])) for z in row] for row in rows]).reshape(N, N)
                mm_ = np.array([complex(T.unfr(z[0]), T.unfr(z[1])) for z in model["mean"]])
                ok = T.close(c1N, un(model["N"]), 1e-9) and T.close(c1M, un(model["M"]), 1e-9) and T.close(c1m, mm_, 1e-9)
                return None if ok else "nmat/mmat/mean after TimeEvolution differ from the model"
            B.add("TimeEvolution on GaussianModes", req, cmp_te, case)
        # --- VibronicTransition command list
        U1, U2 = T.rand_orthogonal(nprng, n), T.rand_orthogonal(nprng, n)
        if n == 1:
            U1, U2 = np.array([[1.0]]), np.array([[-1.0]])           # distinguishable
        r = np.array([dy(rng, -4, 4, 8) + 0.001 * (k + 1) for k in range(n)])
        alpha = np.array([dy(rng, -8, 8, 8) + 0.003 * (k + 1) for k in range(n)])
        prog = sf.Program(N)
        with prog.context as q:
            vibronic.VibronicTransition(U1, r, U2, alpha) | [q[k] for k in regs]
        got = []
        for c in prog.circuit:
            name = c.op.__class__.__name__
            p = c.op.p
            if name == "Interferometer":
                which = 1 if np.array_equal(p[0], U1) else 2 if np.array_equal(p[0], U2) else 0
                got.append([name, which, [x.ind for x in c.reg]])
            elif name == "Sgate":
                idx = [k for k in range(n) if float(p[0]) == r[k]]
                got.append([name, idx[0] if len(idx) == 1 and float(p[1]) == 0 else -1, [x.ind for x in c.reg]])
            elif name == "Dgate":
                idx = [k for k in range(n) if float(p[0]) == abs(alpha[k]) and float(p[1]) == float(np.angle(alpha[k]))]
                got.append([name, idx[0] if len(idx) == 1 else -1, [x.ind for x in c.reg]])
            else:
                got.append([name, -1, [x.ind for x in c.reg]])
        B.add("VibronicTransition commands", dict(op="train.ops", kind="vibronic", n=n),
              lambda model, got=got, regs=regs: None if [[k, p, [regs[x] for x in ms]] for k, p, ms in model] == got else
              f"commands {got} vs model {model} on registers {regs}", dict(n=n, N=N, regs=regs))
        ctx.count("vibronic-ops", ("vib", n, N, regs), n >= 2)
        # --- gbs_params: the matrix handed to the SVD, alpha; Doktorov blocks of the circuit
        wp = np.array([float(rng.randint(100, 4000)) for _ in range(n)])
        Ud = T.rand_orthogonal(nprng, n)
        if rng.random() < 0.4:
            Ud = Ud + 0.05 * nprng.normal(size=(n, n))
        delta = np.array([dy(rng, -12, 12, 8) for _ in range(n)])
        tt, V1, rr, V2, al = vibronic.gbs_params(w, wp, Ud, delta, rng.choice([0, 300.0]))
        Jimpl = V2 @ np.diag(np.exp(rr)) @ V1
        B.add("gbs_params matrix", dict(op="train.dad", n=n, a=T.frvec(wp ** 0.5), A=T.frmat(Ud), b=T.frvec(w ** -0.5)),
              cmp_close(lambda mo, n=n: T.unmat(mo).reshape(n, n), Jimpl, 1e-10, "U2 exp(r) U1"), dict(w=w.tolist(), wp=wp.tolist()))
        B.add("gbs_params alpha", dict(op="train.alpha", n=n, delta=T.frvec(delta), invSqrt2=T.fr(1 / SQRT2)),
              cmp_close(lambda mo: vec(mo), np.asarray(al), 1e-14, "alpha"), dict(delta=delta.tolist()))
        prog = sf.Program(n)
        with prog.context as q:
            vibronic.VibronicTransition(V1, rr, V2, al) | q
        V = np.asarray(sf.Engine("gaussian").run(prog).state.cov())
        sig = np.exp(rr)
        for blk, sg, sl in (("x", 1 / sig, slice(0, n)), ("p", sig, slice(n, 2 * n))):
            B.add(f"Doktorov {blk}-block of VibronicTransition",
                  dict(op="train.doktorov", n=n, U2=T.frmat(V2), sigma=T.frvec(sg), U1=T.frmat(V1)),
                  lambda model, Vb=V[sl, sl], n=n: (lambda X: None if T.close(Vb, X @ X.T, 1e-8) else
                                                     f"covariance block {Vb.tolist()} vs X X^T {(X @ X.T).tolist()}")(T.unmat(model).reshape(n, n)),
                  dict(w=w.tolist(), wp=wp.tolist(), Ud=Ud.tolist()))
    # utils.prob
    for _ in range(ctx.n(80, 600)):
        m = rng.randint(1, 3)
        samples = [[rng.randint(0, 2) for _ in range(m)] for _ in range(rng.randint(0, 7))]
        state = [rng.randint(0, 2) for _ in range(rng.choice([m, m, m, m, 0, m + 1]))]
        st, p = call(utils.prob, [list(s) for s in samples], list(state))

        def cmp(model, st=st, p=p):
            if "err" in model:
                return None if st == "ValueError" else f"model raises {model['err']}, impl {st}: {p}"
            ok = st == "ok" and Fraction(float(p)).limit_denominator(1000) == Fraction(*model["ok"])
            return None if ok else f"prob {st} {p} vs model {model}"
        B.add("utils.prob", dict(op="train.prob", samples=samples, state=state), cmp, dict(samples=samples, state=state))
        ctx.count("utils.prob", ("prob", samples, state), len(samples) >= 2)


def corr_similarity(ctx, B):
    import networkx as nx
    from strawberryfields.apps import similarity
    rng = ctx.rng
    for _ in range(ctx.n(14, 120)):
        m = rng.randint(2, 4)
        A = rand_sym(rng, m, "graph")
        g = nx.from_numpy_array(A)
        n_mean, loss = rng.choice([0.5, 1.0, 2.0]), rng.choice([0.0, 0.0, 0.25])
        state = similarity._get_state(g, n_mean, loss)
        photons = rng.randint(0, 4)
        table = [[list(s), T.fr(state.fock_prob(list(s), cutoff=photons + 1))] for s in T.patterns_exact(m, photons)]
        orbs = [list(map(int, o)) for o in similarity.orbits(photons)]
        orbit = rng.choice(orbs)
        if orbit == [0]:
            orbit = []
        case = dict(A=A.tolist(), orbit=orbit, n_mean=n_mean, loss=loss)
        st, p = call(similarity.prob_orbit_exact, g, list(orbit), n_mean, loss)
        B.add("prob_orbit_exact", dict(op="train.orbit", orbit=orbit, modes=m, table=table),
              lambda model, st=st, p=p: None if st == "ok" and T.close(float(p), T.unfr(model["p"]), 1e-12, 1.0) else
              f"prob_orbit_exact {st} {p} vs model {T.unfr(model['p'])}", case)
        mx = rng.randint(0, 3)
        st, p = call(similarity.prob_event_exact, g, photons, mx, n_mean, loss)
        B.add("prob_event_exact", dict(op="train.event", photons=photons, max=mx, modes=m, table=table),
              lambda model, st=st, p=p: None if st == "ok" and T.close(float(p), T.unfr(model), 1e-12, 1.0) else
              f"prob_event_exact {st} {p} vs model {T.unfr(model)}", dict(case, photons=photons, max=mx))
        ctx.count("orbit/event-corr" + (":does-not-fit" if len(orbit) > m else ""), ("orb", case, photons, mx), photons >= 2)


# ------------------------------------------------------------------------------------------ oracle drivers

def oracle_train(ctx):
    from strawberryfields.apps.train import embed
    rng = ctx.rng
    done = 0
    want = ctx.n(26, 300)
    tries = 0
    while done < want and tries < 20 * want:
        tries += 1
        case = gen_train_case(rng, embed, mmax=3 if rng.random() < 0.75 else 4, threshold=False, pnr_small=True)
        vg = admissible(case)
        if vg is None:
            continue
        m = len(case["A"])
        data = positive_patterns(np.asarray(vg.A_init), m, rng.randint(1, 5), rng)
        if not data:
            continue
        done += 1
        CHECKS["kl_fd"](ctx, dict(case, data=data))
        hw = [dy(rng, -8, 8, 4) for _ in range(m + 1)]
        CHECKS["stoch_fd"](ctx, dict(case, samples=data, hw=hw))
        nt = m >= 2 and any(case["theta"])
        ctx.count("fd:" + ("Exp" if case["exp"] else "ExpFeatures") + f":m={m}", ("fd", case, data), nt, sample=dict(case, data=data))
    for it in range(ctx.n(40, 400)):
        case = gen_train_case(rng, embed, mmax=3 if it % 4 else 4)
        if admissible(case) is None:
            continue
        case["hbar"] = rng.choice([2, 2, 1, 0.5])
        case["nmax"] = 6 if len(case["A"]) <= 3 else 4
        CHECKS["state"](ctx, case)
        ctx.count("state:" + ("threshold" if case["threshold"] else "pnr") + f":hbar={case['hbar']}", ("state", case),
                  len(case["A"]) >= 2 and any(case["theta"]), sample=case)


def oracle_similarity(ctx):
    rng = ctx.rng
    for it in range(ctx.n(16, 160)):
        m = rng.randint(2, 4 if ctx.tier == "quick" else 5)
        A = rand_sym(rng, m, "graph")
        base = dict(A=A.tolist(), n_mean=rng.choice([0.5, 1.0, 2.5]), loss=rng.choice([0.0, 0.2, 0.5]))
        photons = rng.randint(0, 5 if m <= 3 else 4)
        if it % 2:
            parts = []
            left = photons
            while left > 0:
                k = rng.randint(1, left)
                parts.append(k)
                left -= k
            case = dict(base, orbit=sorted(parts, reverse=True))
            kind = "orbit" + (":does-not-fit" if len(parts) > m else "")
        else:
            case = dict(base, photons=photons, max=rng.randint(0, 3))
            kind = "event" + (":has-unfitting-orbit" if case["max"] >= 1 and photons > m else "")
        CHECKS["orbit"](ctx, case)
        ctx.count("similarity:" + kind, ("sim", case), photons >= 2, sample=case)


def oracle_qchem(ctx):
    rng = ctx.rng
    nprng = ctx.nprng(5)
    for it in range(ctx.n(24, 240)):
        n = rng.randint(1, 3 if ctx.tier == "quick" else 4)
        w = [float(rng.randint(100, 4000)) for _ in range(n)]
        N = n + rng.choice([0, 0, 1, 2])
        regs = rng.sample(range(N), n)
        case = dict(w=w, t=rng.choice([0.0, 3.0, 25.5, float(rng.randint(1, 200))]), N=N, regs=regs)
        if it % 2 == 0:
            fk = [0] * n
            for _ in range(rng.randint(1, 3)):
                fk[rng.randrange(n)] += 1
            if it % 4 == 0:
                fk = [0] * n
                fk[rng.randrange(n)] = 1
            case.update(fock=fk, Ul=T.rand_orthogonal(nprng, n).tolist())
        CHECKS["time"](ctx, case)
        ctx.count("time:" + ("fock" if "fock" in case else "gaussian"), ("time", case), n >= 2 and case["t"] != 0, sample=case)
    for it in range(ctx.n(30, 300)):
        n = rng.randint(1, 4)
        w = [float(rng.randint(100, 4000)) for _ in range(n)]
        kind = rng.choice(["same-frequencies", "general", "general", "rotation-only"])
        wp = list(w) if kind in ("same-frequencies", "rotation-only") else [float(rng.randint(100, 4000)) for _ in range(n)]
        Ud = T.rand_orthogonal(nprng, n)
        if kind == "general" and rng.random() < 0.4:
            Ud = Ud + 0.05 * nprng.normal(size=(n, n))
        delta = [0.0] * n if rng.random() < 0.15 else [dy(rng, -12, 12, 8) for _ in range(n)]
        N = n + rng.choice([0, 0, 1])
        case = dict(w=w, wp=wp, Ud=Ud.tolist(), delta=delta, T=rng.choice([0, 0, 1.0, 300.0, float(rng.randint(200, 1500))]),
                    N=N, regs=rng.sample(range(N), n) if it % 2 else sorted(rng.sample(range(N), n)))
        CHECKS["vibronic"](ctx, case)
        ctx.count("vibronic:" + kind, ("vibronic", case), n >= 2 and any(delta), sample=case)
    for it in range(ctx.n(6, 40)):
        n = rng.randint(1, 2)
        tk = rng.choice(["all-zero", "none-zero", "mixed"]) if n > 1 else rng.choice(["all-zero", "none-zero"])
        t = [0.0] * n if tk == "all-zero" else [0.2 + 0.1 * k for k in range(n)]
        if tk == "mixed":
            t[rng.randrange(n)] = 0.0
        case = dict(t=t, r=[dy(rng, -2, 2, 8) for _ in range(n)], alpha=[dy(rng, 0, 4, 8) for _ in range(n)], shots=2,
                    seed=rng.randint(0, 10 ** 6))
        CHECKS["sample_shape"](ctx, case)
        ctx.count("vibronic.sample:" + tk, ("shape", case), n >= 2)
    from lib import sim
    for it in range(ctx.n(5, 50)):
        n = rng.randint(1, 2 if ctx.tier == "quick" else 3)
        spec = sim.rand_gaussian_program(rng, n=n, length=rng.randint(1, 5), allow_channel=True, allow_prep=True,
                                         classes=["Rgate", "Sgate", "Dgate", "BSgate", "LossChannel", "Coherent", "Squeezed",
                                                  "Thermal", "S2gate"])
        case = dict(spec=spec, nmax=rng.randint(1, 6), hbar=rng.choice([2.0, 2.0, 1.0, 0.5]), cutoff=16)
        CHECKS["marginals"](ctx, case)
        ctx.count("marginals", ("marg", case), n >= 2)
    for it in range(ctx.n(10, 80)):
        na, M = rng.randint(1, 3), rng.randint(1, 3)
        case = dict(Li=nprng.normal(size=(3 * na, M)).round(4).tolist(), Lf=nprng.normal(size=(3 * na, M)).round(4).tolist(),
                    ri=nprng.normal(size=3 * na).round(4).tolist(), rf=nprng.normal(size=3 * na).round(4).tolist(),
                    wf=[float(rng.randint(100, 4000)) for _ in range(M)],
                    m=[x for a in range(na) for x in [float(rng.choice([1.0078, 12.0, 15.9949, 11.0093]))] * 3])
        CHECKS["duschinsky"](ctx, case)
        ctx.count("duschinsky", ("dusch", case), M >= 2)



# ------------------------------------------------------------------------------------------ deepening: new ties

def corr_deep(ctx, B, sf):
    from strawberryfields.apps.qchem import utils, vibronic
    from strawberryfields.apps.train import param
    rng = ctx.rng
    nprng = ctx.nprng(11)
    # --- the model hafnian vs prob_photon_sample:  P(n) = Haf(A_n)^2 / n! * sqrt(det(1 - A^2))
    for _ in range(ctx.n(40, 400)):
        m = rng.randint(1, 4)
        A = rand_sym(rng, m)
        sv = np.linalg.svd(A, compute_uv=False).max()
        A = A / (2 ** math.ceil(math.log2(sv * rng.choice([1.5, 2.0, 4.0]))))
        tot = rng.choice([0, 2, 2, 4, 4, 6]) if m <= 3 else rng.choice([2, 4])
        pats = list(T.patterns_exact(m, tot))
        pat = list(rng.choice(pats))
        hb = rng.choice([2, 2, 1])
        with Hbar(sf, hb):
            pimpl = float(param.prob_photon_sample(A, np.array(pat)))
        norm = math.sqrt(np.linalg.det(np.eye(m) - A @ A))
        fact = math.prod(math.factorial(c) for c in pat)
        idx = [k for k, c in enumerate(pat) for _ in range(c)]
        B.add("model hafnian vs prob_photon_sample", dict(op="train.haf", A=T.frmat(A), pattern=pat),
              lambda model, pimpl=pimpl, norm=norm, fact=fact, idx=idx: None if (
                  model["idx"] == idx and abs(T.unfr(model["weight"]) / fact * norm - pimpl) <= 1e-10) else
              f"prob_photon_sample {pimpl} vs Haf^2/n! sqrt(det) = {T.unfr(model['weight']) / fact * norm}",
              dict(A=A.tolist(), pattern=pat, hbar=hb))
        ctx.count(f"haf:photons={tot}", ("haf", A.tolist(), pat), m >= 2 and tot >= 2, sample=dict(A=A.tolist(), pattern=pat))
    # --- energies (exact: dyadic frequencies)
    for _ in range(ctx.n(40, 300)):
        n = rng.randint(1, 4)
        w = [rng.randint(100, 4000) + rng.choice([0, 0.5, 0.25]) for _ in range(n)]
        wp = [rng.randint(100, 4000) + rng.choice([0, 0.5]) for _ in range(n)]
        smp = [rng.randint(0, 3) for _ in range(2 * n)]
        st, e1 = call(vibronic.energies, list(smp), np.array(w), np.array(wp))
        st2, e2 = call(vibronic.energies, [list(smp), list(smp[::-1])], np.array(w), np.array(wp))
        B.add("vibronic.energies", dict(op="train.energy", s=smp, wp=T.frvec(wp), w=T.frvec(w)),
              lambda model, st=st, e1=e1, st2=st2, e2=e2: None if (st == st2 == "ok" and float(e1) == T.unfr(model) and float(e2[0]) == T.unfr(model))
              else f"energies {st} {e1} / {st2} {e2} vs model {T.unfr(model)}", dict(s=smp, w=w, wp=wp))
        ctx.count("energies", ("en", smp, w, wp), n >= 2)
    # --- duschinsky: U, d, delta with the square roots / l^-1 as atoms
    for _ in range(ctx.n(25, 200)):
        na, M = rng.randint(1, 3), rng.randint(1, 3)
        a = 3 * na
        Li, Lf = nprng.normal(size=(a, M)).round(3), nprng.normal(size=(a, M)).round(3)
        ri, rf = nprng.normal(size=a).round(3), nprng.normal(size=a).round(3)
        wf = np.array([float(rng.randint(100, 4000)) for _ in range(M)])
        mass = np.array([x for _ in range(na) for x in [float(rng.choice([1.0078, 12.0, 15.9949]))] * 3])
        U, delta = utils.duschinsky(Li, Lf, ri, rf, wf, mass)
        _, dref = T.duschinsky_ref(Li, Lf, ri, rf, wf, mass)
        linv = np.sqrt(2 * math.pi * T.C_LIGHT * (wf * 100.0) / (T.H_PLANCK / (2 * math.pi))) * math.sqrt(T.M_U) * 1e-10
        req = dict(op="train.dusch", a=a, M=M, Lf=T.frmat(Lf), Li=T.frmat(Li), sm=T.frvec(np.sqrt(mass)), ri=T.frvec(ri),
                   rf=T.frvec(rf), linv=T.frvec(linv))
        B.add("utils.duschinsky", req,
              lambda model, U=U, delta=delta, M=M: None if (T.close(U, T.unmat(model["U"]).reshape(M, M), 1e-12) and
                                                            T.close(delta, vec(model["delta"]), 1e-8)) else
              f"U / delta {np.asarray(U).tolist()} / {np.asarray(delta).tolist()} vs model {T.unmat(model['U']).tolist()} / {vec(model['delta']).tolist()}",
              dict(Li=Li.tolist(), Lf=Lf.tolist(), wf=wf.tolist()))
        ctx.count("duschinsky-corr", ("dc", Li.tolist(), Lf.tolist()), M >= 2)
    # --- marginals: argument checks, which reduced state / which element is asked for, where the answers are put
    from thewalrus import quantum as twq
    for _ in range(ctx.n(40, 300)):
        n = rng.randint(1, 4)
        kind = rng.choice(["ok"] * 6 + ["notSquare", "lenMismatch", "nMax"])
        mu = np.arange(1, 2 * n + 1, dtype=float) * 0.5
        V = np.arange((2 * n) ** 2, dtype=float).reshape(2 * n, 2 * n) + 100.0
        nmax = rng.randint(1, 5)
        if kind == "notSquare":
            V = V[:, :-1] if n > 0 else V
        elif kind == "lenMismatch":
            mu = mu[:-1]
        elif kind == "nMax":
            nmax = rng.choice([0, -1])
        hb = rng.choice([2.0, 1.0, 0.5])
        calls = []

        def stub(mui, vi, i, j, hbar=2, calls=calls, **kw):
            calls.append((np.array(mui), np.array(vi), list(i), list(j), hbar))
            return 1000.0 + len(calls)
        orig = twq.density_matrix_element
        twq.density_matrix_element = stub
        try:
            st, pm = call(utils.marginals, mu, V, nmax, hb)
        finally:
            twq.density_matrix_element = orig
        req = dict(op="train.marginals", lenMu=len(mu), rows=V.shape[0], cols=V.shape[1], nMax=nmax)

        def cmp(model, st=st, pm=pm, calls=calls, mu=mu, V=V, hb=hb):
            if "err" in model:
                return None if st == "ValueError" else f"model raises {model['err']}, impl {st}: {pm}"
            if st != "ok":
                return f"impl raises {st}: {pm}, model {model}"
            ok = model["ok"]
            nm, nx_ = ok["shape"]
            if np.asarray(pm).shape != (nm, nx_) or len(calls) != len(ok["calls"]):
                return f"shape {np.asarray(pm).shape} / {len(calls)} calls vs model {ok['shape']} / {len(ok['calls'])}"
            for k, ((mode, i), (mui, vi, ii, jj, hbar)) in enumerate(zip(ok["calls"], calls)):
                ix = ok["idx"][mode]
                if not (np.array_equal(mui, mu[ix]) and np.array_equal(vi, V[np.ix_(ix, ix)]) and ii == [i] and jj == [i]
                        and hbar == hb and pm[mode, i] == 1001.0 + k):
                    return f"call {k}: asked element {ii},{jj} of reduced state {mui.tolist()} (hbar {hbar}), model ({mode},{i}) rows {ix}"
            return None
        B.add("utils.marginals bookkeeping", req, cmp, dict(n=n, kind=kind, nmax=nmax, hbar=hb))
        ctx.count("marginals-corr:" + kind, ("mc", n, kind, nmax, hb), n >= 2)
    # --- the sampling programs
    combos = [("vibsample", ls, tk) for tk in ("all-zero", "none-zero", "mixed") for ls in (0.0, 0.25, 1.0)] + \
        [(k, ls, None) for k in ("dynfock", "dyntmsv", "dyncoherent") for ls in (0.0, 0.25, 1.0)]
    for it in range(ctx.n(36, 180)):
        kind, loss_, tk = combos[it % len(combos)]           # every option combination on every run
        n = rng.randint(1, 3) if kind != "dyntmsv" else rng.randint(1, 2)
        if tk == "mixed":
            n = rng.randint(2, 3)
        Ul = T.rand_orthogonal(nprng, n)
        case = dict(n=n, Ul=Ul.tolist(), w=[float(rng.randint(100, 4000)) for _ in range(n)], t=rng.choice([0.0, 7.5, 30.0]),
                    loss=loss_, shots=rng.randint(1, 3), seed=rng.randint(0, 10 ** 6))
        if kind == "vibsample":
            tt = [0.0] * n if tk == "all-zero" else [0.15 + 0.05 * k for k in range(n)]
            if tk == "mixed":
                tt[rng.randrange(n)] = 0.0
            case.update(tt=tt, r=[dy(rng, -2, 2, 8) + 0.01 * (k + 1) for k in range(n)],
                        alpha=[dy(rng, -3, 3, 8) + 0.01 * (k + 1) for k in range(n)], U2=T.rand_orthogonal(nprng, n).tolist())
            if n == 1:
                case["U2"] = [[-1.0]]
        elif kind == "dynfock":
            fk = [rng.randint(0, 2) for _ in range(n)]
            case.update(fock=fk, cutoff=sum(fk) + 1 + rng.randint(0, 1))
        elif kind == "dyntmsv":
            case.update(r2=[[0.1 + 0.05 * k, dy(rng, -4, 4, 4)] for k in range(n)])
        else:
            case.update(a2=[[0.2 + 0.1 * k, dy(rng, -4, 4, 4)] for k in range(n)])
        try:
            sample_program_case(ctx, B, kind, case)
        except core.Infra:
            raise
        ctx.count(f"sample-program:{kind}:loss={case['loss']}", ("sp", kind, case), n >= 2, sample=dict(case, kind=kind))


def oracle_history(ctx):
    from strawberryfields.apps.train import embed
    rng = ctx.rng
    nprng = ctx.nprng(13)
    names_pnr = ["A", "W", "mean_photons", "mean_clicks", "n_mean", "prob_sample", "weights", "jacobian", "kl_grad", "kl_eval",
                 "st_grad", "st_eval", "h_rep", "samples"]
    done = tries = 0
    while done < ctx.n(10, 100) and tries < 400:
        tries += 1
        base = gen_train_case(rng, embed, mmax=3, pnr_small=True)
        d = len(base["theta"])
        thetas = [rand_theta(rng, d, 0.0).tolist() for _ in range(3)]
        ok = all(admissible(dict(base, theta=t)) is not None for t in thetas)
        vg0 = admissible(dict(base, theta=[0.0] * d))
        if not ok or vg0 is None:
            continue
        m = len(base["A"])
        # rebuild may switch the detection mode: only 0/1 patterns of positive probability are valid data in both modes
        data = [s_ for s_ in positive_patterns(np.asarray(vg0.A_init), m, 40, rng, tot=4) if max(s_) <= 1][:rng.randint(2, 5)]
        if len(data) < 2:
            continue
        def one(name, i):
            if name in ("prob_sample", "h_rep"):
                return [name, i, rng.choice(data)]
            if name in ("st_grad", "st_eval", "samples"):
                return [name, i, rng.randint(1, len(data))]
            return [name, i]
        steps = []
        dependents = ["n_mean", "prob_sample", "kl_eval", "kl_grad", "st_eval", "mean_photons", "A"]
        for _ in range(rng.randint(2, 3)):
            pat = rng.choice(["again-after-scribble", "same-array-new-content", "interleave", "rebuild"])
            f = rng.choice(names_pnr)
            i = rng.randrange(3)
            if pat == "again-after-scribble":          # the returned array is overwritten by the check, then asked again
                steps += [one(f, i), one(f, i), one(rng.choice(dependents), i)]
            elif pat == "same-array-new-content":      # identity-keyed caches
                steps += [one(f, i), ["edit_theta", i, rng.randrange(d), dy(rng, 0, 8, 16)], one(f, i), one(rng.choice(dependents), i)]
            elif pat == "interleave":
                j = (i + 1 + rng.randrange(2)) % 3
                steps += [one(f, i), one(f, j), one(f, i)]
            else:                                        # a second model from the same matrix / embedding objects
                steps += [one(f, i), ["rebuild", float(rng.choice([0.2, 0.3, 0.5])), bool(rng.random() < 0.5)], one(f, i),
                          one("n_mean", i)]
        case = dict(base, thetas=thetas, data=data, hw=[dy(rng, -8, 8, 4) for _ in range(m + 1)], steps=steps)
        case.pop("theta")
        # edited parameters may leave the domain after a rebuild with another mean: keep only scripts whose every
        # (configuration, parameter) pair is admissible
        cfgs = [(case["n_mean"], case["threshold"])] + [(s_[1], s_[2]) for s_ in steps if s_[0] == "rebuild"]
        pts = [list(t) for t in thetas]
        for s_ in steps:
            if s_[0] == "edit_theta":
                t2 = list(pts[s_[1]])
                t2[s_[2]] = s_[3]
                pts.append(t2)
                pts[s_[1]] = t2
        if any(admissible(dict(base, n_mean=c[0], threshold=c[1], theta=t)) is None for c in cfgs for t in pts):
            continue
        done += 1
        CHECKS["history_train"](ctx, case)
        ctx.count("history:train:" + ("threshold" if base["threshold"] else "pnr"), ("ht", case), True, sample=case)
    for _ in range(ctx.n(6, 60)):
        m = rng.randint(3, 4)
        A = rand_sym(rng, m, "graph")
        steps = []
        for _ in range(rng.randint(3, 6)):
            u = rng.random()
            if u < 0.3:
                i, j = rng.sample(range(m), 2)
                steps.append(["toggle", i, j])
            elif u < 0.65:
                ph = rng.randint(1, 4)
                parts, left = [], ph
                while left > 0:
                    k = rng.randint(1, left)
                    parts.append(k)
                    left -= k
                steps.append(["orbit", sorted(parts, reverse=True), rng.choice([0.5, 1.0, 2.0]), rng.choice([0.0, 0.25])])
            else:
                steps.append(["event", rng.randint(0, 4), rng.randint(1, 2), rng.choice([0.5, 1.0, 2.0]), rng.choice([0.0, 0.25])])
        # the same query before and after an edit is the interesting script: repeat an earlier query at the end
        qs = [s_ for s_ in steps if s_[0] != "toggle"]
        if qs:
            i, j = rng.sample(range(m), 2)
            steps += [["toggle", i, j], list(qs[0])[:-2] + [qs[0][-2], qs[0][-1]]]
        case = dict(A=A.tolist(), steps=steps)
        CHECKS["history_graph"](ctx, case)
        ctx.count("history:graph", ("hg", case), True, sample=case)
    for _ in range(ctx.n(8, 60)):
        n = rng.randint(1, 3)
        case = dict(w=[float(rng.randint(100, 4000)) for _ in range(n)], wp=[float(rng.randint(100, 4000)) for _ in range(n)],
                    Ud=T.rand_orthogonal(nprng, n).tolist(), delta=[dy(rng, -8, 8, 8) for _ in range(n)],
                    T=rng.choice([0, 300.0]), t=float(rng.randint(1, 50)),
                    samples=[[rng.randint(0, 3) for _ in range(2 * n)] for _ in range(rng.randint(1, 3))])
        CHECKS["qchem_inputs"](ctx, case)
        ctx.count("history:qchem-inputs", ("qi", case), n >= 2)


def self_test():
    """the Duschinsky reference state used by the oracle reproduces the textbook 0-0 Franck-Condon factor"""
    om, omp, d = 1.0, 2.3, 0.7
    J = np.array([[math.sqrt(omp / om)]])
    mu, V = T.doktorov_state(J, [math.sqrt(omp) * d])
    if abs(T.vacuum_overlap(mu, V) - T.fcf00_textbook(om, omp, d)) > 1e-12:
        raise core.Infra("oracle self-test failed: Duschinsky reference state vs textbook Franck-Condon factor")


def corpus_cases():
    d = core.VERIF / "corpus" / "C20"
    for f in sorted(d.glob("*.json")):
        j = json.loads(f.read_text())
        for item in (j if isinstance(j, list) else [j]):
            yield item


def run(ctx, sf):
    warnings.filterwarnings("ignore")
    self_test()
    for item in corpus_cases():
        CHECKS[item["chk"]](ctx, item["case"])
        ctx.count("corpus:" + item["chk"], ("corpus", item), True)
    B = Batch(ctx)
    for name, section in (("embed", lambda: corr_embed(ctx, B)), ("param", lambda: corr_param(ctx, B, sf)),
                          ("cost", lambda: corr_cost(ctx, B, sf)), ("qchem", lambda: corr_qchem(ctx, B, sf)),
                          ("similarity", lambda: corr_similarity(ctx, B)), ("deep", lambda: corr_deep(ctx, B, sf))):
        try:
            section()
        except core.Infra:
            raise
        except Exception as e:
            tb = traceback.extract_tb(e.__traceback__)
            if not any("strawberryfields" in fr.filename for fr in tb):
                raise                                    # a harness bug stays an infrastructure error
            ctx.disagree(f"{name}: the implementation raised {type(e).__name__}", dict(section=name),
                         None, traceback.format_exc()[-1500:])
        finally:
            sf.hbar = 2
    B.flush()
    oracle_train(ctx)
    oracle_similarity(ctx)
    oracle_qchem(ctx)
    oracle_history(ctx)
    sf.hbar = 2


def search(ctx, sf):
    run(ctx, sf)


def replay(ctx, rp):
    n0 = len(ctx.failures)
    CHECKS[rp["chk"]](ctx, rp["case"])
    return len(ctx.failures) > n0
