"""C14 — saving and loading a program preserves its meaning.
(a) correspondence of SFV.Model.IoIR with to_blackbird / to_xir / to_program (IR objects from the real
writers, programs from the real readers, the library text layer against `reparseBB` / identity), and of
`piString` with `_factor_out_pi`; (b) property-level oracle: sf.io.loads(serialise(p)) and sf.save/sf.load
against p field by field and by Result.state, generate_code executed and compared, `_factor_out_pi`
evaluated; (c) replay."""
import copy
import io as _io
import json
import os
import tempfile

import numpy as np

from lib import ioir

RULE = ("random programs over 1-5 modes, 1-8 commands over every gate / channel / preparation / measurement / "
        "decomposition class of ops.__all__ that the front end accepts, parameters: ints, dyadic and non-dyadic floats "
        "(multiples of pi), complex numbers, int/float/complex arrays, 1-D arrays, strings, measured-parameter "
        "expressions, free-parameter expressions, daggered gates, select / dark_counts, target + shots + cutoff_dim, "
        "trailing unused modes; TDM programs with N int or list, 1-4 per-bin arrays (int / float / pi multiples), loop "
        "variables in gates and measurements, loop-variable expressions, daggers.  Non-trivial = at least 2 commands "
        "and at least one feature beyond plain numeric parameters (dagger, measurement option, array, symbolic, "
        "options, TDM); distinct by spec.")
ASSUMPTIONS = ["for the gates of blackbird_io.NEGATION_INVERTS the inverse is the gate with negated first parameter "
               "(convention of ops.Gate; validated by the oracle's Result.state comparison on the Gaussian ones)",
               "operation constructors are the identity on the stored parameter list op.p (validated per generated "
               "operation: reloading compares op.p)",
               "SymPy expressions are opaque: printed forms / atoms / negation as SymPy reports them",
               "a refusal (ValueError) to write an inverted gate outside NEGATION_INVERTS to Blackbird is accepted: "
               "the IR has no syntax for it and nothing is dropped silently",
               "trailing unused modes cannot be inferred by a reader; num_subsystems is compared up to them",
               "run/backend options other than shots and cutoff_dim are not covered"]
TRUSTED = ["modelled: io.to_blackbird, from_blackbird, from_blackbird_to_tdm, to_xir, from_xir, from_xir_to_tdm, "
           "to_program, parameters.par_convert, io.utils._factor_out_pi (on multiples of pi/12)",
           "hypothesis validated per run through real text: blackbird.loads(bb.serialize()) = reparseBB(bb) (mode set "
           "recomputed), xir.parse_script(x.serialize()) = x, on the programs of the expressible fragment",
           "not modelled: generate_code as a whole (checked by the oracle only: generated code is executed and the "
           "resulting program compared), Blackbird/XIR grammars, SymPy printing/parsing"]

PLAIN = {"numeric", "array", "loop"}


# --------------------------------------------------------------------------------------------- comparison

def canon(v, loop_vars=()):
    if hasattr(v, "free_symbols") and not v.free_symbols:
        import strawberryfields.parameters as sfpar
        v = sfpar.par_evaluate(v)        # a constant symbolic expression is the number it denotes
    try:
        return ioir.strip_val(ioir.val_json(v, loop_vars=loop_vars))
    except ioir.Unrep:
        return {"repr": [type(v).__name__, repr(v)]}


def negate(v):
    return -v


def cmd_fields(cmd, loop_vars, normalise):
    op = cmd.op
    pars = list(op.p)
    dagger = bool(getattr(op, "dagger", False))
    cls = type(op).__name__
    if normalise and dagger and cls in ioir.NEG_INVERTS and pars:
        pars[0] = -pars[0]
        dagger = False
    sel = getattr(op, "select", None)
    dark = getattr(op, "dark_counts", None)
    return dict(cls=cls, regs=[r.ind for r in cmd.reg], pars=[canon(x, loop_vars) for x in pars], dagger=dagger,
                select=None if sel is None else canon(sel), dark=None if dark is None else canon(dark))


def kind_of_value(j):
    k = next(iter(j))
    if k == "sc":
        return "number"
    if k == "sym":
        return "symbolic"
    return {"str": "str", "lst": "list", "arr": "array", "repr": j.get("repr", ["?"])[0]}.get(k, k)


def diff_programs(p, p2, ir, spec):
    """list of (signature, what) for every field of `p` that `p2` does not reproduce"""
    from strawberryfields.tdm import TDMProgram
    out = []
    tdm = isinstance(p, TDMProgram)
    tag = ir + ("-tdm" if tdm else "")
    if isinstance(p2, TDMProgram) != tdm:
        return [(f"{tag}:program-type", f"reloaded as {type(p2).__name__}")]
    lv1 = list(p.loop_vars) if tdm else []
    lv2 = list(p2.loop_vars) if tdm else []
    norm = ir == "blackbird"
    if len(p.circuit) != len(p2.circuit):
        return [(f"{tag}:command-count", f"{len(p.circuit)} commands became {len(p2.circuit)}")]
    for i, (c1, c2) in enumerate(zip(p.circuit, p2.circuit)):
        f1, f2 = cmd_fields(c1, lv1, norm), cmd_fields(c2, lv2, norm)
        sop = spec["ops"][i] if i < len(spec["ops"]) else {}
        for key in ("cls", "regs", "dagger", "select", "dark"):
            if f1[key] != f2[key]:
                out.append((f"{tag}:{key}:{f1['cls']}", f"command {i} ({f1['cls']}): {key} {f1[key]} became {f2[key]}"))
        if len(f1["pars"]) != len(f2["pars"]):
            out.append((f"{tag}:param-count:{f1['cls']}", f"command {i}: {len(f1['pars'])} parameters became {len(f2['pars'])}"))
            continue
        for j, (a, b) in enumerate(zip(f1["pars"], f2["pars"])):
            if a != b:
                spars = sop.get("pars", [])
                cause = ioir.par_kind(spars[j]) if j < len(spars) else ("string" if "str" in a else "default")
                if sop.get("dagger") and j == 0 and cause == "loop":
                    cause = "loopexpr"          # the negated loop variable is an expression
                how = "value-changed" if kind_of_value(a) == kind_of_value(b) else "reloads-as-" + kind_of_value(b)
                out.append((f"{tag}:{cause}-param:{how}",
                            f"command {i} ({f1['cls']}) parameter {j}: {json.dumps(a)[:120]} became {json.dumps(b)[:120]}"))
    notarget = ":no-target" if (ir == "blackbird" and p.target is None) else ""
    if ir == "gencode":
        pass    # target and options belong to the engine part of the generated code, not to the program
    elif p.target != p2.target:
        out.append((f"{tag}:option:target", f"target {p.target!r} became {p2.target!r}"))
    if ir != "gencode" and p.run_options.get("shots") != p2.run_options.get("shots"):
        out.append((f"{tag}:option:shots{notarget}", f"shots {p.run_options.get('shots')} became {p2.run_options.get('shots')}"))
    if ir != "gencode" and p.backend_options.get("cutoff_dim") != p2.backend_options.get("cutoff_dim"):
        out.append((f"{tag}:option:cutoff_dim{notarget}",
                    f"cutoff_dim {p.backend_options.get('cutoff_dim')} became {p2.backend_options.get('cutoff_dim')}"))
    if ir != "gencode":
        other = lambda q: ({k: v for k, v in q.run_options.items() if k != "shots"},
                           {k: v for k, v in q.backend_options.items() if k != "cutoff_dim"})
        if other(p) != other(p2):
            out.append((f"{tag}:option:other{notarget}", f"run/backend options {other(p)} became {other(p2)}"))
    if p.name is not None and ir != "gencode" and str(p.name) != str(p2.name):
        out.append((f"{tag}:name", f"name {p.name!r} became {p2.name!r}"))
    used = max(max(r.ind for r in c.reg) for c in p.circuit) + 1
    n_ok = (p2.num_subsystems == p.num_subsystems) if ir == "gencode" else (used <= p2.num_subsystems <= p.num_subsystems)
    if tdm:
        if [int(x) for x in p.N] != [int(x) for x in p2.N]:
            multi = ":N-list" if len(p.N) > 1 else ""
            out.append((f"{tag}:tdm-N{multi}", f"N {list(p.N)} became {list(p2.N)}"))
        a = [[canon(x) for x in np.array(r).tolist()] for r in p.tdm_params]
        b = [[canon(x) for x in np.array(r).tolist()] for r in p2.tdm_params]
        if a != b:
            out.append((f"{tag}:tdm-params", f"per-bin arrays {p.tdm_params} became {p2.tdm_params}"))
    elif not n_ok:
        out.append((f"{tag}:num-subsystems", f"{p.num_subsystems} modes (highest used {used - 1}) became {p2.num_subsystems}"))
    return out


def op_cause(op):
    kinds = {ioir.par_kind(x) for x in op.get("pars", [])} - PLAIN
    if op.get("dagger") and any(ioir.par_kind(x) == "loop" for x in op.get("pars", [])[:1]):
        kinds.add("loopexpr")
    if kinds:
        return "+".join(sorted(kinds)) + "-param"
    return op["cls"] + (".H" if op.get("dagger") else "")


def roundtrip(sf, p, ir, via):
    """returns (stage_reached, result or exception)"""
    from strawberryfields.io import to_blackbird, to_xir
    stage = "serialize"
    try:
        if via == "file":
            d = tempfile.mkdtemp(prefix="c14_", dir=os.environ.get("C14_TMP", "/tmp"))
            path = os.path.join(d, "prog." + ("xbb" if ir == "blackbird" else "xir"))
            try:
                sf.save(path, p, ir=ir)
                stage = "load"
                return "ok", sf.load(path, ir=ir)
            finally:
                if os.path.exists(path):
                    os.remove(path)
                os.rmdir(d)
        text = (to_blackbird(p) if ir == "blackbird" else to_xir(p)).serialize()
        stage = "load"
        return "ok", sf.io.loads(text, ir=ir)
    except Exception as e:  # noqa: BLE001
        return stage, e


def single_op_specs(spec):
    """for culprit search: each op alone (with the measurements it depends on before it)"""
    for j, op in enumerate(spec["ops"]):
        deps = {p[key] for p in op.get("pars", []) if isinstance(p, dict) for key in ("m", "m2") if key in p}
        pre = [dict(cls="MeasureHomodyne", regs=[m], pars=[0.0]) for m in sorted(deps)]
        yield op, dict(spec, ops=pre + [copy.deepcopy(op)])


def runnable_backend(spec):
    if spec.get("tdm"):
        return None
    kinds = {ioir.par_kind(x) for o in spec["ops"] for x in o.get("pars", [])}
    if kinds & {"free", "measured", "string", "list", "loop", "loopexpr"}:
        return None
    classes = {o["cls"] for o in spec["ops"]}
    if any("Measure" in c for c in classes):
        return None
    if classes <= ioir.GAUSSIAN:
        return "gaussian"
    if classes <= (ioir.GAUSSIAN | {"Kgate", "Vgate", "CKgate", "Fock", "Ket"}) - {"Gaussian", "GraphEmbed", "BipartiteGraphEmbed"} \
            and spec["n"] <= 2:
        return "fock"
    return None


def state_of(sf, prog, backend):
    prog._target = None
    prog.run_options.clear()
    prog.backend_options.clear()
    if backend == "gaussian":
        st = sf.Engine("gaussian").run(prog).state
        return ("g", st.means(), st.cov(), prog.num_subsystems)
    st = sf.Engine("fock", backend_options={"cutoff_dim": 5}).run(prog).state
    return ("f", st.dm(), None, prog.num_subsystems)


def states_differ(sf, s1, s2):
    if s1[0] == "g":
        n1, n2 = s1[3], s2[3]
        k = min(n1, n2)
        big = s1 if n1 >= n2 else s2
        small = s2 if n1 >= n2 else s1
        nb = max(n1, n2)
        idx = list(range(k)) + [nb + i for i in range(k)]
        rest = [i for i in range(2 * nb) if i not in idx]
        m, c = big[1], big[2]
        if rest and not (np.allclose(m[rest], 0, atol=1e-9) and np.allclose(c[np.ix_(rest, rest)], np.eye(len(rest)) * sf.hbar / 2, atol=1e-9)
                         and np.allclose(c[np.ix_(idx, rest)], 0, atol=1e-9)):
            return "dropped modes are not idle"
        d = max(np.max(np.abs(small[1] - m[idx]), initial=0), np.max(np.abs(small[2] - c[np.ix_(idx, idx)]), initial=0))
        return None if d < 1e-8 else f"Gaussian state differs by {d:.3g}"
    if s1[3] != s2[3]:
        return None  # compared field-wise only
    d = float(np.max(np.abs(s1[1] - s2[1]), initial=0))
    return None if d < 1e-8 else f"Fock state differs by {d:.3g}"


def snapshot(p):
    from strawberryfields.tdm import TDMProgram
    lv = list(p.loop_vars) if isinstance(p, TDMProgram) else []
    held = [[ioir.current_value(x) if hasattr(x, "free_symbols") else None for x in c.op.p] for c in p.circuit]
    return [cmd_fields(c, lv, False) for c in p.circuit], held, p.target, dict(p.run_options), dict(p.backend_options)


def oracle_spec(ctx, sf, spec, via="text", check_state=True, check_code=True):
    from strawberryfields.io import to_blackbird, to_xir
    rp = dict(kind="spec", spec=spec, via=via)
    tdm = bool(spec.get("tdm"))
    for ir in ("blackbird", "xir"):
        tag = ir + ("-tdm" if tdm else "")
        p = ioir.build(spec)
        before = snapshot(p)
        try:
            irobj = (to_blackbird(p) if ir == "blackbird" else to_xir(p))
            # the IR must name the operations and the subsystem indices of the program, command by command
            # (also for programs that cannot be loaded again: registers with holes after Del / New)
            named = [(o["op"], list(o["modes"])) for o in irobj.operations] if ir == "blackbird" else \
                [(s_.name, [int(w) for w in s_.wires]) for s_ in irobj.statements]
            want = [(type(c.op).__name__, [r.ind for r in c.reg]) for c in p.circuit]
            if named != want:
                bad = next((i for i, (a, b) in enumerate(zip(named, want)) if a != b), len(want))
                ctx.fail(f"{tag}:ir-names-or-modes", f"{ir} IR command {bad}: {named[bad:bad + 1]} for {want[bad:bad + 1]} ({spec['name']})", rp)
        except Exception:  # noqa: BLE001
            pass
        if snapshot(p) != before:
            ctx.fail(f"{tag}:writer-mutates-program", f"{ir} writer changed the program it converts: {spec['name']}", rp)
            p = ioir.build(spec)
        stage, res = roundtrip(sf, p, ir, via)
        ctx.oracle_cases += 1
        if snapshot(p) != before:
            free = ":free-parameter-values" if any(ioir.par_kind(x) == "free" for o in spec["ops"] for x in o.get("pars", [])) else ""
            ctx.fail(f"{tag}:load-changes-the-saved-program{free}",
                     f"loading the {ir} text changed the program that was saved: {spec['name']}", rp)
            p = ioir.build(spec)
        if stage != "ok":
            exc = type(res).__name__
            refused = [o for o in spec["ops"] if o.get("dagger") and o["cls"] not in ioir.NEG_INVERTS]
            if ir == "blackbird" and stage == "serialize" and exc == "ValueError" and refused and "inverse" in str(res):
                ctx.tally("refused:blackbird-dagger")
                continue
            culprits = []
            for op, one in single_op_specs(spec):
                try:
                    st1, r1 = roundtrip(sf, ioir.build(one), ir, via)
                except Exception:  # noqa: BLE001
                    continue
                if st1 == stage and type(r1).__name__ == exc:
                    culprits.append(op_cause(op))
            for c in sorted(set(culprits)) or ["whole-program"]:
                ctx.fail(f"{tag}:{stage}-raises:{exc}:{c}", f"{ir} {stage} raises {exc}: {str(res)[:100]} ({spec['name']}, {c})", rp)
            continue
        p2 = res
        diffs = diff_programs(p, p2, ir, spec)
        for sig, what in diffs:
            ctx.fail(sig, what + f" [{spec['name']} via {via}]", rp)
        # idempotence: a second round trip must not change anything any more
        if not diffs:
            st2, p3 = roundtrip(sf, p2, ir, "text")
            if st2 != "ok":
                ctx.fail(f"{tag}:second-roundtrip-raises", f"reloaded program cannot be written/loaded again: {p3!r}"[:200], rp)
            else:
                for sig, what in diff_programs(p2, p3, ir, spec):
                    ctx.fail(sig + ":second-roundtrip", what, rp)
        be = runnable_backend(spec) if check_state else None
        if be:
            try:
                s1 = state_of(sf, ioir.build(spec), be)
                s2 = state_of(sf, p2, be)
                why = states_differ(sf, s1, s2)
            except Exception as e:  # noqa: BLE001
                ctx.tally(f"state-run-error:{type(e).__name__}")
                why = None
            ctx.oracle_cases += 1
            if why:
                kwc = sorted({o["cls"] for o in spec["ops"] if o.get("kw")})
                cause = ("constructor-kwargs:" + "+".join(kwc)) if kwc else ("after-field-diff" if diffs else "unexplained")
                ctx.fail(f"{tag}:state-differs:{cause}", f"Result.state ({be}): {why} [{spec['name']}]", rp)
    if check_code:
        oracle_code(ctx, sf, spec, rp)


def serialise(p, ir, **kw):
    from strawberryfields.io import to_blackbird, to_xir
    return (to_blackbird(p) if ir == "blackbird" else to_xir(p, **kw)).serialize()


def oracle_history(ctx, sf, spec_a, spec_b, share):
    """history independence and object sharing: write A, write B, write A again; load the same text twice;
    A and B may share Operation instances (one op_cache); nothing that was written or loaded may change"""
    rp = dict(kind="pair", a=spec_a, b=spec_b, share=share)
    cache = {} if share else None
    for ir in ("blackbird", "xir"):
        tag = ir + ("-tdm" if spec_a.get("tdm") else "")
        try:
            pa, pb = ioir.build(spec_a, op_cache=cache), ioir.build(spec_b, op_cache=cache)
            sa, sb = snapshot(pa), snapshot(pb)
            try:
                t1 = serialise(pa, ir); serialise(pb, ir); t2 = serialise(pa, ir)
                tb = serialise(pb, ir)
            except Exception as e:  # noqa: BLE001
                # programs that cannot be written at all (refused inverse, 1-D arrays in Blackbird) are judged by oracle_spec
                if not isinstance(roundtrip(sf, ioir.build(spec_a), ir, "text")[1], Exception) and \
                        not isinstance(roundtrip(sf, ioir.build(spec_b), ir, "text")[1], Exception):
                    raise
                ctx.tally("history-skipped:unwritable")
                continue
            ctx.oracle_cases += 1
            if t1 != t2:
                ctx.fail(f"{tag}:text-depends-on-history", f"writing {spec_a['name']} before and after writing {spec_b['name']} gives different text", rp)
            if snapshot(pa) != sa or snapshot(pb) != sb:
                ctx.fail(f"{tag}:writer-mutates-program", f"{ir} writer changed a program (shared operations: {share})", rp)
            fresh = serialise(ioir.build(spec_a), ir)
            if fresh != t1:
                ctx.fail(f"{tag}:text-depends-on-sharing", f"{spec_a['name']} with shared Operation instances is written differently from the same program with fresh ones", rp)
            try:
                q1 = sf.io.loads(t1, ir=ir)
                f1 = snapshot(q1)
                qb = sf.io.loads(tb, ir=ir)
                q2 = sf.io.loads(t1, ir=ir)
            except Exception:  # noqa: BLE001   (unloadable text is judged by oracle_spec)
                continue
            if q1 is q2 or any(c1.op is c2.op for c1, c2 in zip(q1.circuit, q2.circuit)):
                ctx.fail(f"{tag}:load-returns-shared-objects", "loading the same text twice returns programs that share objects", rp)
            if snapshot(q1) != f1:
                ctx.fail(f"{tag}:load-changes-earlier-loaded-program", "loading further texts changed a program loaded before", rp)
            if snapshot(q2) != f1:
                ctx.fail(f"{tag}:load-depends-on-history", "loading the same text twice gives different programs", rp)
            # chain: save -> load -> save -> load -> save: the text is a fixed point after the first load
            t3 = serialise(q1, ir)
            q3 = sf.io.loads(t3, ir=ir)
            t4 = serialise(q3, ir)
            if t3 != t4:
                ctx.fail(f"{tag}:chain-not-stable", f"save/load chain keeps changing the text of {spec_a['name']}", rp)
        except Exception as e:  # noqa: BLE001
            ctx.fail(f"{tag}:history-oracle-raises:{type(e).__name__}", f"{type(e).__name__}: {str(e)[:120]} ({spec_a['name']}, {spec_b['name']})", rp)


def oracle_compiled(ctx, sf, spec):
    """the output of Program.compile (linked copy: shares registers and Operation objects with the source,
    carries a target and daggered decomposition products) must round-trip like any program"""
    rp = dict(kind="compiled", spec=spec)
    try:
        pc = ioir.build(spec).compile(compiler="gaussian")
    except Exception:  # noqa: BLE001
        ctx.tally("compile-skipped")
        return
    if not pc.circuit:
        # an empty program has no representation (to_program documents the ValueError: the number of modes is unknown)
        ctx.tally("compile-skipped:empty")
        return
    for ir in ("blackbird", "xir"):
        ctx.oracle_cases += 1
        try:
            before = snapshot(pc)
            stage, p2 = roundtrip(sf, pc, ir, "text")
            if snapshot(pc) != before:
                ctx.fail(f"{ir}:writer-mutates-program:compiled", f"writing the compiled {spec['name']} changed it", rp)
            if stage != "ok":
                if ir == "blackbird" and isinstance(p2, ValueError) and "inverse" in str(p2):
                    ctx.tally("refused:blackbird-dagger")
                    continue
                ctx.fail(f"{ir}:{stage}-raises:{type(p2).__name__}:compiled", f"compiled {spec['name']}: {str(p2)[:100]}", rp)
                continue
            for sig, what in diff_programs(pc, p2, ir, dict(ops=[])):
                ctx.fail(sig, what + f" [compiled {spec['name']}]", rp)
            s1 = state_of(sf, ioir.build(spec).compile(compiler="gaussian"), "gaussian")
            s2 = state_of(sf, p2, "gaussian")
            why = states_differ(sf, s1, s2)
            if why:
                ctx.fail(f"{ir}:state-differs:compiled", f"compiled {spec['name']}: {why}", rp)
        except Exception as e:  # noqa: BLE001
            ctx.fail(f"{ir}:compiled-oracle-raises:{type(e).__name__}", f"{type(e).__name__}: {str(e)[:120]} ({spec['name']})", rp)


def oracle_add_decl(ctx, sf, spec):
    """to_xir(add_decl=True) / sf.save(..., add_decl=True): declarations must not change what is loaded"""
    rp = dict(kind="add_decl", spec=spec)
    if any(o["cls"] in ("Del", "New") for o in spec["ops"]):
        return
    ctx.oracle_cases += 1
    try:
        p = ioir.build(spec)
        try:
            p1 = sf.io.loads(serialise(p, "xir"), ir="xir")
        except Exception:  # noqa: BLE001   (judged by oracle_spec)
            return
        p2 = sf.io.loads(serialise(p, "xir", add_decl=True), ir="xir")
    except Exception as e:  # noqa: BLE001
        ctx.fail(f"xir:add-decl-raises:{type(e).__name__}", f"{str(e)[:120]} ({spec['name']})", rp)
        return
    if snapshot(p1) != snapshot(p2):
        ctx.fail("xir:add-decl-changes-program", f"to_xir(add_decl=True) reloads differently from to_xir() ({spec['name']})", rp)


def oracle_gate_definition(ctx, sf, rng, idx):
    """XIR scripts with gate definitions (get_expanded_statements): a defined gate applied to wires with
    parameters must load as its body with parameters and wires substituted, in order; `inv` inside a body is
    kept; `inv G` is the inverted body in reverse order; definitions may use earlier definitions (nesting)."""
    n = rng.randint(2, 4)
    body_classes = [("Sgate", 2, 1), ("Rgate", 1, 1), ("BSgate", 2, 2), ("Dgate", 2, 1)]
    defs = {}      # name -> (k_p, k_w, body) with body entries (name, param idx list, wire idx list, inv)
    lines = []

    def expand(name, vals, wires, inv):
        """independent statement of the meaning: list of (cls, params, wires, inv)"""
        if name not in defs:
            return [(name, list(vals), list(wires), inv)]
        out = []
        for bname, ps, ws, binv in defs[name][2]:
            out += expand(bname, [vals[i] for i in ps], [wires[i] for i in ws], binv)
        if inv:
            out = [(c, p, w, not i) for c, p, w, i in reversed(out)]
        return out

    for d in range(rng.randint(1, 3)):
        name = f"G{idx}x{d}"
        k_w = rng.randint(1, min(n, 2))
        k_p = rng.randint(2, 3)
        body = []
        for _ in range(rng.randint(1, 3)):
            nested = [g for g, (gp, gw, _) in defs.items() if gw <= k_w and gp <= k_p]
            if nested and rng.random() < 0.4:
                g = rng.choice(nested)
                gp, gw, _ = defs[g]
                body.append((g, [rng.randrange(k_p) for _ in range(gp)], rng.sample(range(k_w), gw), rng.random() < 0.4))
            else:
                cls, npar, nw = rng.choice([b for b in body_classes if b[2] <= k_w])
                body.append((cls, [rng.randrange(k_p) for _ in range(npar)], rng.sample(range(k_w), nw), rng.random() < 0.3))
        defs[name] = (k_p, k_w, body)
        lines.append(f"gate {name}({', '.join('a%d' % i for i in range(k_p))})[{', '.join('w%d' % i for i in range(k_w))}]:")
        for bname, ps, ws, binv in body:
            lines.append(f"    {'inv ' if binv else ''}{bname}({', '.join('a%d' % i for i in ps)}) | [{', '.join('w%d' % i for i in ws)}];")
        lines.append("end;")
    expect, apps = [], []
    for _ in range(rng.randint(1, 3)):
        g = rng.choice(list(defs))
        k_p, k_w, _ = defs[g]
        vals = [rng.randint(-6, 6) / 8 for _ in range(k_p)]
        wires = rng.sample(range(n), k_w)
        inv = rng.random() < 0.4
        apps.append(f"{'inv ' if inv else ''}{g}({', '.join(repr(v) for v in vals)}) | [{', '.join(map(str, wires))}];")
        expect += expand(g, vals, wires, inv)
        if rng.random() < 0.5:
            v, w, i2 = rng.randint(-6, 6) / 8, rng.randrange(n), rng.random() < 0.3
            apps.append(f"{'inv ' if i2 else ''}Rgate({v!r}) | [{w}];")
            expect.append(("Rgate", [v], [w], i2))
    text = "\n".join(lines + [""] + apps) + "\n"
    rp = dict(kind="gatedef", text=text, expect=expect)
    check_gate_definition(ctx, sf, text, expect, rp)


def check_gate_definition(ctx, sf, text, expect, rp):
    ctx.oracle_cases += 1
    try:
        p = sf.io.loads(text, ir="xir")
        got = [(type(c.op).__name__, [float(x) for x in c.op.p], [r.ind for r in c.reg], bool(c.op.dagger)) for c in p.circuit]
    except Exception as e:  # noqa: BLE001
        ctx.fail(f"xir:gate-definition-raises:{type(e).__name__}", f"{str(e)[:120]} on\n{text}", rp)
        return
    exp = [(c, [float(x) for x in ps], list(ws), bool(i)) for c, ps, ws, i in expect]
    if got != exp:
        ctx.fail("xir:gate-definition-expansion", f"expanded statements {got} != {exp} for\n{text}", rp)


def oracle_code_engine(ctx, sf, spec, rng):
    """generate_code(prog, eng): the engine line must rebuild an engine with the same backend and cutoff"""
    rp = dict(kind="code_engine", spec=spec)
    if code_group(spec, ioir.build(spec)) is not None:
        return
    ctx.oracle_cases += 1
    try:
        backend, opts = rng.choice([("gaussian", {}), ("fock", {"cutoff_dim": rng.randint(3, 7)}), ("bosonic", {})])
        eng = sf.Engine(backend, backend_options=opts)
        code = sf.io.generate_code(ioir.build(spec), eng)
        if "results = eng.run(prog)" not in code:
            ctx.fail("gencode:engine:no-run-line", code[-80:], rp)
        ns = {"np": np}
        exec(code.replace("results = eng.run(prog)", ""), ns)  # noqa: S102
        e2 = ns["eng"]
        if e2.backend_name != backend or e2.backend_options.get("cutoff_dim") != opts.get("cutoff_dim"):
            ctx.fail("gencode:engine:backend-or-cutoff", f"{backend} {opts} became {e2.backend_name} {e2.backend_options}", rp)
    except Exception as e:  # noqa: BLE001
        ctx.fail(f"gencode:engine:raises:{type(e).__name__}", f"{str(e)[:120]} ({spec['name']})", rp)


def code_group(spec, p):
    """generate_code is documented for numeric parameters; everything that goes wrong on a program with
    array / string / symbolic parameters is one input class, likewise programs that delete / create modes"""
    import numbers
    lv = [str(v) for v in getattr(p, "loop_vars", [])]
    plain = all((isinstance(x, numbers.Number) and not isinstance(x, bool)) or str(x) in lv for c in p.circuit for x in c.op.p)
    if any(o["cls"] in ("Del", "New") for o in spec["ops"]):
        return "gencode:Del-New"
    return None if plain else "gencode:non-numeric-param"


def oracle_code(ctx, sf, spec, rp):
    p = ioir.build(spec)
    group = code_group(spec, p)
    ctx.oracle_cases += 1
    try:
        code = sf.io.generate_code(p)
        ns = {"np": np}
        exec(code, ns)  # noqa: S102
        p2 = ns["prog"]
    except Exception as e:  # noqa: BLE001
        ctx.fail(group or f"gencode:raises:{type(e).__name__}", f"generate_code output cannot be produced/executed: {type(e).__name__} {str(e)[:80]}", rp)
        return
    for sig, what in diff_programs(p, p2, "gencode", spec):
        ctx.fail(group or sig, what + f" [{spec['name']}]", rp)


def oracle_pi(ctx, sf, value):
    from strawberryfields.io.utils import _factor_out_pi
    ctx.oracle_cases += 1
    s = _factor_out_pi([value])
    try:
        back = float(eval(s, {"np": np}))  # noqa: S307
    except Exception as e:  # noqa: BLE001
        ctx.fail("factor-out-pi:unparsable", f"_factor_out_pi([{value!r}]) = {s!r}: {e}", dict(kind="pi", value=value))
        return
    if abs(back - value) > 1e-7 * max(1.0, abs(value)):
        ctx.fail("factor-out-pi:wrong-value", f"_factor_out_pi([{value!r}]) = {s!r} denotes {back!r}", dict(kind="pi", value=value))


# --------------------------------------------------------------------------------------------- correspondence

def expressible(spec, ir):
    """the hypotheses of the round-trip theorems, on a spec"""
    for o in spec["ops"]:
        if o["cls"] in ("Del", "New"):
            return False
        for j, x in enumerate(o.get("pars", [])):
            k = ioir.par_kind(x)
            ok = k in ("numeric", "array", "loop", "loopexpr", "free", "measured") or (k == "measured-fn" and ir == "xir") \
                or (k == "measured-negfn" and False) \
                or (k == "array1d" and ir == "xir")
            if not ok:
                return False
        if o.get("kw") or o["cls"] in ("Catstate", "BipartiteGraphEmbed"):
            return False
        if o.get("dagger") and ir == "blackbird" and o["cls"] not in ioir.NEG_INVERTS:
            return False
    if ir == "blackbird" and spec.get("target") is None and (spec.get("shots") is not None or spec.get("cutoff") is not None):
        return False
    if spec.get("run_extra") or spec.get("backend_extra"):
        return False
    if ir == "blackbird" and spec.get("tdm") and len(spec["tdm"]["N"]) > 1:
        return False
    return True


def corr_spec(ctx, sf, spec, reqs, pending, make=None, text=True):
    """queue model requests for one spec; real results are computed now.  `make` builds the program
    (default: from the spec; the compiled variant passes the compiler's output)"""
    import blackbird
    import xir
    from strawberryfields.io import to_blackbird, to_xir, to_program
    make = make or (lambda: ioir.build(spec))
    case = dict(spec=spec) if text else dict(spec=spec, compiled=True)
    kloop = len(spec["tdm"]["params"]) if spec.get("tdm") else 0
    try:
        pj = ioir.prog_json(make())
    except ioir.Unrep:
        ctx.tally("corr-skipped:unrepresentable")
        return
    # ---- Blackbird writer
    try:
        bbj = ioir.bb_json(to_blackbird(make()))
        real = {"ok": bbj}
    except ioir.Unrep:
        ctx.tally("corr-skipped:unrepresentable")
        real, bbj = None, None
    except Exception as e:  # noqa: BLE001
        real, bbj = ioir.err_json(e), None
    if real is not None:
        reqs.append(dict(op="io.toBB", prog=pj)); pending.append(("toBB vs to_blackbird", case, real))
    # constructors that are not the identity on op.p are outside the reader model (oracle only)
    readers = not any(o["cls"] == "BipartiteGraphEmbed" for o in spec["ops"])
    if bbj is not None and readers:
        # ---- reader on the IR object
        try:
            real = {"ok": ioir.prog_json(to_program(to_blackbird(make())))}
        except ioir.Unrep:
            real = None
        except Exception as e:  # noqa: BLE001
            real = ioir.err_json(e)
        if real is not None:
            reqs.append(dict(op="io.fromBB", bb=bbj, parse=ioir.parse_table(bbj, True, kloop)))
            pending.append(("toProgramBB vs to_program(blackbird)", case, real))
        # ---- text layer (hypothesis of the theorems)
        if text and expressible(spec, "blackbird"):
            try:
                bb2 = blackbird.loads(to_blackbird(make()).serialize())
                real2 = ioir.bb_json(bb2)
                reqs.append(dict(op="io.reparseBB", bb=bbj)); pending.append(("reparseBB vs blackbird text layer", case, real2))
                real3 = {"ok": ioir.prog_json(to_program(bb2))}
                reqs.append(dict(op="io.fromBB", bb=real2, parse=ioir.parse_table(real2, True, kloop)))
                pending.append(("toProgramBB vs to_program(blackbird text)", case, real3))
            except Exception as e:  # noqa: BLE001
                ctx.disagree("blackbird text layer raises on an expressible program", case, "identity", repr(e)[:200])
    # ---- XIR writer
    try:
        xj = ioir.xir_json(to_xir(make()))
    except ioir.Unrep:
        ctx.tally("corr-skipped:unrepresentable")
        return
    reqs.append(dict(op="io.toXIR", prog=pj)); pending.append(("toXIR vs to_xir", case, xj))
    try:
        real = {"ok": ioir.prog_json(to_program(to_xir(make())))}
    except ioir.Unrep:
        real = None
    except Exception as e:  # noqa: BLE001
        real = ioir.err_json(e)
    if real is not None and readers:
        reqs.append(dict(op="io.fromXIR", xir=xj, parse=ioir.parse_table(xj, False, kloop)))
        pending.append(("toProgramXIR vs to_program(xir)", case, real))
    if text and expressible(spec, "xir"):
        try:
            x2 = xir.parse_script(to_xir(make()).serialize())
            xj2 = ioir.xir_json(x2)
            ctx.corr_cases += 1
            nospace = lambda j: json.loads(json.dumps(j), object_hook=lambda d: {"str": d["str"].replace(" ", "")} if set(d) == {"str"} else d)
            if nospace(xj2) != nospace(xj):     # the XIR printer re-spaces expression strings
                ctx.disagree("XIR text layer is not the identity on an expressible program", case, xj, xj2)
            real3 = {"ok": ioir.prog_json(to_program(x2))}
            reqs.append(dict(op="io.fromXIR", xir=xj2, parse=ioir.parse_table(xj2, False, kloop)))
            pending.append(("toProgramXIR vs to_program(xir text)", case, real3))
        except Exception as e:  # noqa: BLE001
            ctx.disagree("XIR text layer raises on an expressible program", case, "identity", repr(e)[:200])


def corr_code(ctx, sf, spec, reqs, pending):
    """generate_code: the model's printed AST against the parsed real text, and the meaning of the printed
    code (model `evalCode`) against what executing the real text builds"""
    p = ioir.build(spec)
    if code_group(spec, p) is not None:
        return
    pj = ioir.prog_json(p)
    code = sf.io.generate_code(ioir.build(spec))
    real = ioir.code_json(code)
    if real["tdmN"] is None:
        pj["n"] = p.num_subsystems
    else:
        real["n"] = pj["n"]          # TDM code states N only
    reqs.append(dict(op="io.genCode", prog=pj)); pending.append(("genCode vs generate_code", dict(spec=spec), real))
    ns = {"np": np}
    exec(code, ns)  # noqa: S102
    built = ioir.prog_json(ns["prog"])
    built.update(name="", target=None, shots=None, cutoff=None, extra=[])
    reqs.append(dict(op="io.evalCode", prog=pj)); pending.append(("evalCode(genCode) vs exec(generate_code)", dict(spec=spec), {"ok": built}))


def close_json(a, b):
    """equal up to the last bits of floats (the model evaluates c*np.pi/d exactly, Python in float64)"""
    if isinstance(a, dict) and isinstance(b, dict) and set(a) == set(b) == {"f"}:
        x, y = a["f"][0] / a["f"][1], b["f"][0] / b["f"][1]
        return abs(x - y) <= 1e-14 * max(1.0, abs(x))
    if isinstance(a, dict) and isinstance(b, dict):
        return set(a) == set(b) and all(close_json(a[k], b[k]) for k in a)
    if isinstance(a, list) and isinstance(b, list):
        return len(a) == len(b) and all(close_json(x, y) for x, y in zip(a, b))
    return a == b


def corr_num(ctx, sf, rng):
    """_factor_out_pi on arbitrary numbers: exact multiples, numbers just below / above a multiple (inside and
    outside the isclose window, which is asymmetric), ints, random floats"""
    from strawberryfields.io.utils import _factor_out_pi
    if not ctx.proof_ok:
        return
    f = float(np.pi / 12)
    xs = []
    for _ in range(ctx.n(400, 4000)):
        m = rng.randint(-60, 60)
        r = rng.random()
        if r < 0.25:
            xs.append(m * f)
        elif r < 0.6:
            xs.append(m * f + rng.choice([1, -1]) * rng.choice([1e-12, 5e-9, 9e-9, 2e-8, 1e-6, 2.5e-6, 2.7e-6, 1e-5, 1e-3]))
        elif r < 0.7:
            xs.append(rng.randint(-9, 9))
        elif r < 0.8:
            xs.append(rng.randint(-16, 16) / 8)
        else:
            xs.append(rng.uniform(-20, 20))
    res = ctx.lean([dict(op="io.genNum", x=ioir.sc(x)) for x in xs])
    for x, model in zip(xs, res):
        ctx.corr_cases += 1
        impl = ioir.pyarg_json(_factor_out_pi([x]))
        ctx.tally("genNum:" + next(iter(impl)))
        if impl != model:
            ctx.disagree("genNum vs _factor_out_pi", dict(x=x), model, impl)


def corr_names(ctx, sf, rng):
    """the index parsers on symbol names (model measuredIndex / ptypeIndex / qName / pName) against the real
    par_convert, tdm.is_ptype + int(name[1:]), MeasuredParameter names and TDM loop-variable names"""
    import sympy
    import strawberryfields.parameters as sfpar
    from strawberryfields.tdm import is_ptype
    if not ctx.proof_ok:
        return
    idxs = list(range(0, 25)) + [rng.randint(25, 400) for _ in range(20)] + [99, 100, 101, 999, 1000]
    names = [f"q{i}" for i in idxs] + [f"p{i}" for i in idxs] + \
        ["q", "p", "q1x", "p1x", "qx1", "px", "q_1", "p_1", "quality", "pump", "Q1", "P1", "q01", "p007", "x", "q1 ", "q-1", "alpha"]
    res = ctx.lean([dict(op="io.names", names=names, indices=idxs)])[0]
    big = sf.Program(max(idxs) + 1)
    for name, (mi, pi) in zip(names, res["parsed"]):
        ctx.corr_cases += 1
        # par_convert on the bare symbol: a measured parameter of which subsystem?
        try:
            out = sfpar.par_convert([sympy.Symbol(name)], big)[0]
            real_m = out.regref.ind if isinstance(out, sfpar.MeasuredParameter) else None
        except Exception as e:  # noqa: BLE001
            real_m = "raises " + type(e).__name__
        real_p = int(name[1:]) if is_ptype(name) else None
        if mi != real_m:
            ctx.disagree("measuredIndex vs par_convert", dict(name=name), mi, real_m)
        if pi != real_p:
            ctx.disagree("ptypeIndex vs is_ptype/int", dict(name=name), pi, real_p)
    tp = sf.TDMProgram(N=2)
    with tp.context(*[[0.0, 1.0] for _ in range(30)]) as (p, q):
        pass
    for i, (qn, pn) in zip(idxs, res["printed"]):
        ctx.corr_cases += 1
        real_q = sfpar.MeasuredParameter(big.register[i]).name
        if qn != real_q:
            ctx.disagree("qName vs MeasuredParameter.name", dict(i=i), qn, real_q)
        if i < 30 and pn != p[i].name:
            ctx.disagree("pName vs TDM loop variable name", dict(i=i), pn, p[i].name)


def _strip_unmodelled(model, impl):
    return isinstance(model, dict) and model.get("err") == "unmodelled"


def compare(ctx, reqs, pending):
    if not ctx.proof_ok or not reqs:
        return
    for (pair, case, impl), model in zip(pending, ctx.lean(reqs)):
        if _strip_unmodelled(model, impl):
            ctx.tally("corr-skipped:unmodelled-kwarg")
            continue
        ctx.corr_cases += 1
        if model != impl and not (pair.startswith("evalCode") and close_json(model, impl)):
            ctx.disagree(pair, case, model, impl)


def corr_pi(ctx, sf):
    from strawberryfields.io.utils import _factor_out_pi
    if not ctx.proof_ok:
        return
    ms = [m for m in range(-150, 151) if m != 0] + [12 * k for k in (13, 17, 25, 100, -33)]
    res = ctx.lean([dict(op="io.piString", m=m) for m in ms])
    for m, model in zip(ms, res):
        for val in (m * np.pi / 12, np.pi * m / 12, m * (np.pi / 12)):
            ctx.corr_cases += 1
            impl = _factor_out_pi([float(val)])
            if impl != model:
                ctx.disagree("piString vs _factor_out_pi", dict(m=m, value=float(val)), model, impl)


# --------------------------------------------------------------------------------------------- driver

PLANS = [  # (features, relative weight)
    (("dagger", "meas", "options", "array", "complexnum"), 5),
    (("dagger", "meas", "measured", "options"), 3),
    (("dagger", "free", "options"), 1),
    (("dagger", "options_no_target", "unused_tail", "meas"), 1),
    (("kwargs", "array"), 1),
    (("fourier", "dagger", "mz"), 1),
    (("array1d", "string"), 1),
    (("dagger", "options", "extra_opts"), 1),
    (("repeat", "share", "options"), 2),
    (("delnew", "dagger"), 1),
    (("wide", "measured", "dagger", "meas"), 2),
    (("wide", "free", "dagger", "options"), 1),
]
TDM_PLANS = [
    (("dagger", "options", "select"), 3),
    (("loopexpr", "nlist", "dagger"), 1),
    (("wide", "loopexpr", "dagger", "select"), 1),
]


def corpus_specs():
    out = []
    d = os.path.join(os.path.dirname(__file__), "..", "..", "corpus", "C14")
    if os.path.isdir(d):
        for f in sorted(os.listdir(d)):
            if f.endswith(".json"):
                j = json.load(open(os.path.join(d, f)))
                out.extend(j["specs"] if "specs" in j else [j["spec"]])
    return out


def nontrivial(spec):
    feats = spec.get("tdm") or spec.get("target") or any(
        o.get("dagger") or o.get("select") is not None or o.get("dark") is not None or o.get("kw")
        or any(ioir.par_kind(x) != "numeric" for x in o.get("pars", [])) for o in spec["ops"])
    return len(spec["ops"]) >= 2 and bool(feats)


def guarded(ctx, what, spec, fn, *a, **kw):
    """an exception escaping an oracle / correspondence step becomes a failing input, not a harness crash"""
    try:
        fn(*a, **kw)
    except ioir.Unrep:
        ctx.tally("skipped:unrepresentable")
    except Exception as e:  # noqa: BLE001
        import traceback
        ctx.fail(f"{what}-raises:{type(e).__name__}", f"{what}: {type(e).__name__}: {str(e)[:150]} ({spec.get('name')}) "
                 + traceback.format_exc(limit=-2)[-300:], dict(kind="spec", spec=spec, via="text"))


def one_spec(ctx, sf, spec, kind, idx, reqs, pending, prev, via=None):
    ctx.count(kind, spec, nontrivial(spec), sample=spec)
    guarded(ctx, "oracle", spec, oracle_spec, ctx, sf, spec, via=via or ("file" if idx % 5 == 0 else "text"))
    guarded(ctx, "correspondence", spec, corr_spec, ctx, sf, spec, reqs, pending)
    guarded(ctx, "correspondence(code)", spec, corr_code, ctx, sf, spec, reqs, pending)
    if prev is not None and idx % 3 == 0 and bool(prev.get("tdm")) == bool(spec.get("tdm")):
        oracle_history(ctx, sf, spec, prev, share=(idx % 2 == 0))
    if idx % 2 == 0 and runnable_backend(spec) == "gaussian" and not any(o["cls"] in ("Del", "New") for o in spec["ops"]):
        oracle_compiled(ctx, sf, spec)
        try:
            ioir.build(spec).compile(compiler="gaussian")
            guarded(ctx, "correspondence", spec, corr_spec, ctx, sf, spec, reqs, pending,
                    make=lambda: ioir.build(spec).compile(compiler="gaussian"), text=False)
        except Exception:  # noqa: BLE001
            pass
    if idx % 4 == 1:
        oracle_add_decl(ctx, sf, spec)
    if idx % 6 == 2:
        oracle_code_engine(ctx, sf, spec, ctx.rng)


def run(ctx, sf):
    rng = ctx.rng
    reqs, pending = [], []
    corr_pi(ctx, sf)
    corr_num(ctx, sf, rng)
    guarded(ctx, "correspondence(names)", dict(name="names"), corr_names, ctx, sf, rng)
    for m in list(range(-150, 151)) + [12 * k for k in (13, 17, 25, 100, -33)]:
        for val in (m * np.pi / 12, np.pi * m / 12, m * (np.pi / 12)):   # the three roundings of m*pi/12
            oracle_pi(ctx, sf, float(val))
    for _ in range(ctx.n(200, 2000)):
        oracle_pi(ctx, sf, rng.choice([rng.uniform(-20, 20), rng.randint(-9, 9) / 4, rng.randint(-40, 40) * float(np.pi) / rng.choice([1, 2, 3, 4, 6, 12, 5, 7])]))
    for i in range(ctx.n(30, 300)):
        oracle_gate_definition(ctx, sf, rng, i)
    prev = None
    idx = 0
    for spec in corpus_specs():
        one_spec(ctx, sf, spec, "corpus", idx, reqs, pending, prev, via="text"); idx += 1
        guarded(ctx, "oracle", spec, oracle_spec, ctx, sf, spec, via="file", check_state=False, check_code=False)
        prev = spec
    total = ctx.n(260, 8000)
    wsum = sum(w for _, w in PLANS)
    for feats, w in PLANS:
        for _ in range(max(4, total * w // wsum)):
            spec = ioir.rand_spec(rng, idx, set(feats)); idx += 1
            one_spec(ctx, sf, spec, "prog:" + "+".join(feats), idx, reqs, pending, prev)
            prev = spec
    for _ in range(ctx.n(40, 500)):
        spec = ioir.rand_history_spec(rng, idx); idx += 1
        ctx.count("history:" + "+".join(sorted(spec["history"])), spec, True, sample=spec)
        guarded(ctx, "oracle", spec, oracle_spec, ctx, sf, spec, via="text", check_state=False, check_code=False)
        guarded(ctx, "correspondence", spec, corr_spec, ctx, sf, spec, reqs, pending)
    total_t = ctx.n(90, 2500)
    wsum = sum(w for _, w in TDM_PLANS)
    prev = None
    for feats, w in TDM_PLANS:
        for _ in range(max(4, total_t * w // wsum)):
            spec = ioir.rand_tdm_spec(rng, idx, set(feats)); idx += 1
            one_spec(ctx, sf, spec, "tdm:" + "+".join(feats), idx, reqs, pending, prev)
            prev = spec
        if len(reqs) > 3000:
            compare(ctx, reqs, pending); reqs, pending = [], []
    compare(ctx, reqs, pending)
    for k, v in sorted({d["pair"]: 0 for d in ctx.disagreements}.items()):
        ctx.tally("disagree:" + k, sum(1 for d in ctx.disagreements if d["pair"] == k))


def search(ctx, sf):
    run(ctx, sf)


def replay(ctx, rp):
    import strawberryfields as sf
    from lib import core
    n0 = len(ctx.failures)
    kind = rp.get("kind")
    if kind == "pi":
        oracle_pi(ctx, sf, rp["value"])
    elif kind == "pair":
        oracle_history(ctx, sf, rp["a"], rp["b"], rp.get("share", False))
    elif kind == "compiled":
        oracle_compiled(ctx, sf, rp["spec"])
    elif kind == "add_decl":
        oracle_add_decl(ctx, sf, rp["spec"])
    elif kind == "gatedef":
        check_gate_definition(ctx, sf, rp["text"], [tuple(e) for e in rp["expect"]], rp)
    elif kind == "code_engine":
        oracle_code_engine(ctx, sf, rp["spec"], ctx.rng)
    else:
        oracle_spec(ctx, sf, rp["spec"], via=rp.get("via", "text"))
    known = core.Known()
    return any(not known.match(ctx.pid, f["sig"]) for f in ctx.failures[n0:])
