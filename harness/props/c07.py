"""C07 — every simulated state is physical; gates conserve what they must.  K3/K4 correspondence (shared with
C01) plus the property-level oracle on generated multi-mode circuits: symmetric covariance obeying the uncertainty
relation, Hermitian PSD density matrix with trace <= 1, bosonic weights summing to one; purity preserved by unitary
gates, total photon number conserved by passive gates and not increased by loss."""
import math

import numpy as np

from lib import sim, simcorr, progs

RULE = ("random programs (1-4 modes, 1-8 ops; Gaussian gates incl. daggers on every ordered pair, channels, re-preparations; "
        "Fock: additionally Kgate/Vgate/CKgate and Fock preparations) run on gaussian, bosonic (incl. Cat/GKP/Fock first-op "
        "preparations), fock-pure, fock-mixed.  Conservation laws are checked across a final passive / unitary / loss op "
        "appended to a random prefix.  Non-trivial = >=2 modes and a correlated pre-state; distinct by (program, backend).")
ASSUMPTIONS = ["positivity of float results is judged with tolerance 1e-8 (phase space) / 1e-7 (Fock eigenvalues)",
               "Fock: conservation laws hold up to truncation (escalation rule)"]
TRUSTED = ["modelled: same K3 functions as C01 (invariants, symplectic blocks, photon bookkeeping); PSD preservation is a "
           "Mathlib matrix theorem about the specification; Fock/bosonic positivity is oracle-only"]


def omega(n):
    O = np.zeros((2 * n, 2 * n))
    O[:n, n:] = np.eye(n)
    O[n:, :n] = -np.eye(n)
    return O


def check_gaussian_state(ctx, sf, st, rp, what="gaussian"):
    V = np.asarray(st.cov()) / (sf.hbar / 2)
    n = V.shape[0] // 2
    if np.max(np.abs(V - V.T)) > 1e-9 * max(1, np.max(np.abs(V))):
        ctx.fail(f"{what}:cov-not-symmetric", f"{what} covariance is not symmetric ({np.max(np.abs(V - V.T)):.3g})", rp)
        return
    ev = np.linalg.eigvalsh(V + 1j * omega(n))
    if ev.min() < -1e-8 * max(1, np.max(np.abs(V))):
        ctx.fail(f"{what}:uncertainty-violated", f"{what} covariance violates the uncertainty relation (min eigenvalue of "
                 f"V + i Omega = {ev.min():.3g})", rp)
        return
    # the Fock density matrix the state object hands out (pure and mixed branch, any number of modes) must be one
    if what == "gaussian" and n <= 3 and hasattr(st, "dm"):
        D = 4 if n == 3 else 5
        rho = np.asarray(st.dm(cutoff=D))
        mat = np.transpose(rho, [2 * i for i in range(n)] + [2 * i + 1 for i in range(n)]).reshape(D ** n, D ** n)
        herm = float(np.max(np.abs(mat - mat.conj().T)))
        if herm > 1e-9:
            ctx.fail("gaussian:dm-not-hermitian", f"dm(cutoff={D}) of the {n}-mode {'pure' if st.is_pure else 'mixed'} Gaussian state "
                     f"is not Hermitian ({herm:.3g})", rp)
            return
        evd = np.linalg.eigvalsh((mat + mat.conj().T) / 2)
        tr = float(np.real(np.trace(mat)))
        if evd.min() < -1e-7 or tr > 1 + 1e-8 or np.min(np.real(np.diag(mat))) < -1e-9:
            ctx.fail("gaussian:dm-not-a-state", f"dm(cutoff={D}) of the {n}-mode {'pure' if st.is_pure else 'mixed'} Gaussian state has "
                     f"min eigenvalue {evd.min():.3g}, trace {tr:.10f}", rp)


def check_fock_state(ctx, sf, st, rp, what):
    n = st.num_modes
    rho = sim.dm_of(st)
    D = rho.shape[0]
    mat = np.transpose(rho, [2 * i for i in range(n)] + [2 * i + 1 for i in range(n)]).reshape(D ** n, D ** n)
    if np.max(np.abs(mat - mat.conj().T)) > 1e-9:
        ctx.fail(f"{what}:dm-not-hermitian", f"{what} density matrix is not Hermitian", rp)
        return
    ev = np.linalg.eigvalsh((mat + mat.conj().T) / 2)
    tr = float(np.real(np.trace(mat)))
    if ev.min() < -1e-7:
        ctx.fail(f"{what}:dm-not-psd", f"{what} density matrix has eigenvalue {ev.min():.3g}", rp)
    if tr > 1 + 1e-8:
        ctx.fail(f"{what}:trace-above-one", f"{what} state has trace {tr:.10f} > 1", rp)
    if abs(float(st.trace()) - tr) > 1e-9:
        ctx.fail(f"{what}:trace-method", f"state.trace() = {st.trace()} but the density matrix has trace {tr}", rp)


def check_bosonic_state(ctx, sf, st, rp):
    w = np.asarray(st.weights())
    # Fock / GKP approximations carry large alternating weights: judge the sum relative to its conditioning
    if abs(np.sum(w) - 1) > 1e-8 + 1e-10 * float(np.sum(np.abs(w))):
        ctx.fail("bosonic:weights-not-normalised", f"bosonic weights sum to {np.sum(w)}", rp)
    covs = np.asarray(st.covs())
    for c in covs[: 8]:
        if np.max(np.abs(c - c.T)) > 1e-9 * max(1, np.max(np.abs(c))):
            ctx.fail("bosonic:cov-not-symmetric", "a bosonic component covariance is not symmetric", rp)
            break
    # the operator must be Hermitian with non-negative quadrature densities: the Wigner function sum_k w_k N(xi; mu_k, S_k)
    # of every single mode is real, and its x- and p-marginals are real and non-negative (evaluated here from the components)
    mus = np.asarray(st.means())
    if len(w) <= 64:
        nm = covs.shape[1] // 2
        scale = math.sqrt(sf.hbar / 2)
        for m in range(min(nm, 3)):
            ix = [2 * m, 2 * m + 1]
            mu_m, c_m = mus[:, ix], covs[:, ix][:, :, ix]
            ci = np.linalg.inv(c_m)
            dt = np.linalg.det(c_m)
            worst_im, worst_neg, ref = 0.0, 0.0, 0.0
            for (x, p_) in ((0.0, 0.0), (0.7, -0.4), (-1.3, 0.9), (2.1, 1.6), (0.2, -2.2)):
                xi = np.array([x, p_]) * scale
                dlt = xi[None, :] - mu_m
                terms = w * np.exp(-0.5 * np.einsum("ki,kij,kj->k", dlt, ci, dlt)) / (2 * np.pi * np.sqrt(dt))
                ref = max(ref, float(np.sum(np.abs(terms))))
                worst_im = max(worst_im, abs(float(np.imag(np.sum(terms)))))
                for q_ in (0, 1):
                    d1 = xi[q_] - mu_m[:, q_]
                    v1 = c_m[:, q_, q_]
                    t1 = w * np.exp(-0.5 * d1 * d1 / v1) / np.sqrt(2 * np.pi * v1)
                    tot = np.sum(t1)
                    worst_im = max(worst_im, abs(float(np.imag(tot))) )
                    worst_neg = max(worst_neg, -float(np.real(tot)) - 1e-9 * float(np.sum(np.abs(t1))))
                    ref = max(ref, float(np.sum(np.abs(t1))))
            if worst_im > 1e-8 * max(1.0, ref):
                ctx.fail("bosonic:not-hermitian", f"the Wigner function / a quadrature density of mode {m} of the bosonic state has "
                         f"imaginary part {worst_im:.3g}: the represented operator is not Hermitian", rp)
                break
            if worst_neg > 1e-8 * max(1.0, ref):
                ctx.fail("bosonic:negative-density", f"a quadrature probability density of mode {m} of the bosonic state is "
                         f"negative ({-worst_neg:.3g})", rp)
                break
    if len(w) == 1:
        n = covs.shape[1] // 2
        perm = list(range(0, 2 * n, 2)) + list(range(1, 2 * n, 2))
        V = np.real(covs[0])[np.ix_(perm, perm)] / (sf.hbar / 2)
        ev = np.linalg.eigvalsh(V + 1j * omega(n))
        if ev.min() < -1e-8 * max(1, np.max(np.abs(V))):
            ctx.fail("bosonic:uncertainty-violated", f"bosonic Gaussian state violates the uncertainty relation ({ev.min():.3g})", rp)


def run_backend(sf, spec, backend, cutoff=8):
    if backend.startswith("fock"):
        return sim.run_spec(sf, spec, "fock", cutoff_dim=cutoff, pure=(backend == "fock-pure"))[0]
    return sim.run_spec(sf, spec, backend)[0]


def photon_total(sf, st, backend):
    if backend == "gaussian":
        a, N, M = sim.moments_gaussian(st, sf.hbar)
        tr = 1.0
    elif backend == "bosonic":
        a, N, M = sim.moments_bosonic(st, sf.hbar)
        tr = 1.0
    else:
        a, N, M, tr = sim.moments_fock(st)
    return float(np.real(np.trace(N) + np.vdot(a, a))), tr


def purity(sf, st, backend):
    if backend == "gaussian":
        V = np.asarray(st.cov()) / (sf.hbar / 2)
        return 1 / math.sqrt(max(np.linalg.det(V), 1e-300)), 1.0
    rho = sim.dm_of(st)
    n = st.num_modes
    D = rho.shape[0]
    mat = np.transpose(rho, [2 * i for i in range(n)] + [2 * i + 1 for i in range(n)]).reshape(D ** n, D ** n)
    tr = float(np.real(np.trace(mat)))
    return float(np.real(np.trace(mat @ mat))) / tr ** 2, tr


def check_physical(ctx, sf, spec, backend, rp, cutoff=8):
    try:
        return _check_physical(ctx, sf, spec, backend, rp, cutoff)
    except ZeroDivisionError:
        ctx.tally("skipped:zero-probability")
        return None
    except Exception as e:  # noqa: BLE001  (an exception while inspecting a returned state is a failing input)
        ctx.fail(f"evaluation-raises:{backend}:{type(e).__name__}", f"inspecting the state returned by {backend} raised "
                 f"{type(e).__name__}: {e}", rp)
        return None


class ChannelWatch:
    """records every `(X, Y)` the bosonic simulator hands to `apply_channel` during a run and judges complete positivity:
    `Y + i(Omega - X Omega X^T) >= 0` (xxpp ordering, hbar-free)"""

    def __init__(self, sf):
        from strawberryfields.backends.bosonicbackend.bosoniccircuit import BosonicModes
        self.cls, self.sf, self.worst, self.bad = BosonicModes, sf, 0.0, None

    def __enter__(self):
        self.orig = self.cls.apply_channel
        watch = self

        def wrapped(bm, X, Y):
            X_, Y_ = np.array(X, dtype=float), np.array(Y, dtype=float) / (bm.hbar / 2)
            n = X_.shape[0] // 2
            M = Y_ + 1j * (omega(n) - X_ @ omega(n) @ X_.T)
            ev = float(np.linalg.eigvalsh((M + M.conj().T) / 2).min())
            if ev < watch.worst:
                watch.worst, watch.bad = ev, (np.round(X_, 6).tolist(), np.round(Y_, 6).tolist())
            return watch.orig(bm, X, Y)
        self.cls.apply_channel = wrapped
        return self

    def __exit__(self, *a):
        self.cls.apply_channel = self.orig


def _check_physical(ctx, sf, spec, backend, rp, cutoff=8):
    try:
        if backend == "bosonic":
            with ChannelWatch(sf) as cw:
                st = run_backend(sf, spec, backend, cutoff)
            if cw.worst < -1e-9:
                ctx.fail("bosonic:channel-not-cp", f"the bosonic simulator applied a Gaussian map (X, Y) that is not completely "
                         f"positive: min eigenvalue of Y + i(Omega - X Omega X^T) = {cw.worst:.3g}", rp)
        else:
            st = run_backend(sf, spec, backend, cutoff)
    except NotImplementedError:
        ctx.tally("skipped:not-implemented")
        return None
    except Exception as e:  # noqa: BLE001
        ctx.fail(f"raises:{backend}:{type(e).__name__}", f"{backend} raised {type(e).__name__}: {e}", rp)
        return None
    ctx.oracle_cases += 1
    if backend == "gaussian":
        check_gaussian_state(ctx, sf, st, rp)
    elif backend == "bosonic":
        check_bosonic_state(ctx, sf, st, rp)
    else:
        check_fock_state(ctx, sf, st, rp, backend)
    return st


def check_conservation(ctx, sf, prefix, op, n, backend, kind):
    """kind: 'passive' (photon number conserved), 'unitary' (purity preserved), 'loss' (photon number not increased)"""
    spec0, spec1 = dict(n=n, ops=prefix), dict(n=n, ops=prefix + [op])
    rp = dict(kind="conservation", prefix=prefix, op=op, n=n, backend=backend, law=kind)
    cutoff = 9

    def measure(cut):
        s0, s1 = run_backend(sf, spec0, backend, cut), run_backend(sf, spec1, backend, cut)
        if kind == "unitary":
            (p0, t0), (p1, t1) = purity(sf, s0, backend), purity(sf, s1, backend)
            return abs(p0 - p1), max(1 - t0, 1 - t1, 0)
        (n0, t0), (n1, t1) = photon_total(sf, s0, backend), photon_total(sf, s1, backend)
        if kind == "passive":
            return abs(n0 - n1), max(1 - t0, 1 - t1, 0)
        return max(n1 - n0, 0.0), max(1 - t0, 1 - t1, 0)
    try:
        d, loss = measure(cutoff)
    except NotImplementedError:
        return
    except Exception as e:  # noqa: BLE001
        ctx.fail(f"evaluation-raises:{backend}:{op['cls']}:{type(e).__name__}", f"{backend} raised {type(e).__name__}: {e}", rp)
        return
    ctx.oracle_cases += 1
    fock = backend.startswith("fock")
    tol = (5 * cutoff * loss + 1e-6) if fock else 1e-8 * max(1.0, n)
    if d > tol:
        if fock:
            d2, loss2 = measure(cutoff + 6)
            if not (d2 > max(1e-5, d / 2) and d2 > 5 * (cutoff + 6) * loss2 + 1e-6):
                return
        ctx.fail(f"{kind}-law:{backend}:{op['cls']}",
                 f"{op['cls']}{'.H' if op.get('dagger') else ''} on {op['regs']} breaks the {kind} law on {backend} by {d:.3g}", rp)


def check_top_level(ctx, sf, rng):
    """operations that cannot raise the photon number of a mode (loss, rotation, Kerr) have nothing to truncate: on the Fock
    back end they preserve the trace exactly and the loss channel scales the photon number by T exactly, also for states that
    populate the highest retained level"""
    for it in range(ctx.n(12, 120)):
        D = rng.choice([3, 4, 5])
        n = rng.choice([1, 2, 2])
        m = rng.randrange(n)
        nprng = np.random.default_rng(rng.getrandbits(32))
        amp = nprng.normal(size=(D,) * n) + 1j * nprng.normal(size=(D,) * n)
        if it % 3 == 0:          # a number state at the top level of the measured mode
            amp = np.zeros((D,) * n, dtype=complex)
            idx = [rng.randrange(D) for _ in range(n)]
            idx[m] = D - 1
            amp[tuple(idx)] = 1
        amp /= np.linalg.norm(amp)
        prep = dict(cls="Ket", regs=list(range(n)), pars=[], apars=[dict(re=amp.real.tolist(), im=amp.imag.tolist())])
        T = rng.choice([0.1, 0.5, 0.9, 0.25])
        ops_pool = [dict(cls="LossChannel", regs=[m], pars=[T]), dict(cls="LossChannel", regs=[m], pars=[T]),
                    dict(cls="Rgate", regs=[m], pars=[sim.angle(rng)]), dict(cls="Kgate", regs=[m], pars=[0.3]),
                    # the cubic phase gate is the exponential of a truncated Hermitian matrix: unitary on the truncated space
                    dict(cls="Vgate", regs=[m], pars=[round(rng.uniform(-0.4, 0.4), 3)])]
        if n == 2:
            ops_pool.append(dict(cls="CKgate", regs=rng.sample([0, 1], 2), pars=[round(rng.uniform(-0.5, 0.5), 3)]))
        op = rng.choice(ops_pool)
        for backend in ("fock-pure", "fock-mixed"):
            rp = dict(kind="top", prep=prep, op=op, n=n, D=D, backend=backend)
            ctx.oracle_cases += 1
            ctx.count(f"top-level:{backend}:{op['cls']}", dict(p=prep, o=op, b=backend), True)
            try:
                s0 = run_backend(sf, dict(n=n, ops=[prep]), backend, D)
                s1 = run_backend(sf, dict(n=n, ops=[prep, op]), backend, D)
                (n0, t0), (n1, t1) = photon_total(sf, s0, backend), photon_total(sf, s1, backend)
            except Exception as e:  # noqa: BLE001
                ctx.fail(f"evaluation-raises:{backend}:{op['cls']}:{type(e).__name__}", f"{backend} raised {type(e).__name__}: {e}", rp)
                continue
            if abs(t1 - t0) > 1e-9:
                ctx.fail(f"trace-law:{backend}:{op['cls']}", f"{op['cls']} on a {n}-mode state at cutoff {D} changed the trace from "
                         f"{t0:.10f} to {t1:.10f} on {backend}, although it cannot raise any photon number", rp)
            elif op["cls"] == "LossChannel" and n == 1 and abs(n1 - T * n0) > 1e-9:
                ctx.fail(f"loss-law:{backend}", f"LossChannel({T}) took the mean photon number from {n0:.10f} to {n1:.10f} "
                         f"(expected {T * n0:.10f}) on {backend} at cutoff {D}", rp)
            check_fock_state(ctx, sf, s1, rp, backend)


PASSIVE = ["Rgate", "BSgate", "MZgate", "Fouriergate"]
UNITARY = ["Rgate", "Sgate", "Dgate", "Xgate", "Zgate", "Pgate", "Fouriergate", "BSgate", "S2gate", "CXgate", "CZgate", "MZgate"]


def bosonic_nongauss_spec(rng, n):
    """non-Gaussian bosonic preparations are only allowed as the first operation on a mode"""
    ops = []
    for m in range(n):
        c = rng.choice(["Catstate", "Fock", "none", "none"])
        if c == "Catstate":     # any parity phase (p = 0.5: Yurke-Stoler), any phase of alpha
            ops.append(dict(cls="Catstate", regs=[m], pars=[round(rng.uniform(0.5, 1.5), 2), rng.choice([0.0, 0.0, sim.angle(rng)]),
                                                            rng.choice([0, 1, 0.5, 0.25, 1.5])],
                            kw=dict(representation=rng.choice(["complex", "complex", "real"]))))
        elif c == "Fock":
            ops.append(dict(cls="Fock", regs=[m], pars=[rng.choice([1, 2])]))
    for _ in range(rng.randint(1, 5)):
        ops.append(sim.rand_gaussian_op(rng, n, allow_prep=False))
        if rng.random() < 0.3:      # measurement-based squeezing: average map and single shot, ideal and lossy ancilla detection
            ops.append(dict(cls="MSgate", regs=[rng.randrange(n)],
                            pars=[round(rng.uniform(0.2, 0.8), 3) * rng.choice([1, -1]), sim.angle(rng), rng.choice([1.0, 2.0, 10.0]),
                                  rng.choice([1.0, 0.9, 0.6])], kw=dict(avg=rng.random() < 0.7)))
    if any(o["cls"] == "Fock" for o in ops):
        # the single-shot map samples a homodyne outcome by rejection; on the bosonic approximation of a number state (weights
        # of alternating sign and magnitude ~1e5) its acceptance rate is ~1e-5 per draw: only the average map there
        for o in ops:
            if o["cls"] == "MSgate":
                o["kw"] = dict(avg=True)
    return dict(n=n, ops=ops)


def run(ctx, sf):
    sf.hbar = 2
    check_top_level(ctx, sf, ctx.rng)
    simcorr.run_loss_corr(ctx)
    simcorr.run_cat_corr(ctx, ctx.n(40, 400))
    simcorr.run_fock_corr(ctx, ctx.n(110, 1100))
    simcorr.run_gauss_corr(ctx, ctx.n(120, 1200))
    rng = ctx.rng
    for it in range(ctx.n(50, 600)):
        n = rng.choice([1, 2, 2, 3, 3, 4])
        spec = sim.rand_gaussian_program(rng, n=n, length=rng.randint(1, 8))
        if rng.random() < 0.5 and n >= 2:
            spec["ops"] = sim.correlated_prefix(rng, n) + spec["ops"][:4]
        fock_spec = dict(n=n, ops=[o for o in spec["ops"] if o["cls"] != "ThermalLossChannel"])
        if rng.random() < 0.5:   # sprinkle non-Gaussian gates for the Fock runs
            for _ in range(rng.randint(1, 2)):
                m = rng.randrange(n)
                fock_spec["ops"].insert(rng.randint(0, len(fock_spec["ops"])),
                                        dict(cls=rng.choice(["Kgate", "Vgate"]), regs=[m], pars=[round(rng.uniform(-0.3, 0.3), 3)]))
        nt = n >= 2
        for backend in ("gaussian", "bosonic"):
            ctx.count(f"physical:{backend}:n={n}", dict(s=spec, b=backend), nt, sample=dict(spec=spec, backend=backend))
            check_physical(ctx, sf, spec, backend, dict(kind="physical", spec=spec, backend=backend))
        if n <= 3:
            for backend in ("fock-pure", "fock-mixed"):
                if ctx.tier == "quick" and n == 3 and it % 2:
                    continue
                ctx.count(f"physical:{backend}:n={n}", dict(s=fock_spec, b=backend), nt)
                check_physical(ctx, sf, fock_spec, backend, dict(kind="physical", spec=fock_spec, backend=backend))
    # mode deletion / creation (Fock: the pure -> mixed conversion of `dealloc` needs >= 4 modes to show every axis order)
    for it in range(ctx.n(14, 150)):
        n = rng.choice([3, 4, 4])
        spec = dict(n=n, ops=sim.correlated_prefix(rng, n)[: 2 * n + 2])
        spec["ops"] = [o for o in spec["ops"] if o["cls"] != "LossChannel"] if it % 2 else spec["ops"]
        spec = progs.with_del_new(rng, spec, p_del=1.0, p_new=0.4)
        spec["ops"] = [o for o in spec["ops"] if o["cls"] != "MeasureFock"]
        for backend in ("gaussian", "bosonic", "fock-pure"):
            ctx.count(f"physical-del:{backend}:n={n}", dict(s=spec, b=backend), True, sample=dict(spec=spec, backend=backend))
            rp = dict(kind="physical", spec=spec, backend=backend, cutoff=5)
            check_physical(ctx, sf, spec, backend, rp, cutoff=5)
    # conditional states of post-selected measurements must be physical too
    for it in range(ctx.n(24, 240)):
        n = rng.choice([2, 3])
        ops_ = sim.correlated_prefix(rng, n)
        m = rng.randrange(n)
        kind = ("homodyne", "heterodyne", "fock")[it % 3]
        if kind == "homodyne":
            meas = dict(cls="MeasureHomodyne", regs=[m], pars=[sim.angle(rng)], select=round(rng.uniform(-0.6, 0.6), 3))
            backends = ("gaussian", "bosonic", "fock-pure")
        elif kind == "heterodyne":
            meas = dict(cls="MeasureHeterodyne", regs=[m], pars=[], select=complex(round(rng.uniform(-0.4, 0.4), 3),
                                                                                   round(rng.uniform(-0.4, 0.4), 3)))
            backends = ("gaussian", "bosonic")
        else:
            meas = dict(cls="MeasureFock", regs=[m], pars=[], select=[rng.choice([0, 0, 1])])
            backends = ("fock-pure", "fock-mixed")
        spec = dict(n=n, ops=ops_ + [meas] + [sim.rand_gaussian_op(rng, n, allow_prep=False, thermal_loss=False)
                                             for _ in range(rng.randint(0, 2))])
        for backend in backends:
            ctx.count(f"physical-conditional:{kind}:{backend}", dict(s=spec, b=backend), True)
            try:
                check_physical(ctx, sf, spec, backend, dict(kind="physical", spec=spec, backend=backend))
            except ZeroDivisionError:
                ctx.tally("skipped:zero-probability")
    for it in range(ctx.n(10, 100)):      # measurement-based squeezing on Gaussian inputs (single Gaussian: uncertainty relation judged)
        n = rng.choice([1, 2, 3])
        ops_ = sim.correlated_prefix(rng, n)[: 2 * n + 1]
        for _ in range(rng.randint(1, 2)):
            ops_.append(dict(cls="MSgate", regs=[rng.randrange(n)],
                             pars=[round(rng.uniform(0.2, 0.9), 3) * rng.choice([1, -1]), sim.angle(rng), rng.choice([0.5, 2.0, 10.0]),
                                   rng.choice([1.0, 0.95, 0.7, 0.4])], kw=dict(avg=(it % 4 != 3))))
        spec = dict(n=n, ops=ops_)
        ctx.count("physical:bosonic-msgate", spec, True, sample=spec)
        check_physical(ctx, sf, spec, "bosonic", dict(kind="physical", spec=spec, backend="bosonic"))
    for it in range(ctx.n(10, 100)):
        spec = bosonic_nongauss_spec(rng, rng.choice([1, 2]))
        ctx.count("physical:bosonic-nongaussian", spec, True)
        check_physical(ctx, sf, spec, "bosonic", dict(kind="physical", spec=spec, backend="bosonic"))
    for it in range(ctx.n(36, 400)):
        n = rng.choice([2, 3])
        prefix = sim.correlated_prefix(rng, n)
        kind = ("passive", "unitary", "loss")[it % 3]
        if kind == "passive":
            op = sim.rand_gaussian_op(rng, n, classes=PASSIVE, allow_channel=False, allow_prep=False)
        elif kind == "unitary":
            op = sim.rand_gaussian_op(rng, n, classes=UNITARY, allow_channel=False, allow_prep=False)
            prefix = [o for o in prefix if o["cls"] != "LossChannel"]
        else:
            op = dict(cls="LossChannel", regs=[rng.randrange(n)], pars=[rng.choice([0.0, 0.2, 0.5, 0.9, 1.0])])
        for backend in ("gaussian", "bosonic", "fock-pure", "fock-mixed"):
            if kind == "unitary" and backend == "bosonic":
                continue
            if backend.startswith("fock") and ctx.tier == "quick" and n == 3 and it % 2:
                continue
            ctx.count(f"law:{kind}:{backend}", dict(p=prefix, o=op, b=backend), True)
            check_conservation(ctx, sf, prefix, op, n, backend, kind)


def search(ctx, sf):
    run(ctx, sf)


def replay(ctx, rp):
    import strawberryfields as sf
    n0 = len(ctx.failures)
    sf.hbar = 2
    if rp["kind"] == "top":
        s0 = run_backend(sf, dict(n=rp["n"], ops=[rp["prep"]]), rp["backend"], rp["D"])
        s1 = run_backend(sf, dict(n=rp["n"], ops=[rp["prep"], rp["op"]]), rp["backend"], rp["D"])
        t0, t1 = photon_total(sf, s0, rp["backend"])[1], photon_total(sf, s1, rp["backend"])[1]
        if abs(t0 - t1) > 1e-9:
            ctx.fail(f"trace-law:{rp['backend']}:{rp['op']['cls']}", f"trace {t0} -> {t1}", rp)
    elif rp["kind"] == "physical":
        check_physical(ctx, sf, rp["spec"], rp["backend"], rp, rp.get("cutoff", 8))
    else:
        check_conservation(ctx, sf, rp["prefix"], rp["op"], rp["n"], rp["backend"], rp["law"])
    return len(ctx.failures) > n0
