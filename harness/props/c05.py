"""C05 — operations act only on their target modes.  Correspondence of K3/K4 (shared with C01) plus the
property-level oracle: a correlated multi-mode state is prepared, one operation is applied at every target
position, and the reduced state of the spectators (own partial trace / own moment extraction) is compared
before and after on gaussian, bosonic, fock-pure and fock-mixed; preparations and measurements must leave the
target in the documented post-state, uncorrelated with the rest."""
import math

import numpy as np

from lib import sim, simcorr, progs

RULE = ("prefix: squeezers + displacements + beamsplitter chain (+ loss) on 2-4 modes (entangled, displaced, mixed); then one "
        "operation from {all Gaussian gates incl. daggers, Kgate, Vgate, CKgate (fock), LossChannel, ThermalLossChannel, "
        "Vacuum/Coherent/Squeezed/DisplacedSqueezed/Thermal/Fock preparations, MeasureFock/MeasureHomodyne/"
        "MeasureHeterodyne with select} at every target position.  Non-trivial = >=1 spectator with non-zero covariance "
        "with a target before the operation; distinct by (prefix, op, backend).")
ASSUMPTIONS = ["Fock: spectator reduced states may change by the truncation error only (escalation rule)",
               "mode deletion is checked under C08 (state extraction after Del)"]
TRUSTED = ["modelled: the same K3/K4 functions as C01; bosonic back end and non-Gaussian Fock gates are oracle-only"]

GATES1 = ["Rgate", "Sgate", "Dgate", "Xgate", "Zgate", "Pgate", "Fouriergate"]
GATES2 = ["BSgate", "S2gate", "CXgate", "CZgate", "MZgate"]
FOCK_ONLY1 = ["Kgate", "Vgate"]
PREPS = ["Vacuum", "Coherent", "Squeezed", "DisplacedSqueezed", "Thermal"]


def gen_op(rng, n, kind):
    a = sim.angle
    s = sim.small
    if kind == "g1":
        cls = rng.choice(GATES1)
        op = sim.rand_gaussian_op(rng, n, classes=[cls], allow_two=False, allow_channel=False, allow_prep=False)
    elif kind == "g2":
        cls = rng.choice(GATES2)
        op = sim.rand_gaussian_op(rng, n, classes=[cls], allow_channel=False, allow_prep=False)
    elif kind == "nong":
        cls = rng.choice(["Kgate", "Vgate", "CKgate"] if n >= 2 else FOCK_ONLY1)
        regs = rng.sample(range(n), 2) if cls == "CKgate" else [rng.randrange(n)]
        op = dict(cls=cls, regs=regs, pars=[round(rng.uniform(-0.4, 0.4), 3) if cls != "Vgate" else round(rng.uniform(-0.1, 0.1), 3)])
    elif kind == "ch":
        cls = rng.choice(["LossChannel", "ThermalLossChannel"])
        op = sim.rand_gaussian_op(rng, n, classes=[cls], allow_two=False, allow_prep=False)
    elif kind == "prep":
        cls = rng.choice(PREPS + ["Fock"])
        if cls == "Fock":
            op = dict(cls="Fock", regs=[rng.randrange(n)], pars=[rng.choice([0, 1, 2])])
        else:
            op = sim.rand_gaussian_op(rng, n, classes=[cls], allow_two=False, allow_channel=False)
    elif kind == "ketprep":     # multi-mode Ket / DensityMatrix preparation on a mode list in any order (prepare_multimode)
        k = rng.randint(1, min(2, n))
        regs = rng.sample(range(n), k)
        D = 8
        nprng = np.random.default_rng(rng.getrandbits(32))
        amp = np.zeros((D,) * k, dtype=complex)
        sub = (3,) * k
        block = nprng.normal(size=sub) + 1j * nprng.normal(size=sub)
        if rng.random() < 0.3:
            block[(0,) * k] = 0
        amp[tuple(slice(0, 3) for _ in range(k))] = block
        amp /= np.linalg.norm(amp)
        amp = np.round(amp, 9)
        if rng.random() < 0.5:
            op = dict(cls="Ket", regs=regs, pars=[], apars=[dict(re=amp.real.tolist(), im=amp.imag.tolist())])
        else:
            rho = np.multiply.outer(amp, amp.conj())
            order = [x for m in range(k) for x in (m, m + k)]
            rho = np.transpose(rho, order)
            op = dict(cls="DensityMatrix", regs=regs, pars=[], apars=[dict(re=rho.real.tolist(), im=rho.imag.tolist())])
        op["_ket"] = dict(re=amp.real.tolist(), im=amp.imag.tolist())
    elif kind == "passive":     # natively applied multi-mode passive transformation, mode list in any order
        op = sim.rand_passive_op(rng, np.random.default_rng(rng.getrandbits(32)), n)
    elif kind == "gprep":       # natively applied multi-mode Gaussian preparation
        op = sim.rand_gaussian_prep_op(rng, np.random.default_rng(rng.getrandbits(32)), n)
    else:  # measurement with post-selection
        cls = rng.choice(["MeasureFock", "MeasureHomodyne", "MeasureHeterodyne"])
        if cls == "MeasureFock":
            k = rng.randint(1, min(2, n - 1)) if n > 1 else 1
            regs = rng.sample(range(n), k)
            op = dict(cls=cls, regs=regs, pars=[], select=[rng.choice([0, 0, 1]) for _ in regs])
        elif cls == "MeasureHomodyne":
            op = dict(cls=cls, regs=[rng.randrange(n)], pars=[a(rng)], select=round(rng.uniform(-0.5, 0.5), 3))
        else:
            op = dict(cls=cls, regs=[rng.randrange(n)], pars=[], select=complex(round(rng.uniform(-0.3, 0.3), 3),
                                                                                 round(rng.uniform(-0.3, 0.3), 3)))
    return op


def backends_for(op):
    c = op["cls"]
    if c in ("Kgate", "Vgate", "CKgate"):
        return ["fock-pure", "fock-mixed"]
    if c == "Fock":             # bosonic accepts non-Gaussian preparations only as the first operation of a mode
        return ["fock-pure", "fock-mixed"]
    if c == "ThermalLossChannel":
        return ["gaussian", "bosonic"]
    if c in ("Ket", "DensityMatrix"):
        return ["fock-pure", "fock-mixed"]
    if c == "PassiveChannel":
        return ["gaussian"]
    if c == "Gaussian":
        return ["gaussian", "bosonic"]
    if c == "MeasureFock":      # post-selected photon counting is implemented by the fock back end only
        return ["fock-pure", "fock-mixed"]
    if c == "MeasureHeterodyne":
        return ["gaussian", "bosonic"]
    if c == "MeasureHomodyne":
        return ["gaussian", "bosonic", "fock-pure", "fock-mixed"]
    return ["gaussian", "bosonic", "fock-pure", "fock-mixed"]


def run_state(sf, spec, backend, cutoff):
    if backend.startswith("fock"):
        st, _ = sim.run_spec(sf, spec, "fock", cutoff_dim=cutoff, pure=(backend == "fock-pure"))
    else:
        st, _ = sim.run_spec(sf, spec, backend)
    return st


def moments(sf, st, backend):
    if backend == "gaussian":
        return sim.moments_gaussian(st, sf.hbar) + (1.0,)
    if backend == "bosonic":
        return sim.moments_bosonic(st, sf.hbar) + (1.0,)
    return sim.moments_fock(st)


def restrict(m, modes):
    a, N, M = m[:3]
    ix = np.array(modes, dtype=int)
    return a[ix], N[np.ix_(ix, ix)], M[np.ix_(ix, ix)]


def spect_dm(st, keep):
    rho = sim.dm_of(st)
    n = st.num_modes
    r = sim.reduced_dm(rho, n, keep)
    tr = np.real(sim.reduced_dm(rho, n, []))
    return r / tr, 1 - float(tr)


def check_case(ctx, sf, prefix, op, n, backend, cutoff=8):
    """guard: an exception raised while evaluating a case on the real code is a failing input, not a harness crash"""
    try:
        _check_case(ctx, sf, prefix, op, n, backend, cutoff)
    except Exception as e:  # noqa: BLE001
        import traceback
        where = traceback.extract_tb(e.__traceback__)[-1]
        ctx.fail(f"evaluation-raises:{backend}:{op['cls']}:{type(e).__name__}",
                 f"evaluating {op['cls']} on {op['regs']} on {backend} raised {type(e).__name__}: {e} ({where.name}:{where.lineno})",
                 dict(kind="local", prefix=prefix, op=op, n=n, backend=backend))


def _check_case(ctx, sf, prefix, op, n, backend, cutoff=8):
    spec0 = dict(n=n, ops=prefix)
    spec1 = dict(n=n, ops=prefix + [op])
    T = list(op["regs"])
    S = [m for m in range(n) if m not in T]
    rp = dict(kind="local", prefix=prefix, op=op, n=n, backend=backend)
    ctx.oracle_cases += 1
    is_meas = op["cls"].startswith("Measure")
    is_prep = op["cls"] in PREPS + ["Fock"]
    is_gprep = op["cls"] == "Gaussian"
    is_ket = op["cls"] in ("Ket", "DensityMatrix")
    if is_ket and cutoff != 8:
        return
    op = {k: v for k, v in op.items() if k != "_ket"} if False else op
    try:
        st0 = run_state(sf, spec0, backend, cutoff)
        st1 = run_state(sf, spec1, backend, cutoff)
    except ZeroDivisionError:
        ctx.tally("skipped:zero-probability")
        return
    except NotImplementedError:
        ctx.tally("skipped:not-implemented:" + backend + ":" + op["cls"])
        return
    except Exception as e:  # noqa: BLE001
        ctx.fail(f"raises:{backend}:{op['cls']}:{type(e).__name__}", f"{backend} raised {type(e).__name__}: {e}", rp)
        return
    m0, m1 = moments(sf, st0, backend), moments(sf, st1, backend)
    corr = max([abs(m0[1][i, j]) + abs(m0[2][i, j]) for i in T for j in S] + [0.0])
    ctx.count(f"{backend}:{op['cls']}", dict(p=prefix, o=op, b=backend), corr > 1e-3,
              sample=dict(prefix=prefix, op=op, backend=backend))
    fock = backend.startswith("fock")
    budget = (lambda loss: 5 * cutoff * loss + 1e-6) if fock else (lambda loss: 1e-9)
    loss = max(1 - m0[3], 1 - m1[3], 0.0)

    def escalate(measure):
        """re-measure a Fock discrepancy at a higher cutoff; True if it persists"""
        if not fock:
            return True
        s0 = run_state(sf, spec0, backend, cutoff + 6)
        s1 = run_state(sf, spec1, backend, cutoff + 6)
        d2, loss2 = measure(s0, s1)
        return d2 > max(1e-5, measure.last / 2) and d2 > 5 * (cutoff + 6) * loss2 + 1e-6

    # 1. spectators
    if S and is_ket:      # no truncation effect: the same truncated prefix state on both sides
        r0, _ = spect_dm(st0, S)
        r1, _ = spect_dm(st1, S)
        d = float(np.max(np.abs(r0 - r1)))
        if d > 1e-8:
            ctx.fail(f"spectator-changed:{backend}:{op['cls']}", f"{op['cls']} on modes {T} changed the reduced state of the "
                     f"spectators {S} by {d:.3g} on {backend}", rp)
    elif S and not is_meas:
        def spect(s0, s1):
            a0, a1 = moments(sf, s0, backend), moments(sf, s1, backend)
            d = sim.moment_dist(restrict(a0, S), restrict(a1, S))
            if fock and len(S) <= 2:
                r0, l0 = spect_dm(s0, S)
                r1, l1 = spect_dm(s1, S)
                d = max(d, float(np.max(np.abs(r0 - r1))))
            return d, max(1 - a0[3], 1 - a1[3], 0.0)
        d, _ = spect(st0, st1)
        spect.last = d
        if d > budget(loss) and escalate(spect):
            ctx.fail(f"spectator-changed:{backend}:{op['cls']}",
                     f"{op['cls']}{'.H' if op.get('dagger') else ''} on modes {T} changed the reduced state of the "
                     f"spectators {S} by {d:.3g} on {backend}", rp)
    # 2. post-state of preparations / measurements: target uncorrelated with the rest, in the documented state
    if is_ket:
        # documented post-state: the given state on the listed modes IN THE LISTED ORDER, in product with the rest
        want = np.array(op["_ket"]["re"]) + 1j * np.array(op["_ket"]["im"])
        k = len(T)
        rho_t, _ = spect_dm(st1, T)                       # own partial trace, modes in the order of T
        want_dm = np.transpose(np.multiply.outer(want, want.conj()), [x for m in range(k) for x in (m, m + k)])
        d = float(np.max(np.abs(rho_t - want_dm)))
        if d > 1e-8:
            ctx.fail(f"post-state:{backend}:{op['cls']}", f"{op['cls']} on modes {T} (in that order) left a different state on "
                     f"those modes (distance {d:.3g}) on {backend}", rp)
        if S:
            full, _ = spect_dm(st1, S + T)
            rs, _ = spect_dm(st1, S)
            prod = np.multiply.outer(rs, rho_t)
            d2 = float(np.max(np.abs(full - prod)))
            if d2 > 1e-8:
                ctx.fail(f"target-correlated:{backend}:{op['cls']}", f"after {op['cls']} on {T} the state is not a product of the "
                         f"rest and the prepared state ({d2:.3g}) on {backend}", rp)
        return
    if is_prep or is_meas or is_gprep:
        def cross(s0, s1):
            a1 = moments(sf, s1, backend)
            c = max([abs(a1[1][i, j]) + abs(a1[2][i, j]) for i in T for j in S] + [0.0])
            return c, max(1 - a1[3], 0.0)
        c, _ = cross(st0, st1)
        cross.last = c
        if c > budget(loss) and escalate(cross):
            ctx.fail(f"target-correlated:{backend}:{op['cls']}",
                     f"after {op['cls']} on {T} the target is still correlated with the rest ({c:.3g}) on {backend}", rp)
        if is_gprep:      # documented multi-mode post state: exactly (V, r) on the listed modes in the listed order
            ref = sim.RefState(len(T))
            sim.ref_apply(ref, dict(op, regs=list(range(len(T)))), sf.hbar)
            d = sim.moment_dist(restrict(m1, T), ref.alpha_N_M())
            if d > 1e-8:
                ctx.fail(f"post-state:{backend}:Gaussian", f"Gaussian(V, r) on modes {T} did not prepare (V, r) on those modes in "
                         f"that order on {backend} (distance {d:.3g})", rp)
            return
        # documented single-mode post state
        ref = sim.RefState(1)
        if is_prep and op["cls"] != "Fock":
            sim.ref_apply(ref, dict(op, regs=[0]), sf.hbar)
        want = ref.alpha_N_M()
        if op["cls"] == "Fock":
            k = op["pars"][0]
            want = (np.zeros(1, complex), np.array([[k]], complex), np.zeros((1, 1), complex))
        for t in T:
            def post(s0, s1, t=t):
                a1 = moments(sf, s1, backend)
                return sim.moment_dist(restrict(a1, [t]), want), max(1 - a1[3], 0.0)
            d, _ = post(st0, st1)
            post.last = d
            if d > budget(loss) and escalate(post):
                ctx.fail(f"post-state:{backend}:{op['cls']}",
                         f"mode {t} is not in the documented post-state after {op['cls']} on {backend} (distance {d:.3g})", rp)


def _components_moments(w, mus, covs, hbar):
    """(alpha, N, M) of the (unnormalised) weighted sum of Gaussians with xpxp-ordered means / covariances"""
    w = np.asarray(w, dtype=complex)
    tot = np.sum(w)
    n = mus.shape[1] // 2
    perm = list(range(0, 2 * n, 2)) + list(range(1, 2 * n, 2))
    mu = np.einsum("k,ki->i", w, mus) / tot
    second = np.einsum("k,kij->ij", w, covs + np.einsum("ki,kj->kij", mus, mus)) / tot
    V = (second - np.outer(mu, mu))[np.ix_(perm, perm)] / (hbar / 2)
    mu = mu[perm] / math.sqrt(hbar / 2)
    alpha = (mu[:n] + 1j * mu[n:]) / 2
    A, B, C = V[:n, :n], V[:n, n:], V[n:, n:]
    return alpha, 0.25 * (A + C + 1j * (B - B.T) - 2 * np.eye(n)), 0.25 * (A - C + 1j * (B + B.T))


def _check_conditional(ctx, sf, prefix, op, n, backend, cutoff=6):
    """the rest changes only by the conditional update the measurement outcome implies: the reduced state of the other modes
    after a measurement with outcome m is Tr_T[(P_m x 1) rho] / p(m), computed here from the state before the measurement"""
    T = list(op["regs"])
    S = [m for m in range(n) if m not in T]
    rp = dict(kind="cond", prefix=prefix, op=op, n=n, backend=backend)
    ctx.oracle_cases += 1
    spec0, spec1 = dict(n=n, ops=prefix), dict(n=n, ops=prefix + [op])
    fock = backend.startswith("fock")
    opts = dict(cutoff_dim=cutoff, pure=(backend == "fock-pure")) if fock else {}
    bk = "fock" if fock else backend
    try:
        st0, _ = sim.run_spec(sf, spec0, bk, **opts)
        prog, _ = progs.build(spec1)
        eng = sf.Engine(bk, backend_options=opts)
        res = eng.run(prog)
        st1 = res.state
        out = {int(k): v for k, v in res.samples_dict.items()}
    except Exception as e:  # noqa: BLE001
        if isinstance(e, ZeroDivisionError) and op.get("select") is not None:
            ctx.tally("skipped:zero-probability")       # only a post-selected outcome may be impossible
            return
        ctx.fail(f"raises:{backend}:{op['cls']}:{type(e).__name__}", f"{backend} raised {type(e).__name__}: {e}", rp)
        return
    vals = {t: int(np.ravel(out[t])[0]) for t in T}
    ctx.count(f"cond:{backend}:{op['cls']}", dict(p=prefix, o=op, b=backend), bool(S) and len(T) >= 1,
              sample=dict(prefix=prefix, op=op, backend=backend, outcome=vals))
    ctx.tally(f"cond:targets={len(T)}:{'sorted' if T == sorted(T) else 'involution' if all(np.argsort(np.argsort(T)) == np.argsort(T)) else 'cyclic'}")
    if op.get("select") is not None:
        want = dict(zip(T, op["select"]))
        if vals != want:
            ctx.fail(f"cond-outcome:{backend}:{op['cls']}", f"{op['cls']} | {T} select={op['select']} reported {vals}", rp)
            return
    if fock:
        rho0 = sim.dm_of(st0)
        if any(v >= cutoff for v in vals.values()):
            return
        idx = [slice(None)] * (2 * n)
        for t, v in vals.items():
            idx[2 * t] = idx[2 * t + 1] = v
        proj = rho0[tuple(idx)]                     # modes S ascending, interleaved
        pr = np.real(sim.reduced_dm(proj, len(S), [])) if S else np.real(proj)
        tr0 = np.real(sim.reduced_dm(rho0, n, []))
        if pr / tr0 < 1e-9:
            ctx.fail(f"cond-impossible-outcome:{backend}", f"{op['cls']} | {T} reported {vals}, whose probability in the state "
                     f"before the measurement is {pr / tr0:.3g}", rp)
            return
        if S:
            got, _ = spect_dm(st1, S)
            d = float(np.max(np.abs(got - proj / pr)))
            if d > 1e-7:
                ctx.fail(f"cond-update:{backend}:{op['cls']}", f"after {op['cls']} | {T} with outcome {vals} the other modes {S} "
                         f"are not in the state conditioned on that outcome (distance {d:.3g}) on {backend}", rp)
        # the measured modes themselves: vacuum
        for t in T:
            r, _ = spect_dm(st1, [t])
            if abs(r[0, 0] - 1) > 1e-7:
                ctx.fail(f"post-state:{backend}:{op['cls']}", f"mode {t} is not in vacuum after {op['cls']} | {T} on {backend}", rp)
        return
    # bosonic MeasureThreshold on one mode: conditional update of a weighted sum of Gaussians, per component
    t = T[0]
    h = sf.hbar
    w, mus, covs = np.asarray(st0.weights()), np.asarray(st0.means()), np.asarray(st0.covs())
    b = [2 * t, 2 * t + 1]
    a = [i for m_ in S for i in (2 * m_, 2 * m_ + 1)]
    W = np.linalg.inv(covs[:, b][:, :, b] + (h / 2) * np.eye(2))
    rB = mus[:, b]
    p0 = h * np.exp(-0.5 * np.einsum("ki,kij,kj->k", rB, W, rB)) * np.sqrt(np.linalg.det(W))
    sAB = covs[:, a][:, :, b]
    covs0 = covs[:, a][:, :, a] - sAB @ W @ np.transpose(sAB, (0, 2, 1))
    mus0 = mus[:, a] - np.einsum("kij,kj->ki", sAB @ W, rB)
    pv = float(np.real(np.sum(w * p0)))
    if vals[t] == 0:
        want = _components_moments(w * p0, mus0, covs0, h)
        pm = pv
    else:
        want = _components_moments(np.concatenate([w, -w * p0]), np.concatenate([mus[:, a], mus0]),
                                   np.concatenate([covs[:, a][:, :, a], covs0]), h)
        pm = 1 - pv
    if pm < 1e-9:
        ctx.fail(f"cond-impossible-outcome:{backend}", f"MeasureThreshold | {T} reported {vals}, probability {pm:.3g}", rp)
        return
    m1 = moments(sf, st1, backend)
    if S:
        d = sim.moment_dist(restrict(m1, S), want)
        if d > 1e-7 * max(1.0, float(np.sum(np.abs(w))) / max(pm, 1e-3)):
            ctx.fail(f"cond-update:{backend}:{op['cls']}", f"after MeasureThreshold | {T} with outcome {vals} the other modes {S} "
                     f"are not in the state conditioned on that outcome (moment distance {d:.3g}) on {backend}", rp)
    d = sim.moment_dist(restrict(m1, [t]), (np.zeros(1, complex), np.zeros((1, 1), complex), np.zeros((1, 1), complex)))
    if d > 1e-7:
        ctx.fail(f"post-state:{backend}:{op['cls']}", f"mode {t} is not in vacuum after MeasureThreshold on {backend} ({d:.3g})", rp)


def check_conditional(ctx, sf, prefix, op, n, backend):
    try:
        _check_conditional(ctx, sf, prefix, op, n, backend)
    except Exception as e:  # noqa: BLE001
        import traceback
        where = traceback.extract_tb(e.__traceback__)[-1]
        ctx.fail(f"evaluation-raises:{backend}:{op['cls']}:{type(e).__name__}",
                 f"evaluating {op['cls']} on {op['regs']} on {backend} raised {type(e).__name__}: {e} ({where.name}:{where.lineno})",
                 dict(kind="cond", prefix=prefix, op=op, n=n, backend=backend))


def run_conditional(ctx, sf):
    rng = ctx.rng
    for it in range(ctx.n(36, 400)):
        if it % 3 == 2:          # bosonic threshold detection, one mode, Gaussian or cat-state input
            n = rng.choice([2, 3, 3, 4])
            prefix = sim.correlated_prefix(rng, n)
            if rng.random() < 0.4:
                m = rng.randrange(n)
                prefix = [dict(cls="Catstate", regs=[m], pars=[round(rng.uniform(0.4, 0.9), 2), sim.angle(rng), rng.choice([0, 1])])] + prefix
            op = dict(cls="MeasureThreshold", regs=[rng.randrange(n)], pars=[])
            check_conditional(ctx, sf, prefix, op, n, "bosonic")
        else:                    # photon counting on 1..3 modes listed in any order (sorted, involutions, 3-cycles)
            n = rng.choice([3, 3, 4]) if it % 3 == 0 else rng.choice([2, 3])
            k = rng.randint(1, min(3, n))
            regs = rng.sample(range(n), k)
            if it % 6 == 0 and n >= 3:
                regs = rng.choice([[1, 2, 0], [2, 0, 1]]) if n == 3 else rng.choice([[1, 2, 0], [3, 1, 2], [2, 3, 0], [2, 0, 1]])
            prefix = sim.correlated_prefix(rng, n)
            if it % 2:           # number states through beamsplitters: most photon patterns are impossible, none is truncated
                ks = [rng.choice([0, 1, 2]) for _ in range(n)]
                while sum(ks) > 4 or sum(ks) == 0 or len(set(ks)) == 1:
                    ks = [rng.choice([0, 1, 2]) for _ in range(n)]
                prefix = [dict(cls="Fock", regs=[m], pars=[ks[m]]) for m in range(n)]
                sp = [m for m in range(n) if m not in regs]
                for m in sp:     # entangle every spectator with a measured mode
                    prefix.append(dict(cls="BSgate", regs=[m, rng.choice(regs)], pars=[round(rng.uniform(0.3, 1.2), 3), sim.angle(rng)]))
                if not sp and n >= 2 and rng.random() < 0.5:
                    a_, b_ = rng.sample(range(n), 2)
                    prefix.append(dict(cls="BSgate", regs=[a_, b_], pars=[round(rng.uniform(0.3, 1.2), 3), sim.angle(rng)]))
            op = dict(cls="MeasureFock", regs=regs, pars=[])
            if rng.random() < 0.3:
                op["select"] = [rng.choice([0, 0, 1]) for _ in regs]
            for backend in (("fock-pure", "fock-mixed") if n <= 3 else ("fock-mixed",) if it % 2 else ("fock-pure",)):
                check_conditional(ctx, sf, prefix, op, n, backend)


def _check_deletion(ctx, sf, prefix, dels, n, backend, cutoff=5):
    """mode deletion: the remaining modes are left in exactly their reduced state (whatever the deleted modes were — vacuum,
    measured, entangled — and in whatever order they are listed)"""
    S = [m for m in range(n) if m not in dels]
    rp = dict(kind="del", prefix=prefix, dels=dels, n=n, backend=backend)
    ctx.oracle_cases += 1
    ctx.count(f"del:{backend}:{len(dels)}:{'asc' if dels == sorted(dels) else 'desc'}", dict(p=prefix, d=dels, b=backend), True,
              sample=dict(prefix=prefix, dels=dels, backend=backend))
    spec0 = dict(n=n, ops=prefix)
    spec1 = dict(n=n, ops=prefix + [dict(cls="Del", regs=list(dels), pars=[])])
    try:
        st0, st1 = run_state(sf, spec0, backend, cutoff), run_state(sf, spec1, backend, cutoff)
    except Exception as e:  # noqa: BLE001
        ctx.fail(f"raises:{backend}:Del:{type(e).__name__}", f"{backend} raised {type(e).__name__}: {e}", rp)
        return
    if st1.num_modes != len(S):
        ctx.fail(f"del-modes:{backend}", f"after Del | {dels} of {n} the state has {st1.num_modes} modes", rp)
        return
    if backend.startswith("fock"):
        r0, _ = spect_dm(st0, S)
        r1, _ = spect_dm(st1, list(range(len(S))))
        d = float(np.max(np.abs(r0 - r1)))
        tol = 1e-8
    else:
        d = sim.moment_dist(restrict(moments(sf, st0, backend), S), moments(sf, st1, backend)[:3])
        tol = 1e-9
    if d > tol:
        ctx.fail(f"spectator-changed:{backend}:Del", f"Del | {dels} on a {n}-mode register changed the reduced state of the remaining "
                 f"modes {S} by {d:.3g} on {backend}", rp)


def run_deletion(ctx, sf):
    rng = ctx.rng
    for it in range(ctx.n(24, 240)):
        n = rng.choice([3, 4, 4])
        busy = rng.sample(range(n), rng.randint(2, n))          # the other modes stay in the vacuum
        if it % 4 == 0:          # two exactly-vacuum modes next to an entangled pair, deleted in one command
            n = 4
            busy = rng.sample(range(n), 2)
        prefix = []
        for m in busy:
            prefix.append(dict(cls="Sgate", regs=[m], pars=[round(rng.uniform(0.1, 0.3), 3) * rng.choice([1, -1]), sim.angle(rng)]))
            prefix.append(dict(cls="Dgate", regs=[m], pars=[round(rng.uniform(0.1, 0.4), 3), sim.angle(rng)]))
        for _ in range(rng.randint(1, 2)):
            a_, b_ = rng.sample(busy, 2)
            prefix.append(dict(cls="BSgate", regs=[a_, b_], pars=[round(rng.uniform(0.3, 1.2), 3), sim.angle(rng)]))
        if it % 3 == 0:          # a register that is no longer a ket
            prefix.append(dict(cls="LossChannel", regs=[rng.choice(busy)], pars=[0.6]))
        idle = [m for m in range(n) if m not in busy]
        k = rng.randint(1, 2)
        pool = idle if (len(idle) >= k and it % 2 == 0) else list(range(n))
        dels = rng.sample(pool, k)
        dels = sorted(dels) if it % 4 < 2 else sorted(dels, reverse=True)
        if it % 4 == 0:
            dels = sorted(idle) if it % 8 == 0 else sorted(idle, reverse=True)
        if it % 8 == 2 and len(busy) >= 3:      # modes that were just measured (reset to vacuum) and are then deleted together
            ms = sorted(rng.sample(busy, 2))
            prefix.append(dict(cls="MeasureFock", regs=ms, pars=[], select=[0, 0]))
            dels = ms
        measured = any(o["cls"] == "MeasureFock" for o in prefix)
        for backend in ("gaussian", "bosonic", "fock-pure", "fock-mixed"):
            if backend == "fock-mixed" and n == 4:
                continue
            if measured and not backend.startswith("fock"):     # post-selected photon counting: Fock back end only
                continue
            try:
                _check_deletion(ctx, sf, prefix, dels, n, backend)
            except Exception as e:  # noqa: BLE001
                ctx.fail(f"evaluation-raises:{backend}:Del:{type(e).__name__}", f"evaluating Del | {dels} on {backend} raised "
                         f"{type(e).__name__}: {e}", dict(kind="del", prefix=prefix, dels=dels, n=n, backend=backend))


def run(ctx, sf):
    sf.hbar = 2
    run_conditional(ctx, sf)
    run_deletion(ctx, sf)
    simcorr.run_loss_corr(ctx)
    simcorr.run_fock_corr(ctx, ctx.n(220, 2200))
    simcorr.run_bos_corr(ctx, ctx.n(100, 1000))
    simcorr.run_gauss_corr(ctx, ctx.n(100, 1000))
    rng = ctx.rng
    kinds = ["g1", "g2", "nong", "ch", "prep", "meas", "passive", "gprep", "ketprep"]
    for it in range(ctx.n(48, 600)):
        n = rng.choice([2, 3, 3, 4])
        prefix = sim.correlated_prefix(rng, n)
        kind = kinds[it % len(kinds)]
        if kind == "g2" and n < 2:
            kind = "g1"
        op = gen_op(rng, n, kind)
        for backend in backends_for(op):
            if backend.startswith("fock") and n > 3:
                continue
            if ctx.tier == "quick" and backend == "fock-mixed" and n == 3 and it % 2:
                continue
            check_case(ctx, sf, prefix, op, n, backend)
    # every target position of a fixed 3-mode correlated state, every backend (positions quantifier)
    prefix = sim.correlated_prefix(ctx.rng, 3)
    for t in range(3):
        for op in (dict(cls="ThermalLossChannel", regs=[t], pars=[0.5, 0.5]), dict(cls="LossChannel", regs=[t], pars=[0.3]),
                   dict(cls="Thermal", regs=[t], pars=[0.3]), dict(cls="Sgate", regs=[t], pars=[0.2, 0.7])):
            for backend in backends_for(op):
                check_case(ctx, sf, prefix, op, 3, backend)
    for t1 in range(3):
        for t2 in range(3):
            if t1 != t2:
                for op in (dict(cls="BSgate", regs=[t1, t2], pars=[0.5, 0.3]), dict(cls="S2gate", regs=[t1, t2], pars=[0.15, 0.3])):
                    for backend in backends_for(op):
                        check_case(ctx, sf, prefix, op, 3, backend)


def search(ctx, sf):
    run(ctx, sf)


def replay(ctx, rp):
    import strawberryfields as sf
    n0 = len(ctx.failures)
    sf.hbar = 2
    if rp.get("kind") == "del":
        _check_deletion(ctx, sf, rp["prefix"], rp["dels"], rp["n"], rp["backend"])
        return len(ctx.failures) > n0
    if rp.get("kind") == "cond":
        check_conditional(ctx, sf, rp["prefix"], rp["op"], rp["n"], rp["backend"])
        return len(ctx.failures) > n0
    check_case(ctx, sf, rp["prefix"], rp["op"], rp["n"], rp["backend"])
    return len(ctx.failures) > n0
