"""C18 — program comparison is sound.  Correspondence of SFV.Model.Compare with Program.__eq__ and
program_equivalence on generated pairs, plus the property-level oracle: whenever the real comparison
says equal/equivalent, both programs are run and their states compared."""
import copy
import itertools
from fractions import Fraction

import numpy as np

from lib import progs

RULE = ("pairs (base, variant) of random circuits over 1-5 modes, 1-6 commands; variants: identical rebuild, "
        "prefix, extra command, dagger flip, mode swap / move, parameter change, truncated register list, "
        "changed select, random dependency-respecting reorder, different register size.  Non-trivial = base "
        "has >=2 commands and the variant differs from the base in exactly one aspect; distinct by (base, variant).")
ASSUMPTIONS = ["'compute the same thing' in the theorems is equality of the ordered product in any monoid "
               "interpretation that depends only on the compared fields and commutes on disjoint wires",
               "mode symmetry of S2gate, CZgate, CXgate(0) and of a beamsplitter with cos(phi) = 0 is proved from the "
               "documented phase-space rows (symmetric_classes_are_symmetric); for CKgate (non-Gaussian) it is assumed and "
               "checked by the oracle only structurally",
               "np.allclose tolerances: a beamsplitter within 1e-8 of the symmetric point is compared as symmetric; the "
               "theorems speak about the exact point, the oracle about state distance < 1e-5"]
TRUSTED = ["modelled: Program.__eq__, program_utils.program_equivalence (node attributes + DAG isomorphism); "
           "NetworkX is_isomorphic is trusted to decide attributed DAG isomorphism (model decides it by brute force "
           "and both are compared)"]

PI4 = float(np.pi / 4)
PI2 = float(np.pi / 2)


def rat(v):
    f = Fraction(float(v))
    return [f.numerator, f.denominator]


def cmds_for_model(spec, base_id=0):
    out = []
    for i, op in enumerate(spec["ops"]):
        cls = op["cls"]
        pars = []
        for p in op.get("pars", []):
            if isinstance(p, dict):
                pars.append(dict(m=p["m"], k=rat(p.get("k", 1))))
            else:
                pars.append(dict(n=rat(p)))
        num = [p for p in op.get("pars", []) if not isinstance(p, dict)]
        if cls == "CXgate" and num and abs(num[0]) < 1e-8:
            cls = "CXgate0"
        if cls == "BSgate" and len(num) == 2 and np.allclose([num[0] % np.pi, num[1] % np.pi], [np.pi / 4, np.pi / 2]):
            cls = "BSgateSym"
        c = dict(id=base_id + i, cls=cls, regs=list(op["regs"]), deps=progs.op_deps(op), pars=pars,
                 dagger=bool(op.get("dagger", False)))
        if op.get("select") is not None:
            sel = op["select"] if isinstance(op["select"], (list, tuple)) else [op["select"]]
            c["sel"] = [rat(x) for x in sel]
        out.append(c)
    return out


def gen_base(rng, gaussian_only):
    n = rng.randint(1, 5)
    L = rng.randint(1, 6)
    if gaussian_only:
        spec = progs.rand_circuit(rng, n, L, p_meas=0.0, allow=("gate1", "gate2", "channel", "prep"),
                                  classes=dict(gate1=progs.GAUSSIAN_GATES1, gate2=progs.GAUSSIAN_GATES2,
                                               prep=["Vacuum", "Coherent", "Squeezed", "Thermal", "DisplacedSqueezed"]))
        for op in spec["ops"]:
            if op["cls"] == "ThermalLossChannel":  # avoid the (independent) thermal-loss defect of the gaussian backend
                op["cls"], op["pars"] = "LossChannel", op["pars"][:1]
    else:
        spec = progs.rand_circuit(rng, n, L, p_meas=0.25)
    # sprinkle the special symmetric cases
    for op in spec["ops"]:
        if op["cls"] == "BSgate" and rng.random() < 0.4:
            op["pars"] = [PI4 + rng.choice([0, float(np.pi)]), PI2]
        elif op["cls"] == "BSgate" and rng.random() < 0.4:
            # the whole lattice of special angles around the symmetric point: balanced or not, real or imaginary reflection
            op["pars"] = [rng.randint(0, 7) * PI4, rng.randint(0, 3) * PI2]
        if op["cls"] == "CXgate" and rng.random() < 0.3:
            op["pars"] = [0.0]
        if op["cls"] in ("MeasureFock",) and rng.random() < 0.3:
            op["select"] = [rng.randint(0, 2) for _ in op["regs"]]
        if op["cls"] == "MeasureHomodyne" and rng.random() < 0.3:
            op["select"] = rng.choice([0.0, 0.5, -0.25])
    return spec


def random_linext(rng, spec):
    """a random dependency-respecting reordering"""
    w = [set(progs.op_wires(o)) for o in spec["ops"]]
    remaining = list(range(len(w)))
    out = []
    while remaining:
        ready = [i for i in remaining if not any(w[j] & w[i] for j in remaining if j < i)]
        c = rng.choice(ready)
        out.append(c)
        remaining.remove(c)
    return out


def variants(rng, spec):
    """yield (kind, variant_spec)"""
    n, ops = spec["n"], spec["ops"]
    yield "identical", copy.deepcopy(spec)
    if len(ops) >= 1:
        yield "prefix", dict(n=n, ops=copy.deepcopy(ops[:-1]))
        yield "prefix_k", dict(n=n, ops=copy.deepcopy(ops[:rng.randint(0, len(ops) - 1)]))
        extra = progs.rand_circuit(rng, n, 1, p_meas=0.0, allow=("gate1",),
                                   classes=dict(gate1=progs.GAUSSIAN_GATES1))["ops"]
        yield "extra", dict(n=n, ops=copy.deepcopy(ops) + extra)
    gates = [i for i, o in enumerate(ops) if progs.category(o["cls"]) == "gate"]
    if gates:
        v = copy.deepcopy(spec)
        i = rng.choice(gates)
        v["ops"][i]["dagger"] = not v["ops"][i].get("dagger", False)
        yield "dagger", v
    foldable = [i for i in gates if ops[i].get("pars") and not isinstance(ops[i]["pars"][0], dict)]
    if foldable:     # G(z).H <-> G(-z): the same physics only for gates whose inverse is the negated first parameter
        v = copy.deepcopy(spec)
        i = rng.choice(foldable)
        v["ops"][i]["dagger"] = not v["ops"][i].get("dagger", False)
        v["ops"][i]["pars"][0] = -v["ops"][i]["pars"][0]
        yield "dagger_fold", v
    two = [i for i, o in enumerate(ops) if len(o["regs"]) >= 2]
    if two:
        v = copy.deepcopy(spec)
        i = rng.choice(two)
        v["ops"][i]["regs"] = list(reversed(v["ops"][i]["regs"]))
        yield "swap_modes", v
        v = copy.deepcopy(spec)
        v["ops"][i]["regs"] = v["ops"][i]["regs"][:-1]
        if v["ops"][i]["cls"] in progs.MEASN and v["ops"][i].get("select") is None:
            yield "truncated_regs", v
    if n >= 2 and ops:
        v = copy.deepcopy(spec)
        i = rng.randrange(len(ops))
        o = v["ops"][i]
        free = [m for m in range(n) if m not in o["regs"] and m not in progs.op_deps(o)]
        if free:
            o["regs"][0] = rng.choice(free)
            yield "move_mode", v
        # relabel all modes by a transposition: same DAG shape, different modes
        a, b = rng.sample(range(n), 2)
        tr = {a: b, b: a}
        v = copy.deepcopy(spec)
        for o in v["ops"]:
            o["regs"] = [tr.get(r, r) for r in o["regs"]]
            o["pars"] = [dict(p, m=tr.get(p["m"], p["m"])) if isinstance(p, dict) and "m" in p else p for p in o["pars"]]
        yield "relabel", v
    withpar = [i for i, o in enumerate(ops) if o.get("pars") and not isinstance(o["pars"][-1], dict)
               and o["cls"] not in ("Fock",)]
    if withpar:
        v = copy.deepcopy(spec)
        i = rng.choice(withpar)
        v["ops"][i]["pars"][-1] = v["ops"][i]["pars"][-1] + 0.125
        if v["ops"][i]["cls"] in ("LossChannel", "ThermalLossChannel"):
            v["ops"][i]["pars"][-1] = 0.0625
        yield "param", v
    sel = [i for i, o in enumerate(ops) if progs.category(o["cls"]) == "meas"]
    if sel:
        v = copy.deepcopy(spec)
        i = rng.choice(sel)
        o = v["ops"][i]
        if o["cls"] in progs.MEASN:
            o["select"] = None if o.get("select") is not None else [1 for _ in o["regs"]]
        else:
            o["select"] = None if o.get("select") is not None else 0.25
        yield "select", v
    if len(ops) >= 2:
        order = random_linext(rng, spec)
        yield "reorder", dict(n=n, ops=[copy.deepcopy(ops[i]) for i in order])
        v = copy.deepcopy(spec)
        i = rng.randrange(len(ops) - 1)
        v["ops"][i], v["ops"][i + 1] = v["ops"][i + 1], v["ops"][i]
        yield "adjacent_swap", v
    yield "bigger_register", dict(n=n + 1, ops=copy.deepcopy(ops))


def state_of(sf, prog):
    eng = sf.Engine("gaussian")
    st = eng.run(prog).state
    return st.means(), st.cov()


def same_state(sf, p1, p2, n1, n2):
    """same state on the common modes; additional modes of the larger register must be idle (vacuum)"""
    m1, c1 = state_of(sf, p1)
    m2, c2 = state_of(sf, p2)
    if n1 != n2:
        k, big_m, big_c, nb = min(n1, n2), (m1 if n1 > n2 else m2), (c1 if n1 > n2 else c2), max(n1, n2)
        idx = list(range(k)) + [nb + i for i in range(k)]
        rest = [i for i in range(2 * nb) if i not in idx]
        vac = np.allclose(big_m[rest], 0, atol=1e-9) and np.allclose(big_c[np.ix_(rest, rest)], np.eye(len(rest)) * sf.hbar / 2, atol=1e-9) \
            and np.allclose(big_c[np.ix_(idx, rest)], 0, atol=1e-9)
        if not vac:
            return False, "extra modes are not idle"
        small_m, small_c = (m2, c2) if n1 > n2 else (m1, c1)
        m1, c1, m2, c2 = small_m, small_c, big_m[idx], big_c[np.ix_(idx, idx)]
    d = max(np.max(np.abs(m1 - m2), initial=0), np.max(np.abs(c1 - c2), initial=0))
    return d < 1e-5, f"state distance {d:.3g}"


def has_meas_par(spec):
    return any(isinstance(p, dict) for o in spec["ops"] for p in o.get("pars", []))


def one_pair(ctx, sf, base, kind, var, reqs, pending, gaussian_only):
    import strawberryfields.program_utils as pu
    # half of the pairs share Operation instances (one object applied in both programs / several times in one)
    cache = {} if (len(pending) + len(base["ops"])) % 2 == 0 else None
    p1, _ = progs.build(base, "a", op_cache=cache)
    p2, _ = progs.build(var, "b", op_cache=cache)
    ctx.tally("shared-op-instances" if cache is not None else "fresh-op-instances")
    case = dict(base=base, kind=kind, variant=var)
    nt = len(base["ops"]) >= 2 and kind != "identical"
    # ---- real results
    try:
        eq12, eq21 = bool(p1 == p2), bool(p2 == p1)
    except Exception as e:  # noqa: BLE001
        eq12 = eq21 = f"raised {type(e).__name__}"
    eqv12 = eqv21 = None
    if not has_meas_par(base) and not has_meas_par(var):
        try:
            eqv12, eqv21 = bool(p1.equivalence(p2)), bool(p2.equivalence(p1))
        except Exception as e:  # noqa: BLE001
            eqv12 = eqv21 = f"raised {type(e).__name__}"
    ctx.count(f"pair:{kind}", case, nt, sample=dict(case, eq=eq12, equiv=eqv12))
    ctx.tally(f"eq={eq12}"); ctx.tally(f"equiv={eqv12}")
    # ---- property-level oracle on the real code
    rp = dict(kind="pair", base=base, variant=var, vkind=kind, gaussian_only=gaussian_only)
    if eq12 != eq21:
        ctx.fail("eq-asymmetric", f"p==q is {eq12} but q==p is {eq21} ({kind})", rp)
    if eqv12 != eqv21:
        ctx.fail("equiv-asymmetric", f"equivalence not symmetric: {eqv12} vs {eqv21} ({kind})", rp)
    if kind == "identical" and eq12 is not True:
        ctx.fail("eq-irreflexive", f"identically built programs compare {eq12}", rp)
    if kind in ("identical", "reorder") and eqv12 is False:
        ctx.fail("equiv-reorder", f"a dependency-respecting reordering ({kind}) is reported inequivalent", rp)
    structurally_same = (kind == "identical")
    for name, val in (("equal", eq12), ("equivalent", eqv12)):
        if val is True and not structurally_same:
            # the comparison claims sameness of a variant: check what it computes
            why = None
            fields1 = [(o["cls"], o.get("pars"), o["regs"], bool(o.get("dagger")), o.get("select")) for o in base["ops"]]
            fields2 = [(o["cls"], o.get("pars"), o["regs"], bool(o.get("dagger")), o.get("select")) for o in var["ops"]]
            if name == "equivalent":  # mode-symmetric gates (ASSUMPTIONS): only the set of wires matters
                sym = lambda o: (o["cls"] in ("S2gate", "CZgate", "CKgate")
                                 or cmds_for_model(dict(ops=[o]))[0]["cls"] in ("CXgate0", "BSgateSym"))
                canon = lambda o: sorted(o["regs"]) if sym(o) else o["regs"]
                ADD = ("Dgate", "Xgate", "Zgate", "Sgate", "Pgate", "Rgate", "BSgate", "S2gate", "CXgate", "CZgate", "Kgate",
                       "Vgate", "CKgate")

                def fold(o):    # G(z).H is G(-z) for the gates whose inverse is the negated first parameter
                    pars, dg = o.get("pars"), bool(o.get("dagger"))
                    if dg and o["cls"] in ADD and pars and not isinstance(pars[0], dict):
                        return [-pars[0]] + list(pars[1:]), False
                    return pars, dg
                fields1 = [(o["cls"],) + fold(o) + (canon(o), o.get("select")) for o in base["ops"]]
                fields2 = [(o["cls"],) + fold(o) + (canon(o), o.get("select")) for o in var["ops"]]
            if name == "equal" and (fields1 != fields2 or base["n"] != var["n"]):
                why = "programs differ field by field"
            if gaussian_only:
                ok, msg = same_state(sf, p1, p2, base["n"], var["n"])
                ctx.oracle_cases += 1
                if not ok:
                    why = msg
            elif name == "equivalent" and kind not in ("reorder", "adjacent_swap", "swap_modes"):
                # non-runnable pair: structural reading of the property
                if sorted(map(repr, fields1)) != sorted(map(repr, fields2)):
                    why = "different multisets of commands"
            if why:
                ctx.fail(f"{name}-unsound:{kind}", f"programs reported {name} although {why} (variant: {kind})", rp)
    # ---- model
    l1, l2 = cmds_for_model(base, 0), cmds_for_model(var, 100)
    reg1 = [[i, True] for i in range(base["n"])]
    reg2 = [[i, True] for i in range(var["n"])]
    if isinstance(eq12, bool):
        reqs.append(dict(op="programEq", l1=l1, l2=l2, t1="", t2="", r1=reg1, r2=reg2))
        pending.append(("programEq", case, eq12))
    if isinstance(eqv12, bool) and len(l1) <= 6 and len(l2) <= 7:
        reqs.append(dict(op="programEquiv", l1=l1, l2=l2))
        pending.append(("programEquiv", case, eqv12))


def compare(ctx, reqs, pending):
    if not ctx.proof_ok or not reqs:
        return
    for (kind, case, impl), model in zip(pending, ctx.lean(reqs)):
        ctx.corr_cases += 1
        if model != impl:
            ctx.disagree(f"Compare.{kind} vs real comparison", case, model, impl)


def corpus():
    S = lambda r, m: dict(cls="Sgate", regs=[m], pars=[r, 0.0])
    return [
        # prefix
        (dict(n=2, ops=[S(0.5, 0), S(0.25, 1)]), "prefix", dict(n=2, ops=[S(0.5, 0)])),
        # dagger
        (dict(n=1, ops=[S(0.5, 0)]), "dagger", dict(n=1, ops=[dict(S(0.5, 0), dagger=True)])),
        # same DAG shape on other modes
        (dict(n=2, ops=[S(0.5, 0), dict(cls="Rgate", regs=[1], pars=[0.25])]), "relabel",
         dict(n=2, ops=[S(0.5, 1), dict(cls="Rgate", regs=[0], pars=[0.25])])),
        # asymmetric two-mode gate other than CX/BS
        (dict(n=2, ops=[S(0.5, 0), dict(cls="MZgate", regs=[0, 1], pars=[0.5, 0.25])]), "swap_modes",
         dict(n=2, ops=[S(0.5, 0), dict(cls="MZgate", regs=[1, 0], pars=[0.5, 0.25])])),
        (dict(n=2, ops=[dict(cls="MeasureFock", regs=[0, 1], pars=[])]), "truncated_regs",
         dict(n=2, ops=[dict(cls="MeasureFock", regs=[0], pars=[])])),
    ]


def special_angle_pairs():
    """every beamsplitter / CX on the lattice of special angles, applied to a non-trivial two-mode input in both mode orders:
    the comparison may call the two orders equivalent only where the gate really is symmetric in its modes"""
    S = dict(cls="Sgate", regs=[0], pars=[0.5, 0.3])
    D = dict(cls="Dgate", regs=[1], pars=[0.4, 0.2])
    out = []
    for a in range(8):
        for b in range(4):
            for eps in (0.0, 3e-9):
                g = dict(cls="BSgate", pars=[a * PI4 + eps, b * PI2 - eps])
                out.append((dict(n=2, ops=[S, D, dict(g, regs=[0, 1])]), "swap_modes", dict(n=2, ops=[S, D, dict(g, regs=[1, 0])])))
    for s_ in (0.0, 1e-9, 0.5):
        g = dict(cls="CXgate", pars=[s_])
        out.append((dict(n=2, ops=[S, D, dict(g, regs=[0, 1])]), "swap_modes", dict(n=2, ops=[S, D, dict(g, regs=[1, 0])])))
    return [copy.deepcopy(t) for t in out]


def history_cases(ctx, sf):
    """state kept between comparisons: a template with a free parameter is compared with a fixed reference, re-bound
    (`bind_params`, which does not touch the circuit), and compared again — each answer must be about the values bound NOW.
    Also: the same two Program objects compared repeatedly, in both directions, with compare_params on and off."""
    rng = ctx.rng
    for it in range(ctx.n(30, 300)):
        n = rng.randint(1, 3)
        spec = progs.rand_circuit(rng, n, rng.randint(1, 5), p_meas=0.0, allow=("gate1", "gate2"),
                                  classes=dict(gate1=["Sgate", "Rgate", "Dgate", "Pgate"], gate2=["BSgate", "S2gate", "CZgate"]))
        cand = [i for i, o in enumerate(spec["ops"]) if o.get("pars")]
        if not cand:
            continue
        i = rng.choice(cand)
        r0 = spec["ops"][i]["pars"][0]
        tmpl = copy.deepcopy(spec)
        tmpl["ops"][i]["pars"][0] = {"f": "r"}
        p1, _ = progs.build(tmpl, "t")
        p2, _ = progs.build(spec, "ref")
        vals = [r0, r0 + rng.choice([0.25, -0.5, 0.375]), r0, r0 - 0.125, r0 + 1e-9]
        rp = dict(kind="history", template=tmpl, reference=spec, values=vals)
        ctx.oracle_cases += 1
        ctx.count("history:rebind", dict(t=tmpl, v=vals), True, sample=rp)
        try:
            for step, v in enumerate(vals):
                p1.bind_params({"r": v})
                same = abs(v - r0) <= 1e-6
                for a, b, tag in ((p1, p2, "template~reference"), (p2, p1, "reference~template")):
                    got = bool(a.equivalence(b))
                    ctx.tally(f"history:equiv={got}:same={same}")
                    if got and not same:
                        ok, msg = same_state_bound(sf, p1, p2, {"r": v})
                        if not ok:
                            ctx.fail("equivalent-unsound:history", f"after re-binding the free parameter to {v} (step {step}; "
                                     f"earlier values {vals[:step]}) {tag} is reported equivalent although {msg}", rp)
                            return
                    if same and not got:
                        ctx.fail("equiv-history-dependent", f"the template bound to the reference's own value {v} (step {step}, "
                                 f"after {vals[:step]}) is reported inequivalent ({tag}); the same question was answered True before"
                                 if step else f"the template bound to the reference's own value is reported inequivalent ({tag})", rp)
                        return
                    # what else is asked in between varies (a cache may be keyed on it): nothing / the structural question
                    if it % 3 == 1 and not bool(a.equivalence(b, compare_params=False)):
                        ctx.fail("equiv-history-dependent", f"compare_params=False: same structure reported inequivalent at step {step}", rp)
                        return
                    if it % 3 == 2:
                        bool(a == b); bool(a.equivalence(a)); bool(b.equivalence(b))
        except Exception as e:  # noqa: BLE001
            ctx.fail(f"history-raises:{type(e).__name__}", f"comparison after re-binding raised {type(e).__name__}: {e}", rp)


def same_state_bound(sf, p1, p2, args):
    eng = sf.Engine("gaussian")
    s1 = eng.run(p1, args=args).state
    eng2 = sf.Engine("gaussian")
    s2 = eng2.run(p2).state
    d = max(np.max(np.abs(s1.means() - s2.means()), initial=0), np.max(np.abs(s1.cov() - s2.cov()), initial=0))
    return d < 1e-5, f"state distance {d:.3g}"


def register_layout_cases(ctx, sf, reqs, pending):
    """programs continuing parents that deleted DIFFERENT subsystems: registers of the same size but different layout; the same
    command text then acts on different physical modes, so `==` must say False (and True for equal layouts)"""
    from strawberryfields import ops
    rng = ctx.rng
    for it in range(ctx.n(12, 120)):
        n = rng.choice([3, 3, 4])
        d1 = rng.sample(range(n), rng.randint(1, 2))
        d2 = list(d1) if it % 3 == 0 else rng.sample(range(n), len(d1))
        alive = [m for m in range(n) if m not in d1 and m not in d2]
        if not alive:
            continue
        m = rng.choice(alive)
        r_ = rng.choice([0.25, 0.5, -0.375])
        progs_, parents = [], []
        for dels in (d1, d2):
            par = sf.Program(n)
            with par.context as q:
                for i in range(n):
                    ops.Dgate(0.1 * (i + 1), 0.2 * i) | q[i]
                for x in dels:
                    ops.Del | q[x]
            child = sf.Program(par)
            with child.context as q:
                ops.Sgate(r_, 0.0) | child.reg_refs[m] if False else ops.Sgate(r_, 0.0) | [r for r in child.register if r.ind == m][0]
            progs_.append(child); parents.append(par)
        p1, p2 = progs_
        same = sorted(d1) == sorted(d2)
        rp = dict(kind="layout", n=n, d1=d1, d2=d2, m=m, r=r_)
        ctx.oracle_cases += 1
        ctx.count("layout:successor-programs", rp, not same, sample=rp)
        try:
            eq12, eq21 = bool(p1 == p2), bool(p2 == p1)
        except Exception as e:  # noqa: BLE001
            ctx.fail(f"eq-raises:{type(e).__name__}", f"== on successor programs raised {type(e).__name__}: {e}", rp)
            continue
        ctx.tally(f"layout:eq={eq12}:same={same}")
        if eq12 != eq21:
            ctx.fail("eq-asymmetric", f"p==q is {eq12} but q==p is {eq21} (successor programs, deleted {d1} / {d2})", rp)
        elif eq12 and not same:
            ctx.fail("equal-unsound:register-layout", f"successor programs of parents that deleted {d1} resp. {d2} of {n} subsystems are "
                     f"reported equal although their registers {[r.ind for r in p1.register]} and {[r.ind for r in p2.register]} "
                     f"consist of different subsystems (run after their parents they act on different modes)", rp)
        elif same and not eq12:
            ctx.fail("eq-irreflexive", f"identically built successor programs (deleted {d1}) compare unequal", rp)
        cmd = [dict(id=0, cls="Sgate", regs=[m], deps=[], pars=[dict(n=rat(r_)), dict(n=rat(0.0))], dagger=False)]
        reqs.append(dict(op="programEq", l1=cmd, l2=[dict(cmd[0], id=100)], t1="", t2="",
                         r1=[[r.ind, bool(r.active)] for r in p1.register], r2=[[r.ind, bool(r.active)] for r in p2.register]))
        pending.append(("programEq", rp, eq12))


def run(ctx, sf):
    reqs, pending = [], []
    history_cases(ctx, sf)
    register_layout_cases(ctx, sf, reqs, pending)
    for base, kind, var in special_angle_pairs():
        one_pair(ctx, sf, base, kind, var, reqs, pending, gaussian_only=True)
    for base, kind, var in corpus():
        one_pair(ctx, sf, base, kind, var, reqs, pending, gaussian_only=not any(
            progs.category(o["cls"]) == "meas" for o in base["ops"] + var["ops"]))
    rng = ctx.rng
    for k in range(ctx.n(250, 2000)):
        gaussian_only = (k % 2 == 0)
        base = gen_base(rng, gaussian_only)
        for kind, var in variants(rng, base):
            one_pair(ctx, sf, base, kind, var, reqs, pending, gaussian_only)
        if len(reqs) > 3000:
            compare(ctx, reqs, pending); reqs, pending = [], []
    compare(ctx, reqs, pending)


def search(ctx, sf):
    run(ctx, sf)


def replay(ctx, rp):
    import strawberryfields as sf
    n0 = len(ctx.failures)
    if rp.get("kind") == "layout":
        return False        # re-generated by the run (deterministic from the seed); no separate replay
    if rp.get("kind") == "history":
        p1, _ = progs.build(rp["template"], "t")
        p2, _ = progs.build(rp["reference"], "ref")
        r0 = rp["values"][0]
        for v in rp["values"]:
            p1.bind_params({"r": v})
            got = bool(p1.equivalence(p2)) or bool(p2.equivalence(p1))
            if got and abs(v - r0) > 1e-6 and not same_state_bound(sf, p1, p2, {"r": v})[0]:
                ctx.fail("equivalent-unsound:history", f"reported equivalent at r={v}", rp)
            if not got and abs(v - r0) <= 1e-6:
                ctx.fail("equiv-history-dependent", f"reported inequivalent at r={v}", rp)
        return len(ctx.failures) > n0
    one_pair(ctx, sf, rp["base"], rp["vkind"], rp["variant"], [], [], rp.get("gaussian_only", False))
    return len(ctx.failures) > n0
