"""C01 — all simulator back ends compute the same physics.  Correspondence of the K3/K4 models with
GaussianModes / the Fock Circuit, plus the property-level oracle: one generated program is run on the
gaussian, bosonic, fock(pure) and fock(mixed) back ends and compared with an independent phase-space
calculation (lib/sim.py: own symplectic matrices from the documented Heisenberg actions)."""
import copy
import itertools
import math

import numpy as np

from lib import sim, simcorr, progs

RULE = ("correspondence: K4 with Gaussian-integer tensors (cutoff 2-3, 1-4 modes, every ordered target pair in turn, on/off "
        "the selection rule, diagonal fast path), K3 with rational circle/hyperbola atoms on random Hermitian/symmetric "
        "(N, M, mean) of 1-5 modes, 1-6 ops.  Oracle: random programs of 1-8 ops over 1-4 modes from all Gaussian gates "
        "(every ordered mode pair, daggers, angles incl. 0, +-pi/2, +-pi, 2pi, zero amplitudes), loss / thermal loss, "
        "re-preparations; each run on gaussian + bosonic (1e-8) and, for <=3 modes, fock pure + fock mixed "
        "(truncation-escalation rule).  Non-trivial = >=2 modes and at least one two-mode gate not on (0,1), or a channel "
        "/ preparation on a mode other than 0; distinct by program.")
ASSUMPTIONS = ["thewalrus gate matrices / symplectic helpers are third-party; the oracle compares their effect with the "
               "documented Heisenberg action (independent reference), the theorems take the matrix as an input",
               "Fock vs phase space: agreement up to truncation; a discrepancy counts only if it does not shrink when the "
               "cutoff is raised by 6 (DESIGN 1.6)"]
TRUSTED = ["modelled: GaussianModes.{displace,squeeze,phase_shift,beamsplitter,loss,thermal_loss,init_thermal,scovmatxp,"
           "smeanxp}, Circuit.{apply_gate_BLAS,apply_twomode_gate,_apply_two_mode_passive,_apply_S2}, "
           "fockbackend.ops.{mix,partial_trace,project_reset}; not modelled (oracle only): bosonic back end, "
           "state preparation matrices, thewalrus"]

TOL_PS = 1e-8


def nontrivial(spec):
    if spec["n"] < 2:
        return False
    for o in spec["ops"]:
        if len(o["regs"]) >= 2 and tuple(o["regs"]) != tuple(range(len(o["regs"]))):
            return True
        if len(o["regs"]) == 1 and o["regs"][0] != 0 and o["cls"] in ("LossChannel", "ThermalLossChannel", "Thermal",
                                                                      "Coherent", "Squeezed", "DisplacedSqueezed", "Vacuum"):
            return True
    return False


def fock_ok(spec):
    alive = peak = spec["n"]
    for o in spec["ops"]:
        if o["cls"] == "New":
            alive += len(o["regs"])
        elif o["cls"] == "Del":
            alive -= len(o["regs"])
        peak = max(peak, alive)
    return peak <= 3 and not any(o["cls"] in ("ThermalLossChannel", "PassiveChannel", "Gaussian") for o in spec["ops"])


def fock_delta(sf, spec, refm, cutoff, pure, cache=None, sel=None):
    if sel is None:
        st, _ = sim.run_spec(sf, spec, "fock", cutoff_dim=cutoff, pure=pure, op_cache=cache)
    else:
        st, _ = sim.run_spec(sf, spec, "fock", cutoff_dim=cutoff, pure=pure, op_cache=cache, modes=sel)
    a, N, M, tr = sim.moments_fock(st)
    return sim.moment_dist(refm, (a, N, M)), 1 - tr


def check_program(ctx, sf, spec, fock=True, cutoff=9):
    """guard: an exception raised while evaluating a program on the real code is a failing input, not a harness crash"""
    try:
        _check_program(ctx, sf, spec, fock, cutoff)
    except Exception as e:  # noqa: BLE001
        import traceback
        where = traceback.extract_tb(e.__traceback__)[-1]
        ctx.fail(f"evaluation-raises:{type(e).__name__}", f"evaluating a program raised {type(e).__name__}: {e} "
                 f"({where.name}:{where.lineno})", dict(kind="program", spec=spec, hbar=sf.hbar))


def _check_program(ctx, sf, spec, fock=True, cutoff=9):
    """run one program everywhere; ctx.fail on a disagreement.  Returns nothing."""
    ref = sim.reference(spec, sf.hbar)
    refm = sim.restrict_moments(ref.alpha_N_M(), ref.active)     # back ends return the active modes in index order
    rp = dict(kind="program", spec=spec, hbar=sf.hbar)
    # half of the runs share Operation instances between equal operations (and across the back ends of this program)
    cache = {} if ctx.oracle_cases % 2 == 0 else None
    # a third of the runs request a subset of the modes in an arbitrary (also cyclic) order: run option `modes=[...]`
    sel = None
    if ctx.oracle_cases % 3 == 1 and len(ref.active) >= 2:
        k = ctx.rng.randint(2, len(ref.active))
        sel = ctx.rng.sample(ref.active, k)          # subsystem indices (documented: "modes=[3,0] ... subsystem 3, subsystem 0")
        refm = sim.restrict_moments(ref.alpha_N_M(), sel)
        rp["modes"] = sel
        ctx.tally("state-modes:%s" % ("ascending" if sel == sorted(sel) else "unsorted"))
    ctx.oracle_cases += 1
    results = {}
    for be in ("gaussian", "bosonic"):
        try:
            if sel is None:
                st, _ = sim.run_spec(sf, spec, be, op_cache=cache)
            else:   # the bosonic back end documents that it returns the requested modes in ascending order
                st, _ = sim.run_spec(sf, spec, be, op_cache=cache, modes=sel if be == "gaussian" else sorted(sel))
            m = sim.moments_gaussian(st, sf.hbar) if be == "gaussian" else sim.moments_bosonic(st, sf.hbar)
            if sel is not None and be == "bosonic":
                pos = [sorted(sel).index(x) for x in sel]
                m = sim.restrict_moments(m, pos)
        except Exception as e:  # noqa: BLE001
            if type(e).__name__ in ("CircuitError", "NotImplementedError"):
                ctx.tally(f"not-accepted:{be}")       # the property speaks about programs a back end accepts
                continue
            ctx.fail(f"{be}-raises:{type(e).__name__}", f"{be} back end raised {type(e).__name__}: {e} on an accepted program",
                     rp)
            continue
        results[be] = m
        d = sim.moment_dist(refm, m)
        if d > TOL_PS * max(1.0, float(np.max(np.abs(refm[1])))):
            ctx.fail(f"{be}-vs-reference:{culprit(sf, spec, be)}",
                     f"{be} back end differs from the independent phase-space calculation by {d:.3g}", rp)
    if len(results) == 2:
        d = sim.moment_dist(results["gaussian"], results["bosonic"])
        if d > TOL_PS * max(1.0, float(np.max(np.abs(refm[1])))):
            ctx.fail("gaussian-vs-bosonic", f"gaussian and bosonic back ends differ by {d:.3g}", rp)
    if fock and fock_ok(spec):
        for pure in (True, False):
            try:
                d, loss = fock_delta(sf, spec, refm, cutoff, pure, cache, sel)
            except Exception as e:  # noqa: BLE001
                ctx.fail(f"fock-raises:{type(e).__name__}", f"fock back end (pure={pure}) raised {type(e).__name__}: {e}", rp)
                continue
            ctx.tally("fock-runs")
            if d > 5 * cutoff * loss + 1e-6:
                ctx.tally("fock-escalations")
                d2, loss2 = fock_delta(sf, spec, refm, cutoff + 6, pure, None, sel)
                if d2 > max(1e-5, d / 2) and d2 > 5 * (cutoff + 6) * loss2 + 1e-6:
                    ctx.fail(f"fock-{'pure' if pure else 'mixed'}-vs-reference:{culprit(sf, spec, 'fock', pure)}",
                             f"fock back end (pure={pure}) differs from the phase-space calculation by {d:.3g} at cutoff "
                             f"{cutoff} and {d2:.3g} at cutoff {cutoff + 6} (trace deficits {loss:.2g}, {loss2:.2g})", rp)


def check_pure_vs_mixed(ctx, sf, spec, cutoff=7):
    """the Fock simulator in its pure and in its mixed representation must give the same density matrix
    (same truncated matrices on both sides: agreement to float precision, no truncation budget)"""
    rp = dict(kind="pure-vs-mixed", spec=spec, cutoff=cutoff)
    ctx.oracle_cases += 1
    try:
        sp, _ = sim.run_spec(sf, spec, "fock", cutoff_dim=cutoff, pure=True)
        sm, _ = sim.run_spec(sf, spec, "fock", cutoff_dim=cutoff, pure=False)
    except Exception as e:  # noqa: BLE001
        ctx.fail(f"fock-raises:{type(e).__name__}", f"fock back end raised {type(e).__name__}: {e}", rp)
        return
    d = float(np.max(np.abs(sim.dm_of(sp) - sim.dm_of(sm))))
    if d > 1e-9:
        ctx.fail("fock-pure-vs-mixed", f"pure and mixed representations of the Fock simulator differ by {d:.3g}", rp)


def rand_fock_program(rng, n):
    """Gaussian and non-Gaussian gates, Fock preparations, loss — anything the fock back end accepts"""
    ops = []
    for m in range(n):
        if rng.random() < 0.4:
            ops.append(dict(cls="Fock", regs=[m], pars=[rng.choice([0, 1, 2])]))
    for _ in range(rng.randint(2, 7)):
        u = rng.random()
        if u < 0.3:
            cls = rng.choice(["Kgate", "Vgate", "CKgate"] if n >= 2 else ["Kgate", "Vgate"])
            regs = rng.sample(range(n), 2) if cls == "CKgate" else [rng.randrange(n)]
            op = dict(cls=cls, regs=regs, pars=[round(rng.uniform(-0.5, 0.5), 3)])
            if rng.random() < 0.3:
                op["dagger"] = True
            ops.append(op)
        else:
            ops.append(sim.rand_gaussian_op(rng, n, thermal_loss=False))
    return dict(n=n, ops=ops)


def check_bosonic_vs_fock(ctx, sf, spec, cutoff=10):
    """non-Gaussian bosonic preparations (first operation of a mode) followed by Gaussian operations: the moments of
    the bosonic linear combination must match the Fock simulation up to truncation"""
    rp = dict(kind="bosonic-vs-fock", spec=spec)
    ctx.oracle_cases += 1
    try:
        sb, _ = sim.run_spec(sf, spec, "bosonic")
        mb = sim.moments_bosonic(sb, sf.hbar)
    except NotImplementedError:
        return
    except Exception as e:  # noqa: BLE001
        ctx.fail(f"bosonic-raises:{type(e).__name__}", f"bosonic back end raised {type(e).__name__}: {e}", rp)
        return

    def delta(cut):
        st, _ = sim.run_spec(sf, spec, "fock", cutoff_dim=cut, pure=True)
        a, N, M, tr = sim.moments_fock(st)
        return sim.moment_dist(mb, (a, N, M)), 1 - tr
    d, loss = delta(cutoff)
    if d > 5 * cutoff * loss + 1e-6:
        d2, loss2 = delta(cutoff + 6)
        if d2 > max(1e-5, d / 2) and d2 > 5 * (cutoff + 6) * loss2 + 1e-6:
            ctx.fail("bosonic-vs-fock", f"bosonic and fock back ends differ by {d:.3g} (cutoff {cutoff}) / {d2:.3g} "
                     f"(cutoff {cutoff + 6})", rp)


def check_nongaussian_reference(ctx, sf, rng):
    """Kerr, cross-Kerr and cubic phase gates exist only on the Fock back end, so "the same physics" is judged against the
    documented operators themselves: `exp(i kappa n^2)`, `exp(i kappa n_a n_b)`, `exp(i gamma x^3 / (3 hbar))` (the latter on the
    truncated space, as documented for the back end), applied to a random ket on the listed modes in the listed order"""
    from scipy.linalg import expm
    for it in range(ctx.n(10, 100)):
        D = rng.choice([4, 5, 6])
        n = rng.choice([1, 2, 2, 3])
        nprng = np.random.default_rng(rng.getrandbits(32))
        amp = nprng.normal(size=(D,) * n) + 1j * nprng.normal(size=(D,) * n)
        amp /= np.linalg.norm(amp)
        prep = dict(cls="Ket", regs=list(range(n)), pars=[], apars=[dict(re=amp.real.tolist(), im=amp.imag.tolist())])
        kind = rng.choice(["Kgate", "Vgate", "CKgate"] if n >= 2 else ["Kgate", "Vgate"])
        par = round(rng.uniform(-0.7, 0.7), 3)
        dag = rng.random() < 0.3
        sgn = -1 if dag else 1
        nvec = np.arange(D)
        if kind == "CKgate":
            a_, b_ = rng.sample(range(n), 2)
            op = dict(cls=kind, regs=[a_, b_], pars=[par], dagger=dag)
            shape_a = [1] * n; shape_a[a_] = D
            shape_b = [1] * n; shape_b[b_] = D
            want = amp * np.exp(1j * sgn * par * nvec.reshape(shape_a) * nvec.reshape(shape_b))
        else:
            m = rng.randrange(n)
            op = dict(cls=kind, regs=[m], pars=[par], dagger=dag)
            if kind == "Kgate":
                U = np.diag(np.exp(1j * sgn * par * nvec ** 2))
            else:
                a_op = np.diag(np.sqrt(np.arange(1, D)), 1)
                x = (a_op + a_op.T) * math.sqrt(sf.hbar / 2)
                U = expm(1j * sgn * par / (3 * sf.hbar) * (x @ x @ x))
            want = np.moveaxis(np.tensordot(U, amp, axes=([1], [m])), 0, m)
        spec = dict(n=n, ops=[prep, op])
        rp = dict(kind="nongauss", spec=spec, cutoff=D)
        ctx.oracle_cases += 1
        ctx.count(f"nongaussian-reference:{kind}", spec, n >= 2, sample=dict(op=op, n=n, D=D))
        for pure in (True, False):
            try:
                st, _ = sim.run_spec(sf, spec, "fock", cutoff_dim=D, pure=pure)
                rho = sim.dm_of(st)
            except Exception as e:  # noqa: BLE001
                ctx.fail(f"raises:fock:{kind}:{type(e).__name__}", f"fock (pure={pure}) raised {type(e).__name__}: {e}", rp)
                continue
            rho_want = np.transpose(np.multiply.outer(want, want.conj()), [k for mm in range(n) for k in (mm, mm + n)])
            d = float(np.max(np.abs(rho - rho_want)))
            if d > 1e-9:
                ctx.fail(f"fock-vs-documented-operator:{kind}", f"{kind}{'.H' if dag else ''}({par}) | {op['regs']} on a {n}-mode ket "
                         f"(cutoff {D}, pure={pure}) differs from the documented operator by {d:.3g}", rp)


def rand_bosonic_nongaussian(rng, n):
    ops = []
    for m in range(n):
        if rng.random() < 0.6:   # cat states are exact in the bosonic representation (its Fock states are approximations)
            ops.append(dict(cls="Catstate", regs=[m], pars=[round(rng.uniform(0.4, 0.9), 2), sim.angle(rng),
                                                            rng.choice([0, 1, 0.5, 0.25, 1.5])],      # any parity phase
                            kw=dict(representation=rng.choice(["complex", "real"]))))
    for _ in range(rng.randint(1, 5)):
        ops.append(sim.rand_gaussian_op(rng, n, allow_prep=False, thermal_loss=False))
    return dict(n=n, ops=ops)


def culprit(sf, spec, backend, pure=True):
    """shrink: shortest prefix that already disagrees; returns 'Class@regs' of its last op (signature material)"""
    try:
        for k in range(1, len(spec["ops"]) + 1):
            sub = dict(n=spec["n"], ops=spec["ops"][:k])
            r = sim.reference(sub, sf.hbar)
            refm = sim.restrict_moments(r.alpha_N_M(), r.active)
            if backend == "fock":
                d, loss = fock_delta(sf, sub, refm, 12, pure)
                bad = d > 5 * 12 * loss + 1e-5
            else:
                st, _ = sim.run_spec(sf, sub, backend)
                m = sim.moments_gaussian(st, sf.hbar) if backend == "gaussian" else sim.moments_bosonic(st, sf.hbar)
                bad = sim.moment_dist(refm, m) > TOL_PS * max(1.0, float(np.max(np.abs(refm[1]))))
            if bad:
                o = spec["ops"][k - 1]
                return o["cls"] + (".H" if o.get("dagger") else "")
    except Exception:  # noqa: BLE001
        pass
    return "?"


def corpus():
    S = lambda m, r=0.25, p=0.4: dict(cls="Sgate", regs=[m], pars=[r, p])
    D = lambda m, r=0.3, p=1.0: dict(cls="Dgate", regs=[m], pars=[r, p])
    pre = [S(0), D(1), S(2, 0.2, -0.5), D(0, 0.2, 2.0), D(2, 0.25, -1.0)]
    out = []
    for g, pars in (("BSgate", [0.4, 0.2]), ("S2gate", [0.2, 0.3]), ("MZgate", [0.3, 0.5])):
        for regs in ([2, 0], [1, 0], [2, 1]):
            out.append(dict(n=3, ops=pre + [dict(cls=g, regs=regs, pars=pars)]))
    # thermal loss on a register with spectators
    out.append(dict(n=3, ops=pre + [dict(cls="ThermalLossChannel", regs=[1], pars=[0.5, 0.5])]))
    out.append(dict(n=2, ops=[S(0), S(1), dict(cls="BSgate", regs=[0, 1], pars=[0.7, 0.3]),
                              dict(cls="ThermalLossChannel", regs=[0], pars=[0.3, 0.2])]))
    return out


def run(ctx, sf):
    sf.hbar = 2
    simcorr.run_fock_corr(ctx, ctx.n(330, 3300))
    simcorr.run_bos_corr(ctx, ctx.n(100, 1000))
    simcorr.run_cat_corr(ctx, ctx.n(30, 300))
    simcorr.run_gauss_corr(ctx, ctx.n(150, 1500))
    for spec in corpus():
        ctx.count("corpus", spec, nontrivial(spec))
        check_program(ctx, sf, spec)
    rng = ctx.rng
    nprng = ctx.nprng(11)
    n_prog = ctx.n(60, 700)
    for it in range(n_prog):
        n = rng.choice([1, 2, 2, 3, 3, 3, 4])
        spec = sim.rand_gaussian_program(rng, n=n, length=rng.randint(1, 8))
        if rng.random() < 0.5 and n >= 2:      # make sure spectators are in a correlated state first
            spec["ops"] = sim.correlated_prefix(rng, n) + spec["ops"][:4]
        fock = (it % 3 != 2) if ctx.tier == "quick" else True
        if it % 7 == 2:                 # near-duplicate, unrounded parameters (a stale or coarsely keyed cache would mix them up)
            for o in list(spec["ops"]):
                if o["cls"] in ("Sgate", "BSgate", "Rgate", "Dgate", "S2gate") and o["pars"]:
                    twin = copy.deepcopy(o)
                    twin["pars"][0] = o["pars"][0] + rng.choice([1e-4, 3e-5, -2e-4]) * (1 + rng.random())
                    spec["ops"].append(twin)
                    break
        if it % 4 == 1:     # natively applied multi-mode operations of the phase-space back ends (mode lists in any order)
            extra = sim.rand_passive_op(rng, nprng, n) if it % 8 == 1 else sim.rand_gaussian_prep_op(rng, nprng, n)
            spec["ops"].insert(rng.randint(0, len(spec["ops"])), extra)
            fock = False
        if it % 3 == 1 and not (it % 4 == 1):      # registers with holes / late modes (index != position), inserted last
            spec = progs.with_del_new(rng, spec, p_del=(0.7 if n >= 2 else 0.0), p_new=0.7)
            ctx.tally("with-del-new:" + "+".join(o["cls"] for o in spec["ops"] if o["cls"] in ("Del", "New")))
            spec["ops"] = [o for o in spec["ops"] if o["cls"] != "MeasureFock"]
        ctx.count("program:n=%d" % n, spec, nontrivial(spec), sample=spec)
        for o in spec["ops"]:
            ctx.tally("op:" + o["cls"] + (".H" if o.get("dagger") else ""))
        check_program(ctx, sf, spec, fock=fock)
    # the FIRST preparation of a run placed after gates with complex phases: the Fock simulator still holds a ket then and takes
    # its ket -> (trace out, re-insert) path; every back end against the reference
    for it in range(ctx.n(12, 120)):
        n = rng.choice([2, 2, 3])
        ops_ = []
        for m in range(n):
            ops_.append(dict(cls="Sgate", regs=[m], pars=[round(rng.uniform(0.1, 0.3), 3) * rng.choice([1, -1]), sim.angle(rng)]))
            ops_.append(dict(cls="Dgate", regs=[m], pars=[round(rng.uniform(0.1, 0.4), 3), sim.angle(rng)]))
        for _ in range(rng.randint(1, 2)):
            a_, b_ = rng.sample(range(n), 2)
            ops_.append(dict(cls="BSgate", regs=[a_, b_], pars=[round(rng.uniform(0.3, 1.2), 3), sim.angle(rng)]))
        if rng.random() < 0.5:
            ops_.append(dict(cls="Rgate", regs=[rng.randrange(n)], pars=[sim.angle(rng)]))
        t = rng.randrange(n)
        prep = rng.choice([dict(cls="Coherent", regs=[t], pars=[round(rng.uniform(0.1, 0.5), 3), sim.angle(rng)]),
                           dict(cls="Squeezed", regs=[t], pars=[round(rng.uniform(0.1, 0.3), 3), sim.angle(rng)]),
                           dict(cls="Vacuum", regs=[t], pars=[]),
                           dict(cls="DisplacedSqueezed", regs=[t], pars=[0.2, sim.angle(rng), 0.15, sim.angle(rng)])])
        ops_.append(prep)
        ops_.append(sim.rand_gaussian_op(rng, n, allow_prep=False, allow_channel=False))
        spec = dict(n=n, ops=ops_)
        ctx.count("program:mid-circuit-prep", spec, True, sample=spec)
        check_program(ctx, sf, spec, fock=True)
    check_nongaussian_reference(ctx, sf, rng)
    for it in range(ctx.n(30, 300)):
        spec = rand_fock_program(rng, rng.choice([1, 2, 2, 3]))
        ctx.count("fock-pure-vs-mixed", spec, nontrivial(spec) or spec["n"] >= 2)
        check_pure_vs_mixed(ctx, sf, spec)
    for it in range(ctx.n(8, 80)):
        spec = rand_bosonic_nongaussian(rng, rng.choice([1, 2]))
        ctx.count("bosonic-vs-fock", spec, spec["n"] >= 2)
        check_bosonic_vs_fock(ctx, sf, spec)
    # other hbar conventions / cutoffs (configuration quantifier)
    for hbar in ((1.0, 0.7) if ctx.tier == "thorough" else (1.0,)):
        sf.hbar = hbar
        for it in range(ctx.n(8, 60)):
            spec = sim.rand_gaussian_program(rng, n=rng.choice([2, 3]), length=rng.randint(2, 6))
            ctx.count("program:hbar=%g" % hbar, spec, nontrivial(spec))
            check_program(ctx, sf, spec, fock=(it % 2 == 0), cutoff=9)
    sf.hbar = 2


def search(ctx, sf):
    run(ctx, sf)


def replay(ctx, rp):
    import strawberryfields as sf
    n0 = len(ctx.failures)
    sf.hbar = rp.get("hbar", 2)
    if rp.get("kind") == "pure-vs-mixed":
        check_pure_vs_mixed(ctx, sf, rp["spec"], rp.get("cutoff", 7))
    elif rp.get("kind") == "bosonic-vs-fock":
        check_bosonic_vs_fock(ctx, sf, rp["spec"])
    elif rp.get("kind") == "nongauss":
        check_pure_vs_mixed(ctx, sf, rp["spec"], rp.get("cutoff", 6))
    else:
        check_program(ctx, sf, rp["spec"])      # (a `modes` selection is re-drawn from the same PRNG state)
    sf.hbar = 2
    return len(ctx.failures) > n0
