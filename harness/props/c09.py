"""C09 — running programs is compositional and leaves user programs untouched.

(B) correspondence: the real engine (back end instrumented by a call recorder) and the Lean engine model
    run the same session scripts (run lists / successive runs / concatenated program / reset / re-run on a
    new engine); compared: back-end API call traces (names, evaluated arguments, modes, options), error
    class, Engine.run_progs, Engine.samples, RegRef values, locked flags; Program.compile vs the model's
    compile; Gate.apply / Gate.decompose vs the heap model for every gate class x dagger.
(C) oracle on the real code: final states of the three sequencing patterns, reset => fresh, re-run of the
    same Program objects on a new engine, deep snapshots of every program before/after run and compile
    (also when the run raises), run arguments unchanged, daggered native application is the inverse."""
import copy
import traceback

import numpy as np

from lib import engrec as er
from lib import progs as pg

RULE = ("sessions = (backend in fock/gaussian/bosonic, 1-4 modes, 1-3 program segments of 0-5 commands) run in five "
        "patterns: one run([p1..pk]) call, successive run(pi) calls, one concatenated program, run-reset-run, "
        "re-run of the same Program objects on a new engine.  Commands: every gate class the back end applies or "
        "decomposes (30% daggered, 10% zero first parameter), preparations, loss, homodyne/Fock measurements with "
        "select, feed-forward of measured values inside and (25% of the sessions) across segments, New/Del, free parameters.  "
        "Non-trivial = >=2 non-empty segments or a measurement/New/Del/daggered gate; distinct by session spec.")
ASSUMPTIONS = [
    "the back end is a deterministic function of the API calls it receives (equal call traces => equal states); "
    "validated on every session by comparing the final states of the three patterns",
    "a back-end gate call with negated first parameter is the inverse of the call (Gate.apply's dagger rule); "
    "validated per natively applied gate class and back end on every run",
    "shots = 1, hbar = 2; TDM programs, batching and the TensorFlow back end are outside the model",
    "theorem concat_compositional assumes structural well-formedness of the programs (open measured dependencies refer "
    "to subsystems of the first program's register) and, on the bosonic engine, a non-empty first program",
]
TRUSTED = ["modelled: BaseEngine._run / LocalEngine._run_program / BosonicBackend.run_prog prologue / reset, "
           "Operation.apply / Measurement.apply / Gate.apply / Gate.decompose, Program.compile (simulator compilers), "
           "can_follow, bind_params; the numerical back ends are opaque (call trace recorded by instrumentation)"]

# the Gaussian back end's post-selected homodyne is reproducible only to ~1e-7 (same program, same engine
# type, two runs: state differs by up to 1e-7), so states are compared at 1e-5; the defects this oracle is
# after move the state by 1e-2 .. 1
STATE_TOL = 1e-5
OPTS = {"fock": {"cutoff_dim": 5}, "gaussian": {}, "bosonic": {}}


# ------------------------------------------------------------------ generator

def gen_session(rng, backend, cross=False):
    C = er.BACKEND_CLASSES[backend]
    # (the bosonic back end cannot post-select homodyne on a one-mode register: IndexError inside the back end)
    n = rng.randint(2 if backend == "bosonic" else 1, 3 if backend == "fock" else 4)
    nseg = rng.choice([1, 2, 2, 2, 3])
    use_free = rng.random() < 0.3
    allow_newdel = rng.random() < 0.3     # (bosonic: only in later segments, see below)
    # 25% of the sessions contain measurements without `select` (random outcomes, recorded and replayed into the
    # model); their final states are not compared across patterns, everything else is
    randomised = rng.random() < 0.25
    active = [True] * n
    segs = []
    ever_measured = []
    for j in range(nseg):
        seg, measured = [], []
        L = rng.choice([0, 1, 2, 3, 4, 5]) if nseg > 1 else rng.randint(1, 5)
        if use_free:
            m = rng.choice([i for i, a in enumerate(active) if a])
            seg.append(dict(cls="Rgate", regs=[m], pars=[dict(f="a", k=rng.choice([1, 2, -1]))], dagger=rng.random() < 0.3))
        if cross and j > 0 and ever_measured:
            m = rng.choice(ever_measured)
            tgt = rng.choice([i for i, a in enumerate(active) if a])
            seg.append(dict(cls="Dgate", regs=[tgt], pars=[dict(m=m, k=rng.choice([1, 0.5, -1])), 0.0]))
        for _ in range(L):
            live = [i for i, a in enumerate(active) if a]
            kinds = ["g1"] * 4 + ["prep", "chan", "meas", "meas"] + (["g2"] * 3 if len(live) >= 2 else [])
            if allow_newdel and not (backend == "bosonic" and j == 0):
                kinds += ["new"] if len(active) < (4 if backend == "fock" else 5) else []
                kinds += ["del"] if len(live) >= 2 else []
            kind = rng.choice(kinds)
            if kind == "new":
                seg.append(dict(cls="New", k=1))
                active.append(True)
                continue
            if kind == "del":
                m = rng.choice(live)
                seg.append(dict(cls="Del", regs=[m]))
                active[m] = False
                measured = [x for x in measured if x != m]
                ever_measured = [x for x in ever_measured if x != m]
                continue
            cls = rng.choice(C[kind])
            if kind == "g2":
                regs = rng.sample(live, 2)
                npar = er.GATES2[cls]
            elif kind == "meas" and cls == "MeasureFock":
                regs = rng.sample(live, rng.randint(1, min(2, len(live))))
                npar = 0
            else:
                regs = [rng.choice(live)]
                npar = {**er.GATES1, **er.PREPS, **er.CHANNELS, **er.MEAS}[cls]
            pars = pg.rand_pars(rng, cls, npar)
            if backend == "fock":   # keep the truncated states well inside the cutoff
                pars = [p / 4 if cls in ("Dgate", "Sgate", "S2gate", "Xgate", "Zgate", "Coherent", "Squeezed", "Vgate") else p
                        for p in pars]
            op = dict(cls=cls, regs=regs, pars=pars)
            if kind in ("g1", "g2"):
                if rng.random() < 0.3:
                    op["dagger"] = True
                if pars and rng.random() < 0.1:
                    op["pars"][0] = 0.0
                avail = [m for m in measured if m not in regs]
                if avail and pars and cls not in ("Kgate", "CKgate", "Vgate") and rng.random() < 0.5:
                    op["pars"][0] = dict(m=rng.choice(avail), k=rng.choice([1, 2, 0.5, -1]))
            if cls == "MeasureHomodyne" and not (randomised and rng.random() < 0.5):
                op["select"] = rng.choice([0.0, 0.5, -0.25, 0.125])
            if cls == "MeasureFock" and not (randomised and rng.random() < 0.7):
                op["select"] = [rng.choice([0, 1, 2]) for _ in regs]
                for r, kk in zip(regs, op["select"]):      # make the selected outcome certain
                    seg.append(dict(cls="Fock", regs=[r], pars=[kk]))
            if kind == "meas":
                for r in regs:
                    if r not in measured:
                        measured.append(r)
                    if r not in ever_measured:
                        ever_measured.append(r)
            seg.append(op)
        segs.append(seg)
    spec = dict(backend=backend, n=n, opts=OPTS[backend], segs=segs, args={"a": 0.25} if use_free else {},
                share=rng.random() < 0.4, optimize=rng.choice([None, None, None, "run", "explicit", "method"]))
    need = er.needs_succ(spec)
    spec["succ"] = [need[j] or (j > 0 and rng.random() < 0.5) for j in range(nseg)]
    if any(need) and rng.random() < 0.35:
        j = rng.choice([i for i, x in enumerate(need) if x])
        ok = all(r < n for op in segs[j] for r in op.get("regs", [])) and not any(op["cls"] in ("New", "Del") for op in segs[j])
        if ok and j == nseg - 1:
            spec["succ"][j] = False          # cannot follow: the engine must refuse it in every pattern
            spec["mismatch"] = True
    return spec


def gen_mismatch(rng, backend):
    """a session whose last program cannot follow its predecessor (register changed by New/Del, program built
    over n fresh modes): the engine must refuse it in every sequencing pattern"""
    n = rng.randint(2, 3)
    g = lambda m: dict(cls="Rgate", regs=[m], pars=[pg.dyadic(rng, -6, 6, nonzero=True)])
    change = rng.choice([dict(cls="New", k=1), dict(cls="Del", regs=[rng.randrange(n)])])
    dead = change.get("regs", [])
    first = [g(rng.randrange(n))] * rng.randint(0, 1) + [change]
    mid = [[g(rng.choice([m for m in range(n) if m not in dead]))]] if rng.random() < 0.5 else []
    last = [g(rng.randrange(n)), dict(cls="Dgate", regs=[rng.randrange(n)], pars=[0.25, 0.5])]
    segs = [first] + mid + [last]
    return dict(backend=backend, n=n, opts=OPTS[backend], segs=segs, args={}, mismatch=True,
                succ=[False] + [True] * len(mid) + [False])


def gen_evolving(rng, backend):
    """three or four successor programs whose register changes in a middle segment (New or Del): every later
    program can follow its predecessor only, not the first program"""
    n = rng.randint(2, 3)
    g = lambda m: dict(cls="Rgate", regs=[m], pars=[pg.dyadic(rng, -6, 6, nonzero=True)], dagger=rng.random() < 0.3)
    d = lambda m: dict(cls="Dgate", regs=[m], pars=[pg.dyadic(rng, -2, 2, nonzero=True) / 2, 0.25])
    if rng.random() < 0.5:
        change, live = dict(cls="New", k=1), list(range(n + 1))
    else:
        dead = rng.randrange(n)
        change, live = dict(cls="Del", regs=[dead]), [m for m in range(n) if m != dead]
    segs = [[d(rng.randrange(n))], [g(rng.randrange(n)), change], [d(rng.choice(live)), g(rng.choice(live))]]
    if rng.random() < 0.4:
        segs.append([g(rng.choice(live))])
    return dict(backend=backend, n=n, opts=OPTS[backend], segs=segs, args={}, succ=[False] + [True] * (len(segs) - 1))


def gen_bosonic_nongauss(rng):
    """bosonic engine, non-Gaussian preparation in a LATER program: refused with NotImplementedError (the
    initialisation pass that handles such preparations only runs for the first program) -- known finding"""
    n = rng.randint(2, 3)
    m = rng.randrange(n)
    return dict(backend="bosonic", n=n, opts={}, args={}, succ=[False, rng.random() < 0.5],
                segs=[[dict(cls="Dgate", regs=[rng.randrange(n)], pars=[0.25, 0.5])],
                      [dict(cls=rng.choice(["Fock", "Catstate"]), regs=[m], pars=[1]), dict(cls="Rgate", regs=[m], pars=[0.375])]])


def gen_runopts(rng, backend):
    """run options: `shots` as keyword and/or in the programs' run_options (the last program of a list wins, the
    keyword wins over both), `modes` (None, [], a selection in arbitrary order); measurements without select so that
    several shots are legal, plus (30%) a select / a feed-forward that makes LocalEngine.run refuse several shots.
    Patterns differ BY DESIGN here (a list merges the options of all its programs), so only the correspondence, the
    snapshot and the can_follow oracles look at these sessions."""
    n = rng.randint(2, 3)
    g = lambda m: dict(cls="Rgate", regs=[m], pars=[pg.dyadic(rng, -6, 6, nonzero=True)], dagger=rng.random() < 0.3)
    d = lambda m: dict(cls="Dgate", regs=[m], pars=[pg.dyadic(rng, -2, 2, nonzero=True) / 2, 0.25])
    def meas():
        if backend == "gaussian" and rng.random() < 0.4:
            return dict(cls="MeasureFock", regs=rng.sample(range(n), rng.randint(1, 2)), pars=[])
        return dict(cls="MeasureHomodyne", regs=[rng.randrange(n)], pars=[rng.choice([0.0, 0.25])])
    nseg = rng.choice([1, 2, 2, 2, 3])
    segs = [[d(rng.randrange(n)), g(rng.randrange(n))] + [meas() for _ in range(rng.randint(1, 2))] for _ in range(nseg)]
    bad = rng.random() < 0.25
    if bad:
        sg = rng.choice(segs)
        if rng.random() < 0.5:
            sg.append(dict(cls="MeasureHomodyne", regs=[0], pars=[0.0], select=rng.choice([0.0, 0.5])))   # 0.0 is a selection too
        else:
            sg += [dict(cls="MeasureHomodyne", regs=[1], pars=[0.0]), dict(cls="Dgate", regs=[0], pars=[dict(m=1, k=1), 0.0])]
    kw = {}
    if rng.random() < 0.35:
        kw["shots"] = rng.choice([1, 2, 3])
    if rng.random() < 0.6:
        kw["modes"] = rng.choice([[], [0], rng.sample(range(n), 2), None])
    return dict(backend=backend, n=n, opts=OPTS[backend], args={}, segs=segs, succ=[False] * nseg, run_kw=kw,
                prog_shots=[rng.choice([None, 2, 3, 4]) for _ in range(nseg)], noncomparable=True)


MERGE_G1 = {"gaussian": ["Dgate", "Sgate", "Rgate", "Xgate", "Zgate", "Pgate"], "bosonic": ["Dgate", "Sgate", "Rgate", "Xgate", "Zgate", "Pgate"],
            "fock": ["Dgate", "Sgate", "Rgate", "Xgate", "Zgate", "Pgate", "Kgate", "Vgate"]}
MERGE_G2 = {"gaussian": ["BSgate", "S2gate", "CXgate", "CZgate"], "bosonic": ["BSgate", "S2gate", "CXgate", "CZgate"],
            "fock": ["BSgate", "S2gate", "CKgate", "CXgate", "CZgate"]}
MERGE_CH = {"gaussian": ["LossChannel", "ThermalLossChannel", "PassiveChannel"], "bosonic": ["LossChannel", "ThermalLossChannel"],
            "fock": ["LossChannel"]}


def gen_optimize(rng, backend):
    """sessions for the optimiser route (compile_options={'optimize': True} / compile(optimize=True) / optimize()): on
    purpose ADJACENT mergeable operations on the same modes -- same-family gates (all dagger combinations, equal other
    parameters), pairs that cancel to the identity (a, -a / G, G.H), channels (Loss, ThermalLoss with equal nbar,
    PassiveChannel; also T1*T2 = 1), two preparations in a row, runs of three -- half of them with shared Operation
    instances, separated by spectators on other modes"""
    n = rng.randint(2, 3)
    small = backend == "fock"
    segs = []
    for _ in range(rng.choice([1, 2, 2])):
        seg = []
        for _ in range(rng.randint(1, 3)):
            kind = rng.choice(["g1", "g1", "g2", "ch", "ch", "prep"])
            rep = rng.choice([2, 2, 3])
            if kind == "g1":
                cls, m = rng.choice(MERGE_G1[backend]), rng.randrange(n)
                rest = [rng.choice([0.0, 0.25])] * (er.GATES1[cls] - 1)
                a = pg.dyadic(rng, -4, 4, nonzero=True) / (8 if small else 2)
                firsts = [a] + [rng.choice([-a, a, a / 2, pg.dyadic(rng, -4, 4, nonzero=True) / (8 if small else 2)]) for _ in range(rep - 1)]
                if cls == "Dgate":
                    firsts = [abs(x) for x in firsts]
                block = [dict(cls=cls, regs=[m], pars=[x] + rest, dagger=rng.random() < 0.4) for x in firsts]
            elif kind == "g2":
                cls = rng.choice(MERGE_G2[backend])
                regs = rng.sample(range(n), 2)
                rest = [rng.choice([0.0, 0.25])] * (er.GATES2[cls] - 1)
                a = pg.dyadic(rng, -4, 4, nonzero=True) / (8 if small else 2)
                block = [dict(cls=cls, regs=list(regs), pars=[x] + rest, dagger=rng.random() < 0.4)
                         for x in [a] + [rng.choice([-a, a, a / 2]) for _ in range(rep - 1)]]
            elif kind == "ch":
                cls, m = rng.choice(MERGE_CH[backend]), rng.randrange(n)
                if cls == "PassiveChannel":
                    k2 = rng.choice([1, 2])
                    regs = rng.sample(range(n), k2)
                    mats = [[[rng.choice([0.5, 0.25, 0.75]) if i == j else (0.125 if k2 == 2 else 0.0) for j in range(k2)] for i in range(k2)]
                            for _ in range(rep)]
                    block = [dict(cls=cls, regs=list(regs), pars=[T]) for T in mats]
                else:
                    Ts = [rng.choice([0.5, 0.25, 0.75, 1.0]) for _ in range(rep)]
                    if rng.random() < 0.2:
                        Ts = [1.0] * rep
                    nbar = rng.choice([0.5, 1.0])
                    block = [dict(cls=cls, regs=[m], pars=[T] + ([nbar] if cls == "ThermalLossChannel" else [])) for T in Ts]
            else:
                m = rng.randrange(n)
                block = [dict(cls="Vacuum", regs=[m], pars=[]), dict(cls="Coherent", regs=[m], pars=[0.25, 0.5])]
            seg += block
            if rng.random() < 0.5:      # a spectator on another mode must not prevent the merge
                seg.insert(len(seg) - 1, dict(cls="Rgate", regs=[rng.choice([x for x in range(n) if x not in block[0]["regs"]] or [0])], pars=[0.375]))
        segs.append(seg)
    return dict(backend=backend, n=n, opts=OPTS[backend], args={}, segs=segs, succ=[False] + [rng.random() < 0.5] * (len(segs) - 1),
                share=rng.random() < 0.5, optimize=rng.choice(["run", "run", "explicit", "method"]))


def gen_handover_index(rng, backend):
    """subsystem INDEX versus POSITION in the register at the hand-over of measured values: an earlier program measures
    (post-selected, hence scripted) one to three subsystems and deletes one whose index lies below / between / above
    them -- or creates a new subsystem and measures it -- and a later program feeds the values forward.  With a hole
    in the register the k-th valid subsystem is not subsystem k."""
    n = 3 if backend == "fock" else rng.randint(3, 4)       # (a mixed 4-mode Fock register is too slow for the quick tier)
    sel = lambda: rng.choice([0.25, -0.5, 0.75, 0.125, -0.375])
    meas_modes = rng.sample(range(n), rng.choice([1, 2, 2] if backend == "fock" else [1, 2, 2, 3]))
    rel = rng.choice(["below", "below", "between", "above", "none"] + ([] if backend == "fock" else ["new"]))
    others = [m for m in range(n) if m not in meas_modes]
    segA = [dict(cls="Coherent", regs=[m], pars=[0.25 + 0.125 * m, 0.25]) for m in range(n)]
    if n >= 2:
        a, b = rng.sample(range(n), 2)
        segA.append(dict(cls="BSgate", regs=[a, b], pars=[0.375, 0.25]))
    dele = None
    if rel in ("below", "between", "above") and others:
        lo, hi = min(meas_modes), max(meas_modes)
        cands = {"below": [m for m in others if m < hi], "between": [m for m in others if lo < m < hi],
                 "above": [m for m in others if m > lo]}[rel] or others
        dele = rng.choice(cands)
    newm = None
    if rel == "new" and backend != "bosonic":
        newm = n
    ms = [dict(cls="MeasureHomodyne", regs=[m], pars=[rng.choice([0.0, 0.25])], select=sel()) for m in meas_modes]
    body = list(ms)
    if dele is not None:
        body.insert(rng.randint(0, len(body)), dict(cls="Del", regs=[dele]))
    if newm is not None:
        body += [dict(cls="New", k=1), dict(cls="Dgate", regs=[newm], pars=[0.25, 0.5]),
                 dict(cls="MeasureHomodyne", regs=[newm], pars=[0.0], select=sel())]
        meas_modes = meas_modes + [newm]
    segA += body
    live = [m for m in range(n + (1 if newm is not None else 0)) if m != dele]
    segB = []
    for src in meas_modes:
        tgt = rng.choice([m for m in live if m != src] or live)
        segB.append(dict(cls=rng.choice(["Dgate", "Xgate", "Zgate", "Rgate"]), regs=[tgt], pars=[dict(m=src, k=rng.choice([1, 0.5, -1]))],
                         dagger=rng.random() < 0.3))
        if segB[-1]["cls"] == "Dgate":
            segB[-1]["pars"].append(0.0)
    segs = [segA, segB]
    if rng.random() < 0.4:       # a third program that still needs the values (handed over twice)
        src = rng.choice(meas_modes)
        segs.append([dict(cls="Zgate", regs=[rng.choice([m for m in live if m != src] or live)], pars=[dict(m=src, k=0.5)])])
    return dict(backend=backend, n=n, opts={"cutoff_dim": 4} if backend == "fock" else OPTS[backend], args={}, segs=segs,
                succ=[False] + [True] * (len(segs) - 1), share=False, expect_ok=True)


def _cplx(z):
    return dict(re=float(np.real(z)), im=float(np.imag(z)))


def gen_arrays(rng, backend):
    """ARRAY-valued operation parameters handed over by the user (every dtype: complex / float / int, writable and
    read-only), followed by gates and a post-selected measurement on a strict subset of the modes; the program is then
    run in every pattern and re-run: parameters are snapshotted by value, dtype and identity.
    bosonic: ops.Bosonic(weights, means, covs) on exactly one / on two modes, the other modes single Gaussians;
    fock: Ket / DensityMatrix (one and two modes); gaussian + fock: Interferometer, GaussianTransform, Gaussian."""
    n = rng.randint(2, 3)
    ro = rng.random() < 0.3
    seg = []
    th = 0.5
    c, sn = float(np.cos(th)), float(np.sin(th))
    U_float = dict(arr=[[c, -sn], [sn, c]], dtype="float", ro=ro)
    U_cplx = dict(arr=[[_cplx(c), _cplx(-sn * 1j)], [_cplx(-sn * 1j), _cplx(c)]], dtype="complex", ro=ro)
    U_int = dict(arr=[[0, 1], [1, 0]], dtype="int", ro=ro)
    S_int = dict(arr=[[1, 0], [1, 1]], dtype="int", ro=ro)                 # a shear: symplectic with integer entries
    S_float = dict(arr=[[1.25, 0.0], [0.0, 0.8]], dtype="float", ro=ro)
    V_float = dict(arr=[[1.5, 0.25], [0.25, 0.75]], dtype="float", ro=ro)  # a valid one-mode covariance (hbar = 2)
    m0 = rng.randrange(n)
    rest = [m for m in range(n) if m != m0]
    if backend == "bosonic":
        dts = rng.choice([("complex", "complex", "float"), ("complex", "complex", "float"), ("float", "float", "float")])
        cat = [rng.choice([1.0, 1.25]), rng.choice([0.0, 0.25]), 0]
        def bos(m):
            return dict(cls="Bosonic", regs=[m], pars=[dict(cat=cat, which=i, dtype=dts[i], ro=ro) for i in range(3)])
        seg.append(bos(m0))
        if len(rest) >= 2 and rng.random() < 0.3:
            seg.append(bos(rest[-1]))
        for m in rest:
            if not any(o["regs"] == [m] for o in seg):
                seg.append(rng.choice([dict(cls="Squeezed", regs=[m], pars=[0.25, 0.25]), dict(cls="Coherent", regs=[m], pars=[0.5, 0.125])]))
    elif backend == "fock":
        D = OPTS["fock"]["cutoff_dim"]
        kind = rng.choice(["ket", "dm", "ket2", "interf", "gt"])
        v = [0.75, 0.5, 0.375, 0.125, 0.0][:D]
        nrm = float(np.sqrt(sum(x * x for x in v)))
        v = [x / nrm for x in v]
        if kind == "ket":
            dt = rng.choice(["complex", "float"])
            seg.append(dict(cls="Ket", regs=[m0], pars=[dict(arr=[_cplx(x) for x in v] if dt == "complex" else v, dtype=dt, ro=ro)]))
        elif kind == "dm":
            seg.append(dict(cls="DensityMatrix", regs=[m0], pars=[dict(arr=[[_cplx(a * b) for b in v] for a in v], dtype="complex", ro=ro)]))
        elif kind == "ket2":
            a, b = m0, rest[0]
            seg.append(dict(cls="Ket", regs=[a, b], pars=[dict(arr=[[_cplx(x * y) for y in v] for x in v], dtype="complex", ro=ro)]))
        elif kind == "interf":
            seg += [dict(cls="Coherent", regs=[m0], pars=[0.25, 0.5]),
                    dict(cls="Interferometer", regs=[m0, rest[0]], pars=[rng.choice([U_float, U_cplx, U_int])])]
        else:
            seg += [dict(cls="Coherent", regs=[m0], pars=[0.125, 0.5]), dict(cls="GaussianTransform", regs=[m0], pars=[S_float])]
    else:
        kind = rng.choice(["interf", "interf", "gt", "gauss"])
        seg.append(dict(cls="Coherent", regs=[m0], pars=[0.5, 0.25]))
        if kind == "interf":
            seg.append(dict(cls="Interferometer", regs=[m0, rest[0]], pars=[rng.choice([U_float, U_cplx, U_int])]))
        elif kind == "gt":
            seg.append(dict(cls="GaussianTransform", regs=[m0], pars=[rng.choice([S_int, S_float])]))
        else:
            seg.append(dict(cls="Gaussian", regs=[m0], pars=[V_float]))
    # gates, then a post-selected measurement on a strict subset
    seg.append(dict(cls="BSgate", regs=[m0, rest[0]], pars=[0.375, 0.25]))
    if len(rest) > 1:
        seg.append(dict(cls="BSgate", regs=[rest[0], rest[1]], pars=[0.625, 0.0]))
    mm = rng.choice(rest)
    tail = [dict(cls="MeasureHomodyne", regs=[mm], pars=[0.25], select=rng.choice([0.25, -0.125]))]
    if backend == "gaussian" and rng.random() < 0.3:
        tail = [dict(cls="MeasureHeterodyne", regs=[mm], pars=[], select=None)]
    segs = [seg + tail]
    if rng.random() < 0.4:
        segs.append([dict(cls="Rgate", regs=[m0], pars=[0.375])])
    return dict(backend=backend, n=n, opts=OPTS[backend], args={}, segs=segs, succ=[False] * len(segs), share=False,
                expect_ok=not any(o.get("select") is None and er.kind_of(o["cls"]) == "meas" for sg in segs for o in sg))


def gen_history(rng, backend):
    """register histories that `can_follow` must tell apart / accept:
    v1: p1 deletes its last subsystem, p2 is built INDEPENDENTLY over the remaining live modes (same live modes, other
        deletion history) -> must be rejected;
    v2: one fragment New -> gate -> Del run twice (run([p, p])) -> the second pass must be rejected;
    v3: one fragment without New/Del (measurement + feed-forward inside) run two or three times -> accepted and equal
        to the program with the commands repeated;
    v4: p1 deletes a subsystem, p2 = Program(p1) successor (accepted), p3 independent over n modes (rejected)."""
    n = rng.randint(2, 3)
    g = lambda m: dict(cls="Rgate", regs=[m], pars=[pg.dyadic(rng, -6, 6, nonzero=True)], dagger=rng.random() < 0.3)
    d = lambda m: dict(cls="Dgate", regs=[m], pars=[pg.dyadic(rng, -2, 2, nonzero=True) / 2, 0.25])
    bs = lambda a, b: dict(cls="BSgate", regs=[a, b], pars=[0.375, 0.25], dagger=rng.random() < 0.3)
    base = dict(backend=backend, n=n, opts=OPTS[backend], args={}, share=rng.random() < 0.5)
    v = rng.choice(["v1", "v1", "v2", "v2", "v3", "v3", "v4"])
    if v == "v1":
        seg1 = [g(0)] + ([dict(cls="New", k=1), d(n - 1)] if rng.random() < 0.6 else [d(0)])
        return dict(base, segs=[[d(rng.randrange(n)), dict(cls="Del", regs=[n - 1])], seg1], succ=[False, False],
                    fresh=[None, n - 1])
    if v == "v2":
        frag = [dict(cls="New", k=1), d(n), bs(n, rng.randrange(n)), dict(cls="Del", regs=[n])]
        return dict(base, segs=[frag], succ=[False], order=[0, 0])
    if v == "v3":
        m = rng.randrange(n)
        t = rng.choice([x for x in range(n) if x != m])
        frag = [d(m), bs(m, t), dict(cls="MeasureHomodyne", regs=[m], pars=[0.25], select=rng.choice([0.5, -0.25])),
                dict(cls="Dgate", regs=[t], pars=[dict(m=m, k=rng.choice([1, -1, 0.5])), 0.0], dagger=rng.random() < 0.5), g(t)]
        return dict(base, segs=[frag], succ=[False], order=[0] * rng.choice([2, 2, 3]))
    dead = rng.randrange(n)
    live = [x for x in range(n) if x != dead]
    return dict(base, segs=[[g(dead), dict(cls="Del", regs=[dead])], [d(rng.choice(live))], [g(0), d(n - 1)]],
                succ=[False, True, False])


def cross_deps(spec):
    """does a segment read a measured value it has not measured itself (feed-forward across a boundary)?"""
    for j, seg in enumerate(spec["segs"]):
        measured = set()
        for op in seg:
            for p in op.get("pars", []):
                if isinstance(p, dict) and "m" in p and p["m"] not in measured and j > 0:
                    return True
            if er.kind_of(op["cls"]) == "meas":
                measured |= set(op["regs"])
    return False


def shared_measured_symbol(spec):
    """two different programs of the session use `q[m].par` of the same mode m"""
    seen = {}
    for j, seg in enumerate(spec["segs"]):
        for op in seg:
            for p in op.get("pars", []):
                if isinstance(p, dict) and "m" in p:
                    if seen.setdefault(p["m"], j) != j:
                        return True
    return False


def unmeasured_read(spec):
    """a measured parameter read before any measurement of that mode in the whole session (ill-formed)"""
    measured = set()
    for seg in spec["segs"]:
        for op in seg:
            for p in op.get("pars", []):
                if isinstance(p, dict) and "m" in p and p["m"] not in measured:
                    return True
            if er.kind_of(op["cls"]) == "meas":
                measured |= set(op["regs"])
    return False


def nontrivial(spec):
    ne = sum(1 for s in spec["segs"] if s)
    return ne >= 2 or any(er.kind_of(o["cls"]) in ("meas", "new", "del") or o.get("dagger") for s in spec["segs"] for o in s)


# ------------------------------------------------------------------ running a pattern on the real engine

def scripts(ids):
    ids = list(ids)
    return {
        "list": [dict(run=ids, aslist=True)],
        "seq": [dict(run=[i]) for i in ids],
        "reset": [dict(run=[ids[0]]), dict(reset={}), dict(run=ids, aslist=True)],
        "rerun": [dict(run=ids, aslist=True), dict(fresh=True), dict(run=ids, aslist=True)],
    }


def exec_script(sf, spec, progs, script, optimize=False):
    """-> dict(steps, err, eng attrs, vals, locked, state, snaps_ok, outcomes)"""
    backend = spec["backend"]
    eng = sf.Engine(backend, backend_options=dict(spec["opts"]))
    rec = er.Recorder(eng.backend)
    before = [er.snapshot(p) for p in progs]
    steps, outcomes, err, state, in_call = [], [], None, None, False
    run_args = dict(spec["args"])
    compile_options = dict(warn_connected=False, optimize=True) if optimize else dict(warn_connected=False)
    copts0 = dict(compile_options)
    for act in script:
        try:
            if "run" in act:
                ids = act["run"]
                arg = [progs[i] for i in ids] if act.get("aslist") else progs[ids[0]]
                res = eng.run(arg, args=run_args, compile_options=compile_options, **dict(spec.get("run_kw") or {}))
                state = None if res.state is None else er.state_data(backend, res.state)
            elif "reset" in act:
                eng.reset(dict(act["reset"]))
            else:
                eng = sf.Engine(backend, backend_options=dict(spec["opts"]))
                pending = rec.take()
                rec = er.Recorder(eng.backend)
                rec.calls = pending
        except Exception as e:  # noqa: BLE001
            err = type(e).__name__
            in_call = rec.raised_in_call
            state = None
            calls = rec.take()
            outcomes += er.outcomes_of(calls)
            steps.append(dict(err=err, calls=[er.canon_call(c) for c in calls], tb=traceback.format_exc(limit=3)[-400:]))
            break
        calls = rec.take()
        outcomes += er.outcomes_of(calls)
        steps.append(dict(calls=[er.canon_call(c) for c in calls]))
    after = [er.snapshot(p) for p in progs]
    index = {id(p): i for i, p in enumerate(progs)}
    run_ids = [index.get(id(p.source if p.source is not None else p), -1) for p in eng.run_progs]
    samples = None if eng.samples is None else [[float(x) for x in row] for row in np.asarray(eng.samples, dtype=float)]
    vals = [[None if r.val is None else [float(x) for x in np.atleast_1d(r.val)] for r in p.reg_refs.values()] for p in progs]
    return dict(steps=steps, err=err, in_call=in_call, run_ids=run_ids, samples=samples, vals=vals,
                locked=[bool(p.locked) for p in progs], state=state, outcomes=outcomes,
                snap=[er.snap_diff(a, b) for a, b in zip(before, after)],
                args_ok=(run_args == dict(spec["args"])), copts_ok=(compile_options == copts0),
                prev=None if not eng.run_progs else [[r.ind, bool(r.active)] for r in eng.run_progs[-1].reg_refs.values()])


def model_request(spec, script, outcomes, concat=False):
    mprogs, nm = er.model_progs(spec, concat=concat)
    ms = []
    for act in script:
        if "run" in act:
            ms.append(dict(run=act["run"], **{k: v for k, v in (spec.get("run_kw") or {}).items() if v is not None}))
        elif "reset" in act:
            ms.append(dict(reset=sorted([k, int(v)] for k, v in act["reset"].items())))
        else:
            ms.append(dict(fresh=sorted([k, int(v)] for k, v in spec["opts"].items())))
    return dict(op="eng.session", compiler=er.compiler_tables(spec["backend"]), backend=spec["backend"],
                opts=sorted([k, int(v)] for k, v in spec["opts"].items()), progs=mprogs,
                outcomes=[[[er.rat(x) for x in col] for col in o] for o in outcomes],
                args=[[k, er.rat(v)] for k, v in spec["args"].items()], script=ms, nmodes=nm)


def modelled(spec):
    return not any(op["cls"] in er.UNMODELLED for seg in spec["segs"] for op in seg) and not er.has_matrix(spec)


def compare_session(ctx, case, real, model):
    """correspondence of one executed script with the model's answer"""
    pair = "Engine.run/reset vs Eng.run/reset"
    if "__error__" in model:
        ctx.disagree(pair, case, model, "model error")
        return
    msteps = model["steps"]
    if any(s.get("err") in ("unmodelled", "fuel") for s in msteps):
        ctx.tally("corr:unmodelled")
        return
    if real["err"] == "ValueError" and any("inhomogeneous" in (st.get("tb") or "") for st in real["steps"]):
        # a back end returned another number of samples than `shots` for one of the measurements of a segment (e.g. the
        # Gaussian homodyne returns one sample whatever `shots`): np.transpose of the ragged columns fails in
        # _combine_and_sort_samples.  The model pads; numerics of the back ends are outside it.
        ctx.tally("corr:ragged samples (back end ignored shots)")
        return
    if real["err"] is not None and real["in_call"]:
        # the numerical back end itself raised inside an API call: the model (which knows nothing about the numerics) must
        # have reached that call -- no model-level error at or before this step, same calls up to the failing one
        ctx.tally("corr:backend-raised")
        ctx.corr_cases += 1
        k = len(real["steps"]) - 1
        if len(msteps) <= k or any("err" in ms for ms in msteps[:k + 1]):
            ctx.disagree(pair + " (model refuses a step the engine carried on with until the back end raised)", case,
                         [s.get("err", "ok") for s in msteps], [s.get("err", "ok") for s in real["steps"]])
            return
        for j in range(k + 1):
            mc = [er.model_call(c) for c in msteps[j]["calls"]]
            rc = real["steps"][j]["calls"]
            if (j < k and len(mc) != len(rc)) or len(mc) < len(rc) or not all(er.same_call(a, b) for a, b in zip(mc, rc)):
                ctx.disagree(pair + f" (call trace up to the back-end failure, step {j})", case, mc, rc)
                return
        return
    ctx.corr_cases += 1
    f = lambda q: q[0] / q[1]
    if len(msteps) != len(real["steps"]):
        ctx.disagree(pair, case, [s.get("err", "ok") for s in msteps], [s.get("err", "ok") for s in real["steps"]])
        return
    for k, (ms, rs) in enumerate(zip(msteps, real["steps"])):
        if ("err" in ms) != ("err" in rs) or ("err" in ms and ms["err"] != rs["err"]):
            ctx.disagree(pair + " (error class)", case, ms.get("err", "ok"), (rs.get("err", "ok"), rs.get("tb")))
            return
        if "err" in ms:
            ctx.tally("corr:err:" + ms["err"])
            return
        mc = [er.model_call(c) for c in ms["calls"]]
        if len(mc) != len(rs["calls"]) or not all(er.same_call(a, b) for a, b in zip(mc, rs["calls"])):
            ctx.disagree(pair + f" (call trace, step {k})", case, mc, rs["calls"])
            return
    me = model["eng"]
    if me["runIds"] != real["run_ids"]:
        ctx.disagree(pair + " (run_progs)", case, me["runIds"], real["run_ids"])
    msam = None if me["samples"] is None else [[f(x) for x in row] for row in me["samples"]]
    rsam = real["samples"]
    same = (msam is None) == (rsam is None) and (msam is None or (
        len(msam) == len(rsam) and all(len(a) == len(b) and np.allclose(a, b, atol=1e-9) for a, b in zip(msam, rsam))))
    if not same:
        ctx.disagree(pair + " (samples)", case, msam, rsam)
    if me["prev"] != real["prev"]:
        ctx.disagree(pair + " (register of the last program)", case, me["prev"], real["prev"])
    for i, wp in enumerate(model["world"]):
        mv = [None if v is None else [f(x) for x in v] for v in wp["vals"]]
        rv = real["vals"][i]
        ok = len(mv) == len(rv) and all((a is None) == (b is None) and (a is None or (len(a) == len(b) and np.allclose(a, b, atol=1e-9)))
                                        for a, b in zip(mv, rv))
        if not ok:
            ctx.disagree(pair + " (RegRef values)", case, mv, rv)
        if wp["locked"] != real["locked"][i]:
            ctx.disagree(pair + " (locked)", case, wp["locked"], real["locked"][i])


# ------------------------------------------------------------------ one session: all patterns, oracle + correspondence

def one_session(ctx, sf, spec, reqs, pending, kinds=("list", "seq", "cat", "reset", "rerun")):
    backend = spec["backend"]
    k = len(spec["segs"])
    sc = scripts(er.run_order(spec))
    if spec.get("script"):
        sc, kinds = {"custom": spec["script"]}, ("custom",)
    coherent = er.coherent(spec)
    allops = [o for j in er.run_order(spec) for o in spec["segs"][j]]
    results = {}
    case = dict(spec=spec)
    rp = dict(kind="session", spec=spec)
    ctx.count(f"session:{backend}:{k}seg", spec, nontrivial(spec), sample=spec)
    for pat in kinds:
        if pat == "cat" and (not coherent or spec.get("noncomparable")):
            continue
        cache = {} if spec.get("share") else None      # shared Operation instances within and across the programs
        try:
            if pat == "cat":
                progs = [er.build_concat(sf, spec, cache)]
                script = [dict(run=[0])]
            else:
                progs = er.build_segments(sf, spec, cache)
                script = sc[pat]
        except Exception as e:  # noqa: BLE001  -- a valid spec must be constructible
            ctx.fail(f"program-construction-raised:{type(e).__name__}", f"{backend}: building the programs of a valid session "
                     f"({pat}) raised {type(e).__name__}: {e}", rp)
            return
        # optimisation: the reference (concatenated program) is always run WITHOUT the optimiser
        omode = spec.get("optimize") if pat != "cat" else None
        users, usnap = progs, None
        if omode in ("explicit", "method"):
            usnap = [er.snapshot(p) for p in users]
            try:
                progs = [p.optimize() if omode == "method" else p.compile(compiler=backend, optimize=True, warn_connected=False)
                         for p in users]
            except Exception as e:  # noqa: BLE001
                ctx.fail(f"optimize-raised:{type(e).__name__}", f"{backend}: {'optimize()' if omode == 'method' else 'compile(optimize=True)'} "
                         f"raised {type(e).__name__}: {e}", rp)
                return
        real = exec_script(sf, spec, progs, script, optimize=(omode == "run"))
        if usnap is not None:
            for i, (a, p) in enumerate(zip(usnap, users)):
                d = er.snap_diff(a, er.snapshot(p))
                if d:
                    ctx.fail("program-mutated:" + ",".join(d) + ":optimize", f"{backend}: {'optimize()' if omode == 'method' else 'compile(optimize=True)'}"
                             f" + run ({pat}) changed {d} of the user's program {i}", rp)
        results[pat] = real
        ctx.tally(f"pattern:{pat}:" + (real["err"] or "ok"))
        # ---- (C) programs untouched, also on the exception path
        ctx.oracle_cases += 1
        for i, d in enumerate(real["snap"]):
            if d:
                ctx.fail("program-mutated:" + ",".join(d) + (":on-error" if real["err"] else ""),
                         f"{backend}: run ({pat}) changed {d} of program {i} (run {'raised ' + real['err'] if real['err'] else 'succeeded'})", rp)
        if not real["args_ok"] or not real["copts_ok"]:
            ctx.fail("run-arguments-mutated", f"{backend}: run changed the caller's " +
                     ("args" if not real["args_ok"] else "compile_options") + " dictionary", rp)
        # ---- (B) model
        if omode:
            ctx.tally("corr:optimised run (call trace not modelled; state compared with the unoptimised reference)")
        elif ctx.proof_ok and modelled(spec):
            reqs.append(model_request(spec, script, real["outcomes"], concat=(pat == "cat")))
            pending.append((dict(case, pattern=pat), real))
    # ---- (C) a measurement with `select` leaves exactly the selected value in its RegRef (concatenated program)
    if "cat" in results and results["cat"]["err"] is None:
        last = {}
        for op in allops:
            if er.kind_of(op["cls"]) == "meas":
                sel = op.get("select")
                sel = sel if isinstance(sel, (list, tuple)) else [sel] * len(op["regs"])
                for r, v in zip(op["regs"], sel):
                    last[r] = v
            elif op["cls"] == "Del":
                for r in op["regs"]:
                    last.pop(r, None)
        lastm = {}
        for op in allops:
            if er.kind_of(op["cls"]) == "meas":
                sel = op.get("select")
                sel = sel if isinstance(sel, (list, tuple)) else [sel] * len(op["regs"])
                lastm.update(dict(zip(op["regs"], sel)))
        want = [lastm[r] for r in sorted(lastm)]
        got = results["cat"]["samples"]
        got = got if got is None else (got[0] if got else [])
        if want and None not in want:
            ctx.oracle_cases += 1
            if got is None or len(got) != len(want) or any(abs(a - b) > 1e-9 for a, b in zip(got, want)):
                ctx.fail("samples-not-selected-values", f"{backend}: Engine.samples is {got}, the selected outcomes (ascending "
                         f"mode order) are {want}", rp)
        vals = results["cat"]["vals"][0]
        for r, v in last.items():
            ctx.oracle_cases += 1
            if v is not None and (vals[r] is None or len(vals[r]) != 1 or abs(vals[r][0] - v) > 1e-9):
                ctx.fail("selected-value-not-stored", f"{backend}: mode {r} was measured with select={v} but its RegRef holds {vals[r]}", rp)
    # ---- (C) can_follow: a program is accepted after another exactly when its initial register (indices AND activity
    # states, deleted subsystems included) is the final register of its predecessor -- in every sequencing pattern
    fol = er.follows(spec)
    for pat in ("list", "seq", "reset", "rerun"):
        if pat not in results:
            continue
        ctx.oracle_cases += 1
        err = results[pat]["err"]
        if not all(fol) and err != "RuntimeError":
            ctx.fail(f"cannot-follow-accepted:{pat}:{backend}", f"{backend}: pattern '{pat}' did not refuse (RuntimeError, register "
                     f"mismatch) a program whose predecessor's final register (indices, activity) differs from the program's "
                     f"initial one (follows={fol}); it " + ("ran it" if err is None else f"went on and raised {err}"), rp)
        if all(fol) and err == "RuntimeError":
            ctx.fail(f"can-follow-rejected:{pat}:{backend}", f"{backend}: pattern '{pat}' rejected a program whose initial register "
                     "equals its predecessor's final register", rp)
    if spec.get("expect_ok"):
        for pat, r in results.items():
            ctx.oracle_cases += 1
            if r["err"] is not None:
                ctx.fail(f"valid-program-raised:{r['err']}:{backend}", f"{backend}: a valid session ({pat}) raised {r['err']}: "
                         + (r["steps"][-1].get("tb") or "")[-200:], rp)
    if spec.get("expect_last_error"):
        # spec-level truth: the last run reads a measured value no program of THIS engine session has produced
        r = results.get("custom")
        ctx.oracle_cases += 1
        if r is not None and r["err"] != spec["expect_last_error"]:
            ctx.fail("stale-measured-value", f"{backend}: a program read q[m].par although mode m was not measured since the engine "
                     f"was created (value left in its RegRef by an earlier engine): expected {spec['expect_last_error']}, got "
                     f"{r['err'] or 'a successful run'}", rp)
        return
    if spec.get("noncomparable"):
        ctx.tally("oracle:run-option session (patterns differ by design)")
        # documented rule: keyword > run_options of the programs (later programs of a list overwrite earlier ones) > 1;
        # a state object for modes=None (all modes) or a non-empty selection (exactly those modes, in that order)
        kwo, ps, order = spec.get("run_kw") or {}, spec.get("prog_shots") or [None] * k, er.run_order(spec)
        def eff(ids):
            v = kwo.get("shots")
            for i in ids:
                v = v if kwo.get("shots") is not None else (ps[i] if ps[i] is not None else v)
            return 1 if v is None else v
        for pat, groups in (("list", [order]), ("seq", [[i] for i in order])):
            r = results.get(pat)
            if r is None:
                continue
            for ids, step in zip(groups, r["steps"]):
                want = eff(ids)
                got = {c["shots"] for c in step.get("calls", []) if c["name"].startswith("measure_")}
                ctx.oracle_cases += 1
                if got - {want}:
                    ctx.fail("run-option-shots", f"{backend}: run of programs {ids} ({pat}) measured with shots={sorted(got)}; "
                             f"keyword {kwo.get('shots')}, program run_options {ps} give {want}", rp)
                if "err" not in step:
                    st = [c for c in step["calls"] if c["name"] == "state"]
                    m = kwo.get("modes")
                    want_state = [] if m == [] else [list(m) if m is not None else []]
                    if [c["modes"] for c in st] != want_state:
                        ctx.fail("run-option-modes", f"{backend}: run(modes={m}) queried the state for {[c['modes'] for c in st]}", rp)
        return
    # ---- (C) the three patterns (+ reset, re-run) end in the same state
    if unmeasured_read(spec):
        ctx.tally("oracle:ill-formed (reads an unmeasured value)")
        return
    if any(er.kind_of(o["cls"]) == "meas" and o.get("select") is None for s_ in spec["segs"] for o in s_):
        ctx.tally("oracle:random outcomes (states not compared)")
        return
    ne = sum(1 for s in spec["segs"] if s)

    def sig_for(a, b):
        if backend == "bosonic" and "cat" in (a, b) and later_nongauss:
            return "bosonic-nongaussian-later-segment"
        return f"compositional:{a}-vs-{b}:{backend}"

    # a post-selection on an outcome of probability zero (e.g. x = 0 on |1>) makes the state NaN in every pattern
    if all(r["state"] is not None and any(np.isnan(x).any() for x in r["state"]) for r in results.values() if r["err"] is None) \
            and any(r["err"] is None for r in results.values()):
        ctx.tally("oracle:NaN state in all patterns (zero-probability post-selection)")
        return
    # truncated Fock space: G(a) G(b) = G(a + b) only up to the cutoff error for active gates, so optimised runs on the
    # fock back end are compared with the unoptimised reference at 5e-3 (parameters are <= 0.25 there)
    tol = 5e-3 if (backend == "fock" and spec.get("optimize")) else STATE_TOL
    later_nongauss = any(o["cls"] in ("Fock", "Catstate") for sg in spec["segs"][1:] for o in sg)
    ref = "cat" if "cat" in results else "list"
    for pat in results:
        if pat == ref:
            continue
        a, b = results[ref], results[pat]
        ctx.oracle_cases += 1
        if (a["err"] is None) != (b["err"] is None) or (a["err"] and a["err"] != b["err"]):
            ctx.fail(sig_for(ref, pat), f"{backend}: pattern '{ref}' {'raises ' + a['err'] if a['err'] else 'succeeds'} but "
                     f"'{pat}' {'raises ' + b['err'] if b['err'] else 'succeeds'}", rp)
            continue
        if a["err"]:
            continue
        d = er.state_dist(a["state"], b["state"])
        if not d < tol:
            ctx.fail(sig_for(ref, pat), f"{backend}: final state of pattern '{pat}' differs from '{ref}' by {d:.3g}", rp)
    # list vs seq must agree on every back end, whatever the defects above
    if "list" in results and "seq" in results and results["list"]["err"] != results["seq"]["err"]:
        ctx.fail(f"compositional:list-vs-seq:{backend}", f"{backend}: run([p..]) " +
                 (f"raises {results['list']['err']}" if results["list"]["err"] else "succeeds") + " but successive runs " +
                 (f"raise {results['seq']['err']}" if results["seq"]["err"] else "succeed"), rp)
    if "list" in results and "seq" in results and results["list"]["err"] is None and results["seq"]["err"] is None:
        d = er.state_dist(results["list"]["state"], results["seq"]["state"])
        if not d < tol:
            ctx.fail(f"compositional:list-vs-seq:{backend}", f"{backend}: run([p..]) and successive runs differ by {d:.3g}", rp)
    # reset: engine attributes
    if "reset" in results and results["reset"]["err"] is None and "list" in results and results["list"]["err"] is None:
        a, b = results["reset"], results["list"]
        if a["run_ids"] != b["run_ids"]:
            ctx.fail("reset-not-fresh:run_progs", f"{backend}: run_progs after reset+run is {a['run_ids']}, fresh engine {b['run_ids']}", rp)


OTHER = {"gaussian": "fock", "fock": "gaussian", "bosonic": "gaussian"}


def cross_backend_check(ctx, sf, spec):
    """the same Program objects run on an engine of one back end and then on an engine of another back end behave, on
    the second, exactly like freshly built programs (nothing of the first run survives in programs or operations)"""
    if unmeasured_read(spec) or not all(er.follows(spec)) or \
            any(er.kind_of(o["cls"]) == "meas" and o.get("select") is None for sg in spec["segs"] for o in sg):
        return
    first, second = spec["backend"], OTHER[spec["backend"]]
    rp = dict(kind="xback", spec=spec)
    order = er.run_order(spec)

    def run_on(backend, progs):
        try:
            res = sf.Engine(backend, backend_options=dict(OPTS[backend])).run([progs[i] for i in order], args=dict(spec["args"]),
                                                                              compile_options=dict(warn_connected=False))
            return None, er.state_data(backend, res.state)
        except Exception as e:  # noqa: BLE001
            return type(e).__name__, None
    cache = {} if spec.get("share") else None
    used = er.build_segments(sf, spec, cache)
    snaps = [er.snapshot(p) for p in used]
    run_on(first, used)
    e1, s1 = run_on(second, used)
    e2, s2 = run_on(second, er.build_segments(sf, spec, {} if spec.get("share") else None))
    ctx.oracle_cases += 1
    ctx.tally(f"xback:{first}->{second}:" + (e1 or "ok"))
    if e1 != e2 or (e1 is None and not er.state_dist(s1, s2) < STATE_TOL):
        ctx.fail(f"history-dependent-program:{first}->{second}", f"programs already run on a {first} engine " +
                 (f"raise {e1}" if e1 else "give a state") + f" on a {second} engine, freshly built ones " +
                 (f"raise {e2}" if e2 else f"give another state (distance {er.state_dist(s1, s2):.3g})" if e1 is None else "run"), rp)
    for i, (a, p) in enumerate(zip(snaps, used)):
        d = er.snap_diff(a, er.snapshot(p))
        if d:
            ctx.fail("program-mutated:" + ",".join(d) + ":two-engines", f"running on a {first} and a {second} engine changed {d} of program {i}", rp)


def flush(ctx, reqs, pending):
    if not reqs:
        return
    for (case, real), model in zip(pending, ctx.lean(reqs)):
        compare_session(ctx, case, real, model)
    reqs.clear()
    pending.clear()


# ------------------------------------------------------------------ reset clears; compile leaves the program alone

def reset_and_compile_checks(ctx, sf, spec):
    backend = spec["backend"]
    rp = dict(kind="session", spec=spec)
    progs = er.build_segments(sf, spec)
    # compile with every simulator compiler: source unchanged (except `locked`), result is a linked copy
    for comp in ("fock", "gaussian", "bosonic"):
        for p in progs:
            before = er.snapshot(p)
            try:
                c = p.compile(compiler=comp, warn_connected=False)
            except Exception:  # noqa: BLE001
                c = None
            d = er.snap_diff(before, er.snapshot(p))
            ctx.oracle_cases += 1
            if d:
                ctx.fail("compile-mutated:" + ",".join(d), f"compile(compiler={comp}) changed {d} of the source program", rp)
            if c is not None and (c.reg_refs is not p.reg_refs or c.free_params is not p.free_params or c.circuit is p.circuit):
                ctx.fail("compile-not-linked-copy", f"compile(compiler={comp}): result does not share RegRefs/free parameters "
                         "with, or shares the circuit list of, its source", rp)
    # the optimiser route, for every simulator compiler and Program.optimize(): sources untouched (values AND identity
    # of every parameter list), same result the second time
    def canon_o(pr):
        return [(type(c.op).__name__, bool(getattr(c.op, "dagger", False)), tuple(r.ind for r in c.reg),
                 tuple(round(par_value(x, ENV_M, ENV_F), 10) if np.ndim(x) == 0 else np.asarray(x).round(10).tobytes() for x in c.op.p))
                for c in pr.circuit]
    for comp in ("fock", "gaussian", "bosonic", None):
        for i, p in enumerate(progs):
            before = er.snapshot(p)
            try:
                o1 = p.optimize() if comp is None else p.compile(compiler=comp, optimize=True, warn_connected=False)
                k1 = canon_o(o1)
                o2 = p.optimize() if comp is None else p.compile(compiler=comp, optimize=True, warn_connected=False)
            except Exception:  # noqa: BLE001   (class unknown to that compiler)
                o1 = None
            d = er.snap_diff(before, er.snapshot(p))
            ctx.oracle_cases += 1
            what = "optimize()" if comp is None else f"compile(compiler={comp}, optimize=True)"
            if d:
                ctx.fail("optimize-mutated:" + ",".join(d), f"{what} changed {d} of the source program {i}", rp)
            elif o1 is not None and canon_o(o2) != k1:
                ctx.fail("optimize-history-dependent", f"{what} gives another circuit the second time", rp)
    # compiling is history independent: the same program compiled twice (with another compiler in between) and the
    # compiled program compiled again give the same circuit; none of these calls changes any of the programs involved
    def canon(pr):
        return [(type(c.op).__name__, bool(getattr(c.op, "dagger", False)), tuple(r.ind for r in c.reg), repr(getattr(c.op, "select", None)),
                 tuple(round(par_value(x, ENV_M, ENV_F), 10) if np.ndim(x) == 0 else repr(x) for x in c.op.p)) for c in pr.circuit]
    for p in progs:
        try:
            c1 = p.compile(compiler=backend, warn_connected=False)
            s1, k1 = er.snapshot(c1), canon(c1)
            other = p.compile(compiler="gaussian" if backend != "gaussian" else "bosonic", warn_connected=False)
            c2 = p.compile(compiler=backend, warn_connected=False)
            c3 = c1.compile(compiler=backend, warn_connected=False)
        except Exception:  # noqa: BLE001  (classes the other compiler does not know)
            continue
        ctx.oracle_cases += 1
        if canon(c2) != k1 or canon(c3) != k1:
            ctx.fail("compile-history-dependent", f"compile(compiler={backend}) gives another circuit the second time / on the "
                     "compiled program", rp)
        if er.snap_diff(s1, er.snapshot(c1)):
            ctx.fail("compile-mutated:compiled-copy", f"a later compile changed {er.snap_diff(s1, er.snapshot(c1))} of an earlier "
                     "compiled copy of the same program", rp)
    # reset clears measured values of all run programs and the run history
    eng = sf.Engine(backend, backend_options=dict(spec["opts"]))
    try:
        eng.run(progs, args=dict(spec["args"]), compile_options=dict(warn_connected=False))
    except Exception:  # noqa: BLE001
        return
    eng.reset()
    ctx.oracle_cases += 1
    left = [(i, r.ind) for i, p in enumerate(progs) for r in p.reg_refs.values() if r.val is not None]
    if left or eng.run_progs or eng.samples is not None:
        ctx.fail("reset-not-fresh:engine", f"{backend}: after reset run_progs={len(eng.run_progs)}, samples={eng.samples}, "
                 f"measured values left on {left}", rp)


# ------------------------------------------------------------------ compile correspondence

def par_value(p, env_m, env_f):
    """numeric value of a (possibly symbolic) parameter after substituting test values for the atoms"""
    from strawberryfields.parameters import FreeParameter, MeasuredParameter, par_is_symbolic
    if not par_is_symbolic(p):
        return float(np.real(p))
    sub = {}
    for a in p.atoms(MeasuredParameter):
        sub[a] = env_m(a.regref.ind)
    for a in p.atoms(FreeParameter):
        sub[a] = env_f(a.name)
    return float(p.subs(sub))


ENV_M = lambda m: 0.37 + 0.11 * m
ENV_F = lambda name: 0.53


def model_par_value(p):
    f = lambda q: q[0] / q[1]
    if "n" in p:
        return f(p["n"][0]) + f(p["n"][1]) * np.pi
    atom = ENV_M(p["m"]) if "m" in p else ENV_F(p["f"])
    return f(p["k"]) * atom + f(p["c"][0]) + f(p["c"][1]) * np.pi


def compile_corr(ctx, sf, spec, reqs, pending):
    if not ctx.proof_ok or not modelled(spec):
        return
    for comp in ("fock", "gaussian", "bosonic"):
        progs = er.build_segments(sf, spec)
        mprogs, _ = er.model_progs(spec)
        for p, mp in zip(progs, mprogs):
            try:
                c = p.compile(compiler=comp, warn_connected=False)
                real = [dict(cls=type(cmd.op).__name__, dagger=bool(getattr(cmd.op, "dagger", False)), regs=[r.ind for r in cmd.reg],
                             pars=[par_value(x, ENV_M, ENV_F) for x in cmd.op.p]) for cmd in c.circuit]
            except Exception as e:  # noqa: BLE001
                real = type(e).__name__
            reqs.append(dict(op="eng.compile", compiler=er.compiler_tables(comp), circuit=mp["circuit"]))
            pending.append((dict(spec=spec, compiler=comp, prog=mp["name"]), real))


def flush_compile(ctx, reqs, pending):
    if not reqs:
        return
    for (case, real), model in zip(pending, ctx.lean(reqs)):
        pair = "Program.compile vs Eng.decompList"
        if "__error__" in model:
            ctx.disagree(pair, case, model, real)
            continue
        if model.get("err") in ("unmodelled", "fuel"):
            ctx.tally("compile:unmodelled")
            continue
        ctx.corr_cases += 1
        if "err" in model or isinstance(real, str):
            if model.get("err") != real:
                ctx.disagree(pair + " (error class)", case, model.get("err", "ok"), real)
            continue
        mc = [dict(cls=c["cls"], dagger=c["dagger"], regs=c["regs"], pars=[model_par_value(p) for p in c["pars"]])
              for c in model["circuit"]]
        ok = len(mc) == len(real) and all(
            a["cls"] == b["cls"] and a["dagger"] == b["dagger"] and a["regs"] == b["regs"] and len(a["pars"]) == len(b["pars"])
            and np.allclose(a["pars"], b["pars"], atol=1e-9) for a, b in zip(mc, real))
        if not ok:
            ctx.disagree(pair, case, mc, real)
    reqs.clear()
    pending.clear()


# ------------------------------------------------------------------ heap level: Gate.apply, Gate.decompose

class FakeBackend:
    """duck-typed back end: records the arguments of the API call and a snapshot of all watched `p` lists
    taken while the call is running; optionally raises"""

    def __init__(self, watch, raises):
        self.watch, self.raises, self.seen, self.during = watch, raises, None, None

    def __getattr__(self, name):
        def call(*a, **kw):
            self.seen = (name, a)
            self.during = [list(o.p) for o in self.watch]
            if self.raises:
                raise RuntimeError("back end failure (injected)")
        return call


def sym_to_model(p):
    """real parameter object -> model Par JSON (numbers and k*atom + c)"""
    from strawberryfields.parameters import FreeParameter, MeasuredParameter, par_is_symbolic
    if not par_is_symbolic(p):
        return dict(n=er.num(p))
    atoms = list(p.atoms(MeasuredParameter)) + list(p.atoms(FreeParameter))
    a = atoms[0]
    k = float(p.coeff(a)) if p != a else 1.0
    c = float(p.subs({a: 0}))
    d = dict(k=er.rat(k), c=er.num(c))
    if isinstance(a, MeasuredParameter):
        d["m"] = a.regref.ind
    else:
        d["f"] = a.name
    return d


def heap_of(objs):
    """model heap of a list of op objects (parameter lists identified by `id(op.p)`)"""
    pls, index = [], {}
    ops_ = []
    for o in objs:
        if id(o.p) not in index:
            index[id(o.p)] = len(pls)
            pls.append([sym_to_model(x) for x in o.p])
        ops_.append(dict(cls=type(o).__name__, pl=index[id(o.p)], dagger=bool(getattr(o, "dagger", False))))
    return dict(ops=ops_, pls=pls)


def heap_apply_cases(ctx, sf, reqs, pending):
    """every natively applied gate class x dagger x (returns | raises) x (plain | aliased with its .H)"""
    from strawberryfields import ops
    prog = sf.Program(3)
    a_par = prog.params("a")
    a_par.val = 0.25                 # bound / measured, so that `_apply` reaches the back end
    prog.reg_refs[2].val = 0.5
    native = ["Dgate", "Sgate", "Rgate", "Vgate", "Kgate", "BSgate", "S2gate", "CKgate"]
    for cls in native:
        two = cls in er.GATES2
        npar = {**er.GATES1, **er.GATES2}[cls]
        for p0 in (0.375, 0.0, "meas", "free"):
            for dagger in (False, True):
                for raises in (False, True):
                    for alias in (False, True):
                        first = {"meas": 2 * prog.reg_refs[2].par, "free": -1 * a_par + 0.5}.get(p0, p0)
                        g = getattr(ops, cls)(*([first] + [0.25] * (npar - 1)))
                        if dagger:
                            g = g.H
                        objs = [g, g.H] if alias else [g]
                        heap = heap_of(objs)
                        fb = FakeBackend(objs, raises)
                        regs = [prog.reg_refs[1], prog.reg_refs[0]] if two else [prog.reg_refs[1]]
                        try:
                            g.apply(regs, fb)
                        except RuntimeError:
                            pass
                        after = heap_of(objs)
                        case = dict(cls=cls, p0=str(p0), dagger=dagger, raises=raises, alias=alias)
                        ctx.count("heap:apply", case, True)
                        # (C) op objects bit-identical after apply, also when the back end raised
                        ctx.oracle_cases += 1
                        if after != heap:
                            ctx.fail("apply-not-restored" + (":on-error" if raises else ""),
                                     f"{cls}{'.H' if dagger else ''}.apply left op.p changed" +
                                     (" after the back end raised" if raises else ""), dict(kind="heap-apply", **case))
                        if ctx.proof_ok:
                            during = None
                            if fb.during is not None:
                                idx, pl2 = {}, []
                                for o, snap in zip(objs, fb.during):
                                    if id(o.p) not in idx:
                                        idx[id(o.p)] = len(pl2)
                                        pl2.append([sym_to_model(x) for x in snap])
                                during = dict(ops=heap["ops"], pls=pl2)
                            reqs.append(dict(op="eng.apply", heap=heap, a=0, raises=raises, restoreOnRaise=True))
                            pending.append((case, dict(during=during, after=after, called=fb.seen is not None)))


def flush_heap_apply(ctx, reqs, pending):
    if not reqs:
        return
    for (case, real), model in zip(pending, ctx.lean(reqs)):
        pair = "Gate.apply vs Eng.gateApplyH"
        ctx.corr_cases += 1
        if "__error__" in model:
            ctx.disagree(pair, case, model, real)
            continue
        if (model["seen"] is not None) != real["called"]:
            ctx.disagree(pair + " (back end called?)", case, model["seen"] is not None, real["called"])
            continue
        if not heaps_equal(model["after"], real["after"]):
            ctx.disagree(pair + " (heap after)", case, model["after"], real["after"])
        if real["during"] is not None and not heaps_equal(model["during"], real["during"]):
            ctx.disagree(pair + " (heap during _apply)", case, model["during"], real["during"])
    reqs.clear()
    pending.clear()


def heaps_equal(a, b):
    if a["ops"] != b["ops"] or len(a["pls"]) != len(b["pls"]):
        return False
    for l1, l2 in zip(a["pls"], b["pls"]):
        if len(l1) != len(l2) or any(abs(model_par_value(x) - model_par_value(y)) > 1e-9 or ("n" in x) != ("n" in y)
                                     for x, y in zip(l1, l2)):
            return False
    return True


def heap_merge_cases(ctx, sf, reqs, pending):
    """Gate.merge / Channel.merge for every class that inherits them x first parameters (equal, opposite, other,
    measured) x dagger combinations x equal / different other parameters x same / other family: operands untouched
    (values and list identity), result = model"""
    from strawberryfields import ops
    from strawberryfields.program_utils import MergeFailure
    prog = sf.Program(3)
    prog.reg_refs[2].val = 0.5
    gates = ["Dgate", "Sgate", "Rgate", "BSgate", "S2gate", "Kgate", "Vgate", "CKgate", "Xgate", "Zgate", "Pgate", "CXgate", "CZgate"]
    chans = ["LossChannel", "ThermalLossChannel"]
    mk = lambda v: {"meas": 2 * prog.reg_refs[2].par, "measneg": -2 * prog.reg_refs[2].par}.get(v, v)
    for cls in gates + chans:
        chan = cls in chans
        npar = {**er.GATES1, **er.GATES2, **er.CHANNELS}[cls]
        firsts = [(0.5, 0.25), (0.5, 2.0), (1.0, 1.0)] if chan else \
            [(0.375, 0.25), (0.375, -0.375), (0.375, 0.375), ("meas", "meas"), ("meas", "measneg"), ("meas", 0.25)]
        for fa, fb in firsts:
            for da, db in ([(False, False)] if chan else [(False, False), (False, True), (True, False), (True, True)]):
                for same_rest in (True, False):
                    for other_family in (False, True):
                        if npar == 1 and not same_rest:
                            continue
                        A = getattr(ops, cls)(*([mk(fa)] + [0.25] * (npar - 1)))
                        clsb = ("LossChannel" if cls != "LossChannel" else "ThermalLossChannel") if (chan and other_family) else \
                            (("Rgate" if cls != "Rgate" else "Kgate") if other_family else cls)
                        nb = {**er.GATES1, **er.GATES2, **er.CHANNELS}[clsb]
                        B = getattr(ops, clsb)(*([mk(fb)] + [0.25 if same_rest else 0.5] * (nb - 1)))
                        if da:
                            A = A.H
                        if db:
                            B = B.H
                        case = dict(cls=cls, other=clsb, a=str(fa), b=str(fb), da=da, db=db, same_rest=same_rest)
                        ctx.count("heap:merge", case, True)
                        before = heap_of([A, B])
                        ids = (id(A.p), id(B.p), [id(x) for x in A.p], [id(x) for x in B.p])
                        try:
                            r = A.merge(B)
                            real = "identity" if r is None else heap_of([A, B, r])
                        except MergeFailure:
                            r, real = None, "failure"
                        except Exception as e:  # noqa: BLE001
                            ctx.fail(f"merge-raised:{type(e).__name__}", f"{cls}.merge({clsb}) raised {type(e).__name__}: {e}", dict(kind="heap-merge", **case))
                            continue
                        ctx.oracle_cases += 1
                        if heap_of([A, B]) != before or ids != (id(A.p), id(B.p), [id(x) for x in A.p], [id(x) for x in B.p]):
                            ctx.fail("merge-mutated-operand", f"{cls}{'.H' if da else ''}.merge({clsb}{'.H' if db else ''}) changed one of its "
                                     "operands (merge must never modify self or other)", dict(kind="heap-merge", **case))
                        if r is not None and (r.p is A.p or r.p is B.p) and r is not A and r is not B:
                            ctx.fail("merge-result-shares-parameter-list", f"{cls}.merge: the new operation shares its parameter list with an "
                                     "operand", dict(kind="heap-merge", **case))
                        if ctx.proof_ok:
                            reqs.append(dict(op="eng.merge", heap=before, a=0, b=1, channel=chan))
                            pending.append((case, real))


def flush_heap_merge(ctx, reqs, pending):
    if not reqs:
        return
    for (case, real), model in zip(pending, ctx.lean(reqs)):
        pair = "Gate/Channel.merge vs Eng.gateMergeH/channelMergeH"
        if "__error__" in model:
            ctx.disagree(pair, case, model, real)
            continue
        res = model["res"]
        if res == "unmodelled":
            ctx.tally("merge:unmodelled")
            continue
        ctx.corr_cases += 1
        if isinstance(res, str) or isinstance(real, str):
            if res != real:
                ctx.disagree(pair + " (outcome)", case, res, real if isinstance(real, str) else "merged")
            continue
        if res["merged"] != 2 or not heaps_equal(model["heap"], real):
            ctx.disagree(pair + " (heap)", case, model["heap"], real)
    reqs.clear()
    pending.clear()


def canon_seq(objs_seq):
    """sequence of (op, regs) -> identity structure: objects and parameter lists numbered by first appearance"""
    oi, pi, out = {}, {}, []
    for o, regs in objs_seq:
        oi.setdefault(id(o), len(oi))
        pi.setdefault(id(o.p), len(pi))
        out.append([type(o).__name__, bool(o.dagger), list(regs), oi[id(o)], pi[id(o.p)]])
    return out


def heap_decompose_cases(ctx, sf, reqs, pending):
    from strawberryfields import ops
    prog = sf.Program(3)
    dec = ["Xgate", "Zgate", "Pgate", "Fouriergate", "MZgate", "sMZgate", "S2gate", "CXgate", "CZgate"]
    for cls in dec:
        two = cls in er.GATES2
        npar = {**er.GATES1, **er.GATES2}[cls]
        for dagger in (False, True):
            for p0 in (0.375, "meas"):
                if npar == 0 and p0 == "meas":
                    continue
                first = 2 * prog.reg_refs[2].par if p0 == "meas" else p0
                g = getattr(ops, cls)(*([first] + [0.25] * (npar - 1))[:npar])
                if dagger:
                    g = g.H
                regs = [prog.reg_refs[1], prog.reg_refs[0]] if two else [prog.reg_refs[1]]
                # template: identity structure of the products of `_decompose`
                tseq = g._decompose(regs)
                distinct, news, cmds = {}, [], []
                plists = {}
                for cmd in tseq:
                    o = cmd.op
                    if id(o) not in distinct:
                        distinct[id(o)] = len(news)
                        n = dict(cls=type(o).__name__, dagger=bool(o.dagger))
                        if id(o.p) in plists:
                            n["share"] = plists[id(o.p)]
                        else:
                            plists[id(o.p)] = len(news)
                            n["pars"] = [dict(n=er.num(0))] * len(o.p)
                        news.append(n)
                    cmds.append(dict(i=distinct[id(o)], regs=[r.ind for r in cmd.reg]))
                before = heap_of([g])
                snap_p = (id(g.p), [id(x) for x in g.p], g.dagger)
                seq = g.decompose(regs)
                real = canon_seq([(c.op, [r.ind for r in c.reg]) for c in seq])
                case = dict(cls=cls, dagger=dagger, p0=str(p0))
                ctx.count("heap:decompose", case, True)
                ctx.oracle_cases += 1
                if heap_of([g]) != before or snap_p != (id(g.p), [id(x) for x in g.p], g.dagger) or any(c.op is g for c in seq):
                    ctx.fail("decompose-mutated-input", f"{cls}{'.H' if dagger else ''}.decompose changed its own object",
                             dict(kind="heap-decompose", **case))
                # semantic sanity of the in-place flips: daggered decomposition = reversed products with flipped flags
                plain = canon_seq([(c.op, [r.ind for r in c.reg]) for c in tseq])
                if dagger:
                    want = [[c[0], not c[1], c[2]] for c in reversed(plain)]
                    if [[c[0], c[1], c[2]] for c in real] != want:
                        ctx.fail("decompose-dagger-wrong", f"{cls}.H.decompose is not the reversed, flag-flipped product list",
                                 dict(kind="heap-decompose", **case))
                if ctx.proof_ok:
                    reqs.append(dict(op="eng.decompose", heap=before, a=0, tmpl=dict(news=news, cmds=cmds)))
                    pending.append((case, real))


def flush_heap_decompose(ctx, reqs, pending):
    if not reqs:
        return
    for (case, real), model in zip(pending, ctx.lean(reqs)):
        pair = "Gate.decompose vs Eng.gateDecomposeH"
        ctx.corr_cases += 1
        if "__error__" in model:
            ctx.disagree(pair, case, model, real)
            continue
        ops_ = model["heap"]["ops"]
        oi, pi, mc = {}, {}, []
        for addr, regs in model["seq"]:
            o = ops_[addr]
            oi.setdefault(addr, len(oi))
            pi.setdefault(o["pl"], len(pi))
            mc.append([o["cls"], o["dagger"], regs, oi[addr], pi[o["pl"]]])
        if mc != real or ops_[0] != dict(cls=case["cls"], pl=0, dagger=case["dagger"]):
            ctx.disagree(pair, case, mc, real)
    reqs.clear()
    pending.clear()


# ------------------------------------------------------------------ daggered native application is the inverse

def dagger_inverse_checks(ctx, sf):
    """G followed by G.H (the SAME operation object and its .H, on modes (1, 0)) is the identity for every gate class a
    back end applies natively or through its decomposition -- the rule "dagger = inverse", not "negate p[0]" """
    from strawberryfields import ops
    dec = ["MZgate", "S2gate", "Xgate", "Zgate", "Pgate", "CXgate", "CZgate", "Fouriergate"]
    for backend, classes in (("gaussian", ["Dgate", "Sgate", "Rgate", "BSgate", "sMZgate"] + dec),
                             ("bosonic", ["Dgate", "Sgate", "Rgate", "BSgate"] + dec),
                             ("fock", ["Dgate", "Sgate", "Rgate", "BSgate", "Kgate", "Vgate", "CKgate", "sMZgate"] + dec)):
        for cls in classes:
            two = cls in er.GATES2
            npar = {**er.GATES1, **er.GATES2}[cls]
            pars = [0.3, 0.45][:npar] if cls in ("MZgate", "sMZgate", "BSgate", "Rgate", "Kgate", "CKgate") else [0.1, 0.45][:npar]
            opts = {"cutoff_dim": 10} if backend == "fock" else {}

            def build(with_gate):
                p = sf.Program(2)
                with p.context as q:
                    ops.Coherent(0.3, 0.2) | q[0]
                    ops.Coherent(0.2, -0.4) | q[1]
                    if with_gate:
                        g = getattr(ops, cls)(*pars)
                        g | ((q[1], q[0]) if two else q[1])
                        g.H | ((q[1], q[0]) if two else q[1])
                return p
            rp = dict(kind="dagger", backend=backend, cls=cls)
            ctx.oracle_cases += 1
            ctx.count("dagger-inverse", dict(backend=backend, cls=cls), True)
            try:
                s0 = er.state_data(backend, sf.Engine(backend, backend_options=opts).run(build(False)).state)
                s1 = er.state_data(backend, sf.Engine(backend, backend_options=opts).run(build(True)).state)
            except Exception as e:  # noqa: BLE001
                ctx.fail(f"dagger-run-raised:{cls}:{backend}", f"{backend}: running {cls}; {cls}.H raised {type(e).__name__}: {e}", rp)
                continue
            d = er.state_dist(s0, s1)
            if not d < 1e-3:
                ctx.fail(f"dagger-not-inverse:{cls}:{backend}", f"{backend}: {cls}(..) followed by {cls}(..).H changes the state by {d:.3g}", rp)


# ------------------------------------------------------------------ time-domain programs through the engine

TDM_ARRIVALS = ["rolled", "unroll", "unroll2", "space", "space2"]
TDM_OPTIONS = [{}, dict(space_unroll=True), dict(shots=1), dict(shots=2), dict(crop=True), dict(space_unroll=True, crop=True),
               dict(space_unroll=True, shots=2)]


def tdm_full_snapshot(t13, prog):
    """everything the user can see of a TDMProgram: circuits (canonical + object identities), rolled / unrolled /
    space-unrolled caches, register, reg_refs (keys, activity), subsystem counts, unroll flags and shot count,
    tdm_params, loop variables, options"""
    d = t13.snapshot(prog)
    d.update(register=[int(r.ind) for r in prog.register], num_subsystems=int(prog.num_subsystems),
             is_unrolled=bool(prog.is_unrolled), timebins=int(prog.timebins), N=[int(x) for x in prog.N],
             tdm_params=[[t13.canon_par(v) for v in a] for a in prog.tdm_params], loop_vars=[str(v) for v in prog.loop_vars],
             run_options=repr(prog.run_options), backend_options=repr(prog.backend_options),
             circuit_ids=None if prog.circuit is None else [(id(c), id(c.op), id(c.op.p)) for c in prog.circuit],
             rolled_ids=None if prog.rolled_circuit is None else [(id(c), id(c.op), id(c.op.p), tuple(map(repr, c.op.p)))
                                                                 for c in prog.rolled_circuit],
             reg_ref_ids=[(int(k), id(r)) for k, r in prog.reg_refs.items()],
             init_reg_refs=[(int(k), bool(r.active)) for k, r in prog.init_reg_refs.items()],
             unused=sorted(int(x) for x in prog.unused_indices))
    return d


def tdm_one(ctx, sf, t13, spec, arrival, kw, share):
    """one (arrival state, run options) combination: three runs (same engine, same engine after reset, new engine); the
    user's program must be exactly as the user left it after each of them, and the engine's record of the run program
    must not grow from run to run"""
    rp = dict(kind="tdm", spec=spec, arrival=arrival, kw=kw, share=share)
    ctx.count("tdm", dict(N=spec["N"], arrival=arrival, kw=kw), True)
    ctx.oracle_cases += 1
    sel_ok = kw.get("shots", 1) == 1 and not arrival.endswith("2")
    spec = dict(spec, ops=[dict(o, s=(o.get("s") if sel_ok else None)) for o in spec["ops"]])
    try:
        prog = t13.build(sf, spec, share=share)
        if arrival.startswith("unroll"):
            prog.unroll(shots=2 if arrival.endswith("2") else 1)
        elif arrival.startswith("space"):
            prog.space_unroll(shots=2 if arrival.endswith("2") else 1)
    except Exception as e:  # noqa: BLE001
        ctx.fail(f"tdm-build-raised:{type(e).__name__}", f"building a TDMProgram ({arrival}) raised {type(e).__name__}: {e}", rp)
        return
    before = tdm_full_snapshot(t13, prog)
    before["locked"] = True          # running locks the program (documented)
    eng = sf.Engine("gaussian")
    first, rec = None, []
    for k, how in enumerate(("first run", "second run after reset", "third run on a new engine")):
        if k == 1:
            try:
                eng.reset()
            except Exception:  # noqa: BLE001   (nothing was initialised when the first run was refused)
                eng = sf.Engine("gaussian")
        if k == 2:
            eng = sf.Engine("gaussian")
        try:
            r = eng.run(prog, **kw)
            out = ("ok", np.asarray(r.samples, dtype=float))
            rec.append((len(eng.run_progs[-1].circuit), sorted(int(x) for x in eng.run_progs[-1].reg_refs), len(eng.run_progs)))
        except Exception as e:  # noqa: BLE001
            out = (type(e).__name__, None)
        after = tdm_full_snapshot(t13, prog)
        d = sorted(kk for kk in before if before[kk] != after[kk])
        if d:
            ctx.fail("tdm-program-mutated:" + ",".join(d), f"{how} of a TDMProgram that arrived '{arrival}' with options {kw} "
                     f"({out[0]}) changed {d}: e.g. {d[0]} {str(before[d[0]])[:80]} -> {str(after[d[0]])[:80]}", rp)
            return
        if first is None:
            first = out
        elif out[0] != first[0] or (out[1] is not None and (out[1].shape != first[1].shape or
                                                              (sel_ok and not np.allclose(out[1], first[1], atol=1e-9)))):
            ctx.fail("tdm-rerun-differs", f"{how} of a TDMProgram ('{arrival}', {kw}): {out[0]} "
                     f"{None if out[1] is None else out[1].shape} vs first run {first[0]} {None if first[1] is None else first[1].shape}", rp)
            return
    if len(set(map(repr, rec))) > 1:
        ctx.fail("tdm-run_progs-grow", f"Engine.run_progs[-1] of a TDMProgram ('{arrival}', {kw}) differs from run to run "
                 f"(commands, reg_refs keys, length): {rec}", rp)


def tdm_checks(ctx, sf, rng):
    """TDM path of the engine (`get_tdm_options`, unroll / space-unroll by the engine, roll-back), ENUMERATED: arrival
    state in {rolled, unroll(), unroll(shots=2), space_unroll(), space_unroll(shots=2)} x run options in {default,
    space_unroll, shots 1 / 2, crop, space_unroll+crop, space_unroll+shots 2} x three runs."""
    from lib import tdm_c13 as t13
    specs = []
    for N in ([2], [1, 2]) if ctx.tier == "quick" else ([1], [2], [1, 2], [2, 1]):
        C = sum(N)
        T = 2 if ctx.tier == "quick" else rng.randint(2, 3)
        sel = rng.choice([0.25, -0.5, 0.125])
        ops_ = [dict(cls="Sgate", regs=[C - 1], pars=["p0", 0.0]), dict(cls="Rgate", regs=[C - 1], pars=["p1"], d=rng.random() < 0.5)]
        if C >= 2:
            ops_.append(dict(cls="BSgate", regs=[C - 2, C - 1], pars=[0.375, "p1"], d=rng.random() < 0.5))
        ops_.append(dict(cls="MeasureHomodyne", regs=[0], pars=[0.0 if rng.random() < 0.5 else "p1"], s=sel))
        for b in t13.band_starts(N)[1:]:
            ops_.append(dict(cls="MeasureHomodyne", regs=[b], pars=[0.25], s=sel))
        specs.append(dict(N=N, shift="default", T=T, ops=ops_,
                          params=[[round(0.1 * (i + 1), 3) for i in range(T)], [round(0.2 * (i + 1) - 0.3, 3) for i in range(T)]]))
    for si, spec in enumerate(specs):
        for arrival in TDM_ARRIVALS:
            for kw in TDM_OPTIONS:
                tdm_one(ctx, sf, t13, spec, arrival, dict(kw), share=bool((si + len(arrival)) % 2))


# ------------------------------------------------------------------ corpus, run, replay

def corpus(sf):
    import json
    from lib import core
    out = []
    for f in sorted((core.VERIF / "corpus" / "C09").glob("*.json")):
        out.append(json.loads(f.read_text()))
    return out


def run(ctx, sf):
    reqs, pending, creqs, cpending = [], [], [], []
    for spec in corpus(sf):
        one_session(ctx, sf, spec, reqs, pending)
    flush(ctx, reqs, pending)
    # heap level and dagger rule (deterministic enumerations)
    hr, hp = [], []
    heap_apply_cases(ctx, sf, hr, hp)
    flush_heap_apply(ctx, hr, hp)
    heap_decompose_cases(ctx, sf, hr, hp)
    flush_heap_decompose(ctx, hr, hp)
    heap_merge_cases(ctx, sf, hr, hp)
    flush_heap_merge(ctx, hr, hp)
    dagger_inverse_checks(ctx, sf)
    rng = ctx.rng
    tdm_checks(ctx, sf, rng)
    n = ctx.n(24, 400)
    for k in range(n):
        for backend in ("gaussian", "fock", "bosonic"):
            spec = gen_session(rng, backend, cross=(k % 4 == 3))
            if k % 8 == 5 and backend == "bosonic":
                spec = gen_bosonic_nongauss(rng)
            if k % 6 == 5 and backend != "bosonic":
                spec = gen_mismatch(rng, backend)
            if k % 6 == 2 and backend != "bosonic":
                spec = gen_evolving(rng, backend)
            if k % 6 == 1 and backend != "bosonic":
                spec = gen_history(rng, backend)
            if k % 6 == 4:
                spec = gen_runopts(rng, backend)
            if k % 6 == 3:
                spec = gen_optimize(rng, backend)
            if k % 6 == 0:
                spec = gen_handover_index(rng, backend) if (k // 6) % 2 == 0 else gen_arrays(rng, backend)
            one_session(ctx, sf, spec, reqs, pending)
            if k % 3 == 1:
                cross_backend_check(ctx, sf, spec)
            if k % 2 == 0 or spec.get("optimize"):
                reset_and_compile_checks(ctx, sf, spec)
                compile_corr(ctx, sf, spec, creqs, cpending)
        if len(reqs) > 400:
            flush(ctx, reqs, pending)
    flush(ctx, reqs, pending)
    flush_compile(ctx, creqs, cpending)


def search(ctx, sf):
    run(ctx, sf)


def replay(ctx, rp):
    import strawberryfields as sf
    n0 = len(ctx.failures)
    ctx.proof_ok = False
    if rp["kind"] == "tdm":
        from lib import tdm_c13 as t13
        tdm_one(ctx, sf, t13, rp["spec"], rp.get("arrival", "rolled"), dict(rp.get("kw") or {}), bool(rp.get("share")))
    elif rp["kind"] == "xback":
        cross_backend_check(ctx, sf, rp["spec"])
    elif rp["kind"] == "session":
        one_session(ctx, sf, rp["spec"], [], [])
        reset_and_compile_checks(ctx, sf, rp["spec"])
    elif rp["kind"] == "heap-apply":
        heap_apply_cases(ctx, sf, [], [])
    elif rp["kind"] == "heap-merge":
        heap_merge_cases(ctx, sf, [], [])
    elif rp["kind"] == "heap-decompose":
        heap_decompose_cases(ctx, sf, [], [])
    else:
        dagger_inverse_checks(ctx, sf)
    return len(ctx.failures) > n0
