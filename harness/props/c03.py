"""C03 — circuit optimisation never changes what a program computes.

(a) correspondence: `Program.optimize()` (= program_utils.optimize_circuit) against the model's optimised grid
    (`opt.rows`, compared per wire) and the proved output checker (`opt.check`), and `Operation.merge` of every
    operation family against `opt.merge`;
(b) property-level oracle on the real code: original vs `optimize()` and `compile(optimize=False)` vs
    `compile(optimize=True)` executed on the gaussian and fock backends, states compared; the merge rule of
    every class executed as "a then b" vs "merged" on a correlated input state; deep snapshots of the original
    program and its operation objects around `optimize()` / `compile(optimize=True)`;
(c) replay of any failing input."""
import copy
import itertools
import json
import warnings
from pathlib import Path

import numpy as np

from lib import optgen as og

RULE = ("circuits over 1-5 modes, 2-16 commands, generated so that neighbouring operations on a wire often belong "
        "to the same family: exact cancellations (a,-a), near cancellations (a,-a+2^-22; T=1-2^-21), gate/daggered "
        "gate pairs, equal and different tail parameters, channels (T1*T2, T=1), thermal loss at equal/unequal nbar, "
        "consecutive preparations, preparation followed by gates, single-mode matrix operations, free-parameter "
        "multiples (x,-x), measured-parameter gates, two-mode gates on equal and on swapped targets, all interleaved "
        "with operations on other modes.  A case is non-trivial when the optimiser changed the circuit (>=1 merge or "
        "cancellation) and the circuit touches >=2 modes; distinct = distinct specs.")
ASSUMPTIONS = [
    "optimize_sem is about every monoid interpretation satisfying Lawful (additive gate families with dagger = "
    "negation, multiplicative channels, matrix families, preparation absorption) in which commands on disjoint "
    "wires commute; that the physical semantics of the listed families satisfies these laws is validated "
    "numerically by the merge-law oracle on the gaussian and fock backends, not proved here (K3)",
    "Operation.__or__ enforces len(reg) == op.ns (well-formedness hypothesis WFc of the theorems)",
    "parameter sums outside the fragment {number, k*symbol} (two different symbols) are not modelled; the "
    "generator keeps correspondence cases inside the fragment, the oracle also covers the rest",
]
TRUSTED = ["modelled: program_utils.optimize_circuit, ops.{Gate,Channel,Preparation,Decomposition,Fouriergate}.merge, "
           "class table (rule, ns) regenerated from ops.py and checked against the model's table by `decide`",
           "NetworkX topological sort only trusted to return a list: every returned list is validated by the "
           "proved checker isOptOutput"]

CORPUS = Path(__file__).resolve().parents[2] / "corpus" / "C03"
X_VALUE = 0.25       # value bound to the free parameter "x" when a program is executed


# ------------------------------------------------------------------ canonical views of real objects

def canon_cmd(cmd, ident, names):
    return og.real_op_to_cmd(cmd.op, [r.ind for r in cmd.reg], ident, names)


def rows_of(cmds_json):
    rows = {}
    for c in cmds_json:
        for w in dict.fromkeys(list(c["regs"]) + list(c["deps"])):
            rows.setdefault(w, []).append(c)
    return rows


def snapshot(prog):
    """everything optimisation must leave alone: the command list, the identity and content of every
    Command / Operation / RegRef object, the register"""
    import sympy
    snap = []
    for c in prog.circuit:
        ps = []
        for v in c.op.p:
            if isinstance(v, np.ndarray):
                ps.append(("arr", id(v), v.shape, v.tobytes()))
            elif isinstance(v, sympy.Expr):
                ps.append(("sym", sympy.srepr(v)))
            else:
                ps.append(("num", repr(v)))
        extra = tuple(sorted((k, repr(v)) for k, v in vars(c.op).items()
                             if k not in ("p", "_measurement_deps") and not isinstance(v, np.ndarray)))
        snap.append((id(c), id(c.op), type(c.op).__name__, id(c.op.p), tuple(ps), extra,
                     tuple((id(r), r.ind, r.active, repr(r.val)) for r in c.reg)))
    reg = tuple((id(r), r.ind, r.active, repr(r.val)) for r in prog.reg_refs.values())
    return (tuple(snap), reg, tuple(sorted(prog.free_params)), prog.num_subsystems if hasattr(prog, "num_subsystems") else None)


# ------------------------------------------------------------------ (a) correspondence: optimiser

def real_optimize(prog):
    with warnings.catch_warnings():
        warnings.simplefilter("ignore")
        return prog.optimize()


OP_CACHE = {}       # operation instances shared within and across programs (half of the specs)
SUSPECTS = []       # specs on which the optimiser and the model disagree: inputs for the directed oracle


def directed(ctx, sf, rng):
    """the model proves the optimised grid equivalent on EVERY input state; where the real optimiser returns another
    grid, execute that spec directedly: fresh engine and as a later segment after an entangling preparation segment,
    on the gaussian or fock back end, through optimize() and the compile option"""
    seen = set()
    while SUSPECTS and len(seen) < 25 and ctx.dist.get("directed_oracle", 0) < 60 and ctx.dist.get("directed_oracle_hit", 0) < 4:
        spec = SUSPECTS.pop(0)
        key = json.dumps(spec, sort_keys=True)
        if key in seen:
            continue
        seen.add(key)
        n0 = len(ctx.failures)
        fl = flavour_of(spec)
        if any(isinstance(p, dict) and "m" in p for o in spec["ops"] for p in o.get("pars", [])):
            pres = [None]
        else:
            pres = [None, og.pre_segment(rng, spec["n"], fl == "gaussian")]
        for pre in pres:
            try:
                oracle_program(ctx, sf, spec, fl, None, None, True, False, False, pre=pre,
                               compilers=["fock"] if fl == "fock" else ["gaussian", "fock"])
            except Exception as e:
                ctx.fail(f"oracle-raises:{type(e).__name__}", f"executing the programs raised {type(e).__name__}: {str(e)[:200]}",
                         dict(kind="program", spec=spec, backend=fl, how="optimize", pre=pre))
        ctx.tally("directed_oracle", 1)
        if len(ctx.failures) > n0:
            ctx.tally("directed_oracle_hit", 1)
    del SUSPECTS[200:]


def linked_copy_contract(prog, opt):
    """documented behaviour of Program._linked_copy / Program.optimize: the copy shares the RegRefs and the free
    parameters with the original, both are locked, the copy links to its source, other attributes are copies"""
    bad = []
    if set(opt.reg_refs) != set(prog.reg_refs) or any(opt.reg_refs[k] is not prog.reg_refs[k] for k in prog.reg_refs):
        bad.append("RegRefs are not shared")
    if [(r.ind, r.active) for r in opt.register] != [(r.ind, r.active) for r in prog.register]:
        bad.append("register differs")
    if not (prog.locked and opt.locked):
        bad.append("original / copy not locked")
    if opt.source is not (prog.source if prog.source is not None else prog):
        bad.append("source link wrong")
    if set(opt.free_params) != set(prog.free_params) or any(opt.free_params[k] is not prog.free_params[k] for k in prog.free_params):
        bad.append("free parameters not shared")
    if opt.circuit is prog.circuit:
        bad.append("circuit list object is shared")
    if opt.name != prog.name or opt.num_subsystems != prog.num_subsystems or opt.init_num_subsystems != prog.init_num_subsystems:
        bad.append("name / subsystem counts differ")
    return bad


def corr_optimizer(ctx, spec, batch, shared_ops=False):
    """run Program.optimize() on the spec, queue the model requests; returns the optimised program"""
    l = og.spec_to_cmds(spec)
    prog, cmds = og.build(spec, op_cache=OP_CACHE if shared_ops else None)
    names = og.free_names(spec)
    before = snapshot(prog)
    ctx.oracle_cases += 1
    try:
        opt = real_optimize(prog)
    except Exception as e:
        ctx.fail(f"optimize-raises:{type(e).__name__}", f"Program.optimize() raised {type(e).__name__}: {str(e)[:200]}",
                 dict(kind="purity", spec=spec, how="optimize", shared=shared_ops))
        return prog, None
    try:
        after = snapshot(prog)
        if before != after:
            ctx.fail("optimize-mutates-original", "Program.optimize() modified the original program or its operation objects",
                     dict(kind="purity", spec=spec, how="optimize", shared=shared_ops))
        for why in linked_copy_contract(prog, opt):
            ctx.fail("linked-copy:" + why, f"Program.optimize(): {why}", dict(kind="purity", spec=spec, how="optimize", shared=shared_ops))
        # parameter lists of newly created operations must not alias those of any original operation or of each other
        orig_ops = {id(c.op) for c in cmds}
        plists = {id(c.op.p): c for c in cmds}
        seen = {}
        for c in opt.circuit:
            if id(c.op) in orig_ops:
                continue
            if id(c.op.p) in plists or (id(c.op.p) in seen and seen[id(c.op.p)] is not c.op):
                ctx.fail("merged-op-aliases-parameter-list", f"the parameter list of the new operation {c.op} is shared with another operation",
                         dict(kind="purity", spec=spec, how="optimize", shared=shared_ops))
            seen[id(c.op.p)] = c.op
        shared = [c for c in opt.circuit if id(c.op) in orig_ops]
        ctx.tally("shared_op_objects", len(shared))
        if l is None:
            ctx.tally("corr_skipped_outside_fragment")
            return prog, opt
        ident = {id(c): i for i, c in enumerate(cmds)}
        B = len(cmds)
        try:
            out = [canon_cmd(c, ident.get(id(c), -1), names) for c in opt.circuit]
        except ValueError as e:
            # the input is inside the model's parameter fragment, so the model predicts an output inside it
            ctx.disagree("K1.optGrid vs optimize_circuit (output parameter outside the modelled fragment)", spec,
                         "parameters of the form number or k*symbol", str(e))
            return prog, opt
        # an original Command object must be carried over untouched
        for c in out:
            if c["id"] >= 0 and c != l[c["id"]]:
                ctx.fail("optimize-edits-command", f"command {c['id']} of the original circuit appears altered in the output",
                         dict(kind="purity", spec=spec, how="optimize", shared=shared_ops))
        # history independence: a second optimize() of the same program, and optimize() of the optimised
        # program (the loop reaches a fixpoint), give the same rows
        view = lambda circ: {w: [og.strip_id(c) for c in r] for w, r in
                             rows_of([canon_cmd(c, 0, names) for c in circ]).items()}
        first = view(opt.circuit)
        again = view(real_optimize(prog).circuit)
        if again != first:
            ctx.fail("optimize-twice-differs", "a second Program.optimize() of the same program returned a different circuit",
                     dict(kind="purity", spec=spec, how="optimize", shared=shared_ops))
        fix = view(real_optimize(opt).circuit)
        if fix != first:
            ctx.fail("optimize-not-idempotent", "optimising the optimised program changed it again (or changed the first result)",
                     dict(kind="purity", spec=spec, how="optimize", shared=shared_ops))
        if snapshot(prog) != before:
            ctx.fail("optimize-mutates-original", "a later optimize() call modified the original program",
                     dict(kind="purity", spec=spec, how="optimize", shared=shared_ops))
        batch.append(dict(spec=spec, l=l, out=out, B=B))
    except Exception as e:
        ctx.fail(f"optimize-output-unusable:{type(e).__name__}", f"inspecting the result of optimize() raised {type(e).__name__}: {str(e)[:200]}",
                 dict(kind="purity", spec=spec, how="optimize", shared=shared_ops))
    return prog, opt


def flush_optimizer(ctx, batch):
    if not batch or not ctx.proof_ok:
        batch.clear()
        return
    res = ctx.lean([dict(op="opt.rows", l=b["l"], B=b["B"]) for b in batch])
    checks = []
    for b, model in zip(batch, res):
        ctx.corr_cases += 1
        if isinstance(model, dict) and "__error__" in model:
            ctx.disagree("K1.optGrid vs optimize_circuit", b["spec"], model, "model error")
            continue
        mrows = {w: row for w, row in model}
        rrows = rows_of(b["out"])
        ok = True
        for w in sorted(set(mrows) | set(rrows)):
            mr, rr = mrows.get(w, []), rrows.get(w, [])
            if len(mr) != len(rr):
                ok = False
                break
            for m, r in zip(mr, rr):
                if m["id"] < b["B"] or r["id"] >= 0:
                    if m["id"] != r["id"]:
                        ok = False
                elif not og.cmd_close(m, r):
                    ok = False
                else:
                    r["id"] = m["id"]          # give the new Command the identity the model assigned
                    r["pars"] = m["pars"]      # ... and the exact value of the rounded float parameters
            if not ok:
                break
        if not ok:
            SUSPECTS.append(b["spec"])
            ctx.disagree("K1.optGrid vs optimize_circuit (per wire)", b["spec"],
                         {str(w): [[c["id"], c["cls"], c["pars"], c["dagger"]] for c in r] for w, r in mrows.items()},
                         {str(w): [[c["id"], c["cls"], c["pars"], c["dagger"]] for c in r] for w, r in rrows.items()})
            continue
        checks.append(b)
    if SUSPECTS:
        import strawberryfields as _sf
        directed(ctx, _sf, ctx.rng)
    if checks:
        res = ctx.lean([dict(op="opt.check", l=b["l"], out=b["out"], B=b["B"]) for b in checks])
        for b, okm in zip(checks, res):
            ctx.corr_cases += 1
            if okm is not True:
                ctx.disagree("K1.isOptOutput rejects the list returned by optimize_circuit", b["spec"], okm,
                             [c["id"] for c in b["out"]])
    batch.clear()


# ------------------------------------------------------------------ (a) correspondence: merge rules

def merge_pairs(rng, count):
    """pairs of spec ops of the same arity acting on the same targets, for Operation.merge"""
    pairs = []
    for _ in range(count):
        u = rng.random()
        if u < 0.45:
            cls = rng.choice([c for c in og.GATES1] + [c for c in og.GATES2])
            npar = {**og.GATES1, **og.GATES2}[cls]
            regs = [0] if cls in og.GATES1 else [0, 1]
            a = dict(cls=cls, regs=regs, pars=([og.first_par(rng, cls, False)] + og.tail_pars(rng, cls, False)) if npar else [])
            b = dict(cls=cls, regs=regs, pars=list(a["pars"]))
            if npar:
                v = rng.random()
                b["pars"][0] = -a["pars"][0] if v < 0.3 else og.first_par(rng, cls, False)
                if len(b["pars"]) > 1 and rng.random() < 0.25:
                    b["pars"][1:] = og.tail_pars(rng, cls, False)
            for o in (a, b):
                if rng.random() < 0.3:
                    o["dagger"] = True
            if rng.random() < 0.1:
                c2 = rng.choice([c for c in (og.GATES1 if cls in og.GATES1 else og.GATES2) if c != cls])
                n2 = {**og.GATES1, **og.GATES2}[c2]
                b = dict(cls=c2, regs=regs, pars=([og.first_par(rng, c2, False)] + og.tail_pars(rng, c2, False)) if n2 else [])
        elif u < 0.6:
            cls = rng.choice(list(og.CHANNELS))
            a = dict(cls=cls, regs=[0], pars=[og.first_par(rng, cls, False)] + og.tail_pars(rng, cls, False))
            b = dict(cls=cls if rng.random() < 0.9 else "LossChannel", regs=[0], pars=list(a["pars"]))
            b["pars"][0] = og.first_par(rng, cls, False)
            if b["cls"] != cls:
                b["pars"] = b["pars"][:1]
            elif len(b["pars"]) > 1 and rng.random() < 0.3:
                b["pars"][1] = rng.choice([0.5, 1.0, 0.25])
        elif u < 0.75:
            ca, cb = rng.choice(list(og.PREPS)), rng.choice(list(og.PREPS) + ["Rgate", "LossChannel"])
            a = dict(cls=ca, regs=[0], pars=og.prep_pars(rng, ca, False))
            b = dict(cls=cb, regs=[0], pars=og.prep_pars(rng, cb, False) if cb in og.PREPS else [0.5])
        else:
            ca = rng.choice(og.MATRIX)
            cb = ca if rng.random() < 0.85 else rng.choice(og.MATRIX)
            a = og.matrix_op(rng, ca, 0, False)
            b = og.matrix_op(rng, cb, 0, False)
        pairs.append((a, b))
    # two-mode matrices (never reached by the optimiser, reachable through merge)
    P = [[0, 1], [1, 0]]
    Rm = [[0, -1], [1, 0]]
    for A, Bm in ((P, P), (P, Rm), (Rm, Rm), (Rm, [[0, 1], [-1, 0]])):
        pairs.append((dict(cls="Interferometer", regs=[0, 1], pars=[dict(mat=A)]),
                      dict(cls="Interferometer", regs=[0, 1], pars=[dict(mat=Bm)])))
        pairs.append((dict(cls="PassiveChannel", regs=[0, 1], pars=[dict(mat=A)]),
                      dict(cls="PassiveChannel", regs=[0, 1], pars=[dict(mat=Bm)])))
    return pairs


def real_merge(a, b):
    """canonical result of a.merge(b) on real operation objects"""
    from strawberryfields.program_utils import MergeFailure
    oa, ob = og.make_op(a), og.make_op(b)
    sa, sb = (copy.deepcopy(oa.p), getattr(oa, "dagger", None)), (copy.deepcopy(ob.p), getattr(ob, "dagger", None))
    try:
        with warnings.catch_warnings():
            warnings.simplefilter("ignore")
            m = oa.merge(ob)
    except MergeFailure:
        res = "fail"
    else:
        res = "identity" if m is None else dict(merged=og.strip_id(og.real_op_to_cmd(m, a["regs"], 0, [])))
    same = lambda x, y: len(x) == len(y) and all(np.array_equal(u, v) for u, v in zip(x, y))
    mutated = not (same(sa[0], oa.p) and sa[1] == getattr(oa, "dagger", None)
                   and same(sb[0], ob.p) and sb[1] == getattr(ob, "dagger", None))
    return res, mutated


def corr_merge(ctx, rng, count):
    pairs = merge_pairs(rng, count)
    reqs, impl = [], []
    for a, b in pairs:
        ca, cb = og.op_to_cmd(a, 0, []), og.op_to_cmd(b, 1, [])
        res, mutated = real_merge(a, b)
        ctx.oracle_cases += 1
        if mutated:
            ctx.fail("merge-mutates-operands", f"{a['cls']}.merge modified one of its operands",
                     dict(kind="merge-purity", a=a, b=b))
        ctx.count("merge:" + (res if isinstance(res, str) else "merged"), ["merge", a, b], res != "fail")
        if ca is None or cb is None:
            continue
        reqs.append(dict(op="opt.merge", a=ca, b=cb))
        impl.append((a, b, res))
    if not ctx.proof_ok:
        return
    # the loop body (`tryMerge`) on the same pairs: a two-command circuit through the real optimiser must come out
    # with 2 commands (advance), 0 (identity) or 1 (merged, same operation as `merge` returned)
    treqs, timpl = [], []
    for a, b, res in impl:
        spec = dict(n=2, ops=[a, b])
        try:
            prog, cmds = og.build(spec)
            out = real_optimize(prog).circuit
            if len(out) == 2:
                got = "advance"
            elif len(out) == 0:
                got = "identity"
            else:
                got = dict(merged=og.strip_id(og.real_op_to_cmd(out[0].op, [r.ind for r in out[0].reg], 0, [])))
        except Exception as e:
            ctx.fail(f"optimize-raises:{type(e).__name__}", f"optimize() of [{a['cls']}, {b['cls']}] raised {type(e).__name__}: {str(e)[:160]}",
                     dict(kind="purity", spec=spec, how="optimize"))
            continue
        treqs.append(dict(op="opt.try", a=og.op_to_cmd(a, 0, []), b=og.op_to_cmd(b, 1, []), B=2))
        timpl.append((a, b, got))
    for (a, b, got), model in zip(timpl, ctx.lean(treqs)):
        ctx.corr_cases += 1
        if isinstance(model, dict) and "merged" in model:
            model = dict(merged=og.strip_id(model["merged"]))
            if isinstance(got, dict) and og.cmd_close(model["merged"], got["merged"]):
                continue
        if model != got:
            ctx.disagree("K1.tryMerge vs optimize_circuit on a two-command circuit", dict(a=a, b=b), model, got)
    for (a, b, res), model in zip(impl, ctx.lean(reqs)):
        ctx.corr_cases += 1
        if isinstance(model, dict) and "merged" in model:
            model = dict(merged=og.strip_id(model["merged"]))
            if isinstance(res, dict):   # the model carries targets / deps of `a`; merge() itself has no targets
                model["merged"]["regs"] = res["merged"]["regs"]
                if og.cmd_close(model["merged"], res["merged"]):
                    continue
        if model != res:
            ctx.disagree("K1.opMerge vs Operation.merge", dict(a=a, b=b), model, res)


# ------------------------------------------------------------------ (b) oracle: execute and compare

def run_state(sf, prog, backend, cutoff=None, args=None, pre=None):
    """final state of `prog`; with `pre` (a spec) the program is a LATER segment: the engine first runs the
    preparation segment, so the program under test acts on a non-vacuum register"""
    opts = {"cutoff_dim": cutoff} if backend == "fock" else {}
    eng = sf.Engine(backend, backend_options=opts)
    with warnings.catch_warnings():
        warnings.simplefilter("ignore")
        if pre is not None:
            eng.run(og.build(pre, name="pre")[0])
        res = eng.run(prog, args=args or {})
    return res.state


def state_diff(backend, s1, s2):
    """(difference, scale, truncation slack)"""
    if backend == "gaussian":
        m1, m2, c1, c2 = s1.means(), s2.means(), s1.cov(), s2.cov()
        scale = max(1.0, float(np.max(np.abs(m1))), float(np.max(np.abs(c1))))
        return max(float(np.max(np.abs(m1 - m2))), float(np.max(np.abs(c1 - c2)))), scale, 0.0
    if backend == "bosonic":
        parts = [(s1.weights(), s2.weights()), (s1.means(), s2.means()), (s1.covs(), s2.covs())]
        if any(np.shape(a) != np.shape(b) for a, b in parts):
            return float("inf"), 1.0, 0.0
        scale = max([1.0] + [float(np.max(np.abs(a))) for a, _ in parts])
        return max(float(np.max(np.abs(np.asarray(a) - np.asarray(b)))) for a, b in parts), scale, 0.0
    d1, d2 = s1.dm(), s2.dm()

    def leak(s):
        # trace loss, and probability sitting in the top two Fock levels of any mode
        pr = np.real(s.all_fock_probs())
        D = pr.shape[0]
        inner = pr[tuple(slice(0, D - 2) for _ in pr.shape)].sum()
        return max(abs(1 - s.trace()), abs(pr.sum() - inner))

    slack = 10 * max(leak(s1), leak(s2))
    return float(np.max(np.abs(d1 - d2))), 1.0, float(slack)


def equivalent(sf, backend, p1, p2, args, cutoff=10, pre=None):
    """None when the two programs produce the same state, else a description.  Fock: truncation
    escalation rule of DESIGN 1.6.  Gaussian: 1e-8 * scale; 2e-6 * scale when the program post-selects a
    homodyne outcome (the backend conditions on a finitely squeezed projector, which amplifies rounding
    differences of the pre-measurement covariance by ~1e7)."""
    s1, s2 = run_state(sf, p1, backend, cutoff, args, pre), run_state(sf, p2, backend, cutoff, args, pre)
    d, scale, slack = state_diff(backend, s1, s2)
    if backend in ("gaussian", "bosonic"):
        tol = 2e-6 if any(type(c.op).__name__.startswith("Measure") for c in p1.circuit) else 1e-8
        return None if d <= tol * scale else f"states differ by {d:.3e} (scale {scale:.2f})"
    if d <= slack + 1e-7:
        return None
    # truncation escalation (DESIGN 1.6), repeated: a discrepancy is a violation only if it does not die with
    # the truncation error; slowly converging states (cubic phase gate: polynomial tails) need more than one step
    n = len(p1.register)
    steps = [cutoff + 6, cutoff + 14, cutoff + 22] if n <= 1 else [cutoff + 6, cutoff + 12]
    hist = [(cutoff, d)]
    for D in steps:
        s1, s2 = run_state(sf, p1, backend, D, args, pre), run_state(sf, p2, backend, D, args, pre)
        dk, _, _ = state_diff(backend, s1, s2)
        hist.append((D, dk))
        if dk <= max(1e-6, d / 2):
            return None
    return "density matrices differ by " + ", ".join(f"{x:.3e} at cutoff {D}" for D, x in hist)


def spec_args(spec):
    return {"x": X_VALUE} if og.free_names(spec) else {}


def oracle_program(ctx, sf, spec, backend, prog=None, opt=None, compiled=True, shared_ops=False, rerun=False,
                   pre=None, compilers=None):
    """original vs optimize(); compile(optimize=False) vs compile(optimize=True); with `rerun` also the original
    after optimisation vs a freshly built equal program"""
    nmodes = spec["n"] + sum(len(o["regs"]) for o in spec["ops"] if o["cls"] == "New")
    if backend == "fock" and nmodes > 2:      # a mixed 3-mode Fock state at cutoff 16+ does not fit
        ctx.tally("oracle_skipped_fock_too_large")
        return
    compilers = [c for c in (compilers or [backend]) if c != "fock" or nmodes <= 2]
    if prog is None:
        prog, _ = og.build(spec, op_cache=OP_CACHE if shared_ops else None)
        opt = real_optimize(prog)
    fresh = og.build(spec)[0] if rerun else None
    args = spec_args(spec)
    changed = len(opt.circuit) != len(prog.circuit)
    ctx.count(f"oracle:{backend}:{'changed' if changed else 'unchanged'}", ["oracle", backend, spec],
              changed and len({w for o in spec["ops"] for w in o["regs"]}) >= 2,
              sample=dict(spec=spec, optimized=[str(c) for c in opt.circuit]))
    ctx.oracle_cases += 1
    seg = " as a later segment (non-vacuum register)" if pre is not None else ""
    if pre is not None:
        ctx.tally(f"later_segment:{backend}")
    try:
        why = equivalent(sf, backend, prog, opt, args, pre=pre)
    except Exception as e:  # an optimised program that cannot be executed while the original can
        try:
            run_state(sf, prog, backend, 10, args, pre)
        except Exception:
            ctx.tally("oracle_unrunnable_original")
            return
        why = f"optimised program raises {type(e).__name__}: {e}"
    if why:
        ctx.fail(f"optimize-changes-state:{backend}", f"optimize(){seg}: {why}; optimised circuit {[str(c) for c in opt.circuit]}",
                 dict(kind="program", spec=spec, backend=backend, how="optimize", shared=shared_ops, pre=pre))
    if fresh is not None:
        # the original, executed after it was optimised (and after the optimised copy was executed), against a
        # freshly built equal program that never saw the optimiser
        ctx.oracle_cases += 1
        try:
            why = equivalent(sf, backend, fresh, prog, args)
        except Exception as e:
            why = f"{type(e).__name__}: {e}"
        if why:
            ctx.fail(f"original-changed-by-optimize:{backend}", f"the original program computes something else after optimize(): {why}",
                     dict(kind="program", spec=spec, backend=backend, how="optimize", shared=shared_ops))
    if not compiled:
        return
    for comp in compilers:
        try:
            before = snapshot(prog)
            with warnings.catch_warnings():
                warnings.simplefilter("ignore")
                c0 = prog.compile(compiler=comp, optimize=False)
                c1 = prog.compile(compiler=comp, optimize=True)
            if snapshot(prog) != before:
                ctx.fail("compile-mutates-original", "compile(optimize=True) modified the original program",
                         dict(kind="purity", spec=spec, how="compile", backend=comp))
        except Exception:
            ctx.tally(f"oracle_compile_rejected:{comp}")
            continue
        ctx.oracle_cases += 1
        ctx.tally(f"compile:{comp}:" + ("changed" if len(c1.circuit) != len(c0.circuit) else "unchanged"))
        try:
            why = equivalent(sf, comp, c0, c1, args, pre=pre)
        except Exception as e:
            try:
                run_state(sf, c0, comp, 10, args, pre)
            except Exception:
                ctx.tally(f"oracle_unrunnable_compiled:{comp}")
                continue
            why = f"compile(optimize=True) result raises {type(e).__name__}: {e}"
        if why:
            ctx.fail(f"compile-optimize-changes-state:{comp}",
                     f"compile(compiler={comp!r}, optimize=True) vs optimize=False{seg}: {why}; optimised circuit {[str(c) for c in c1.circuit][:14]}",
                     dict(kind="program", spec=spec, backend=comp, how="compile", shared=shared_ops, pre=pre))
    if fresh is not None:
        ctx.oracle_cases += 1
        try:
            why = equivalent(sf, backend, fresh, prog, args)
        except Exception as e:
            why = f"{type(e).__name__}: {e}"
        if why:
            ctx.fail(f"original-changed-by-compile:{backend}", f"the original program computes something else after compile(optimize=True): {why}",
                     dict(kind="program", spec=spec, backend=backend, how="compile", shared=shared_ops))


# ---- exact special values: every gate class with p[0] exactly 0 (and other exact angles) next to other gates

def flavour_of(spec):
    return "fock" if any(o["cls"] in og.NON_GAUSSIAN for o in spec["ops"]) else "gaussian"


def special_value_specs(rng):
    """every gate family with first parameter EXACTLY 0 (plain and daggered; for MZgate / sMZgate also the external
    phase exactly 0, pi), embedded between other gates on a displaced, squeezed 2-mode register; plus interferometers
    whose decomposition contains Mach-Zehnder gates with internal phase exactly 0"""
    allg = {**og.GATES1, **og.GATES2}
    specs = []
    for cls, npar in allg.items():
        if npar == 0:
            continue
        small = cls in og.NON_GAUSSIAN
        head = [dict(cls="Coherent", regs=[0], pars=[0.5 if small else 1.0, 0.25]),
                dict(cls="Squeezed", regs=[1], pars=[0.25 if small else 0.5, 0.5])]
        tails = [og.tail_pars(rng, cls, small)] if npar > 1 else [[]]
        if cls in ("MZgate", "sMZgate", "BSgate"):
            tails = [[0.0], [og.PI], [0.625]]
        for tail in tails:
            for dag in (False, True):
                for p0 in ([0.0] if cls not in og.ANGLE_CLASSES else [0.0, rng.choice(og.SPECIAL_ANGLES)]):
                    regs = [rng.choice([0, 1])] if cls in og.GATES1 else rng.choice([[0, 1], [1, 0]])
                    g = dict(cls=cls, regs=regs, pars=[p0] + list(tail), dagger=dag)
                    around = [dict(cls="Rgate", regs=[0], pars=[0.25]), dict(cls="Rgate", regs=[0], pars=[0.5]),
                              dict(cls="Dgate", regs=[1], pars=[0.25, 0.0])]
                    specs.append(dict(n=2, ops=head + around[:1] + [g] + around[1:]))
    # interferometers with permutation-like unitaries: the symmetric meshes emit MZgate / sMZgate with exact zeros
    P2 = [[0, 1], [1, 0]]
    P3 = [[0, 1, 0], [0, 0, 1], [1, 0, 0]]
    for U, n in ((P2, 2), (P3, 3), ([[1, 0], [0, 1]], 2)):
        for mesh in ("rectangular_symmetric", "rectangular", "triangular"):
            head = [dict(cls="Coherent", regs=[0], pars=[0.5, 0.25]), dict(cls="Squeezed", regs=[1], pars=[0.25, 0.5])]
            specs.append(dict(n=n, ops=head + [dict(cls="Interferometer", regs=list(range(n)), pars=[dict(mat=U)],
                                                    kw=dict(mesh=mesh)),
                                               dict(cls="Rgate", regs=[0], pars=[0.25]), dict(cls="Rgate", regs=[0], pars=[0.5])]))
    return specs


def oracle_special_values(ctx, sf, rng, batch):
    for spec in special_value_specs(rng):
        fl = flavour_of(spec)
        prog, opt = corr_optimizer(ctx, spec, batch, shared_ops=rng.random() < 0.5)
        if opt is None:
            continue
        ctx.count("special:" + next((o["cls"] for o in spec["ops"][3:] if o["cls"] not in ("Rgate", "Dgate")), spec["ops"][3]["cls"]),
                  ["special", spec], True)
        comps = ["fock"] if fl == "fock" else ["gaussian", "fock", "bosonic"]
        try:
            oracle_program(ctx, sf, spec, fl, prog, opt, True, False, False,
                           pre=og.pre_segment(rng, spec["n"], fl == "gaussian") if rng.random() < 0.5 else None, compilers=comps)
        except Exception as e:
            ctx.fail(f"oracle-raises:{type(e).__name__}", f"executing the programs raised {type(e).__name__}: {str(e)[:200]}",
                     dict(kind="program", spec=spec, backend=fl, how="optimize"))


# ---- merge law of every family, executed

PREFIX_G = [dict(cls="Squeezed", regs=[0], pars=[0.5, 0.25]), dict(cls="Coherent", regs=[1], pars=[0.75, 0.5]),
            dict(cls="Dgate", regs=[0], pars=[0.5, 1.0]), dict(cls="BSgate", regs=[0, 1], pars=[0.5, 0.25]),
            dict(cls="Thermal", regs=[2], pars=[0.5]), dict(cls="BSgate", regs=[1, 2], pars=[0.75, 0.0])]
PREFIX_F = [dict(cls="Coherent", regs=[0], pars=[0.25, 0.5]), dict(cls="Fock", regs=[1], pars=[1]),
            dict(cls="BSgate", regs=[0, 1], pars=[0.5, 0.25])]


def law_cases(rng, count):
    """every family systematically (random parameters; plain / exact inverse / daggered second / daggered
    first / swapped-targets variants), then `count` random extra cases"""
    cases = []
    allg = {**og.GATES1, **og.GATES2}

    def gate_pair(cls, variant):
        npar = allg[cls]
        small = cls in og.NON_GAUSSIAN
        regs = [rng.choice([0, 1])] if cls in og.GATES1 else rng.choice([[0, 1], [1, 0]])
        a = dict(cls=cls, regs=regs, pars=([og.first_par(rng, cls, small)] + og.tail_pars(rng, cls, small)) if npar else [])
        b = dict(cls=cls, regs=regs, pars=list(a["pars"]))
        if npar:
            b["pars"][0] = -a["pars"][0] if variant == "inverse" else og.first_par(rng, cls, small)
        if variant in ("zero1", "zeros") and npar:
            a["pars"][0] = 0.0
        if variant in ("zero2", "zeros") and npar:
            b["pars"][0] = 0.0
        if variant == "dagger2":
            b["dagger"] = True
            if npar and rng.random() < 0.5:
                b["pars"][0] = a["pars"][0]
        if variant == "dagger1":
            a["dagger"] = True
        if variant == "daggers":
            a["dagger"] = b["dagger"] = True
        return a, b

    for cls in allg:
        for variant in ("plain", "inverse", "dagger2", "dagger1", "daggers", "zero1", "zero2", "zeros"):
            cases.append(gate_pair(cls, variant))
    for cls in og.CHANNELS:
        for t1, t2 in ((0.5, 0.25), (1.0, 1.0), (0.75, 1.0), (1 - 2.0 ** -21, 1 - 2.0 ** -21)):
            tail = og.tail_pars(rng, cls, False)
            cases.append((dict(cls=cls, regs=[1], pars=[t1] + tail), dict(cls=cls, regs=[1], pars=[t2] + tail)))
    for ca in og.PREPS:
        cb = rng.choice(list(og.PREPS))
        cases.append((dict(cls=ca, regs=[1], pars=og.prep_pars(rng, ca, True)),
                      dict(cls=cb, regs=[1], pars=og.prep_pars(rng, cb, True))))
    for cls in og.MATRIX:
        for _ in range(3):
            cases.append((og.matrix_op(rng, cls, 1, True), og.matrix_op(rng, cls, 1, True)))
    for _ in range(count):
        u = rng.random()
        if u < 0.6:
            cases.append(gate_pair(rng.choice(list(allg)), rng.choice(["plain", "inverse", "dagger2", "dagger1"])))
        elif u < 0.75:
            cls = rng.choice(list(og.CHANNELS))
            a = dict(cls=cls, regs=[1], pars=[og.first_par(rng, cls, False)] + og.tail_pars(rng, cls, False))
            cases.append((a, dict(cls=cls, regs=[1], pars=[og.first_par(rng, cls, False)] + a["pars"][1:])))
        else:
            cls = rng.choice(og.MATRIX)
            cases.append((og.matrix_op(rng, cls, 1, True), og.matrix_op(rng, cls, 1, True)))
    th, ph = 0.5, 0.25
    U = lambda t: [[np.cos(t), -np.sin(t)], [np.sin(t), np.cos(t)]]
    for t1, t2 in ((0.5, 0.25), (0.5, -0.5)):
        cases.append((dict(cls="Interferometer", regs=[0, 1], pars=[dict(mat=U(t1))]),
                      dict(cls="Interferometer", regs=[0, 1], pars=[dict(mat=[[0, 1], [1, 0]] if t2 > 0 else U(t2))])))
    cases.append((dict(cls="PassiveChannel", regs=[0, 1], pars=[dict(mat=[[0.5, 0.25], [0, 0.5]])]),
                  dict(cls="PassiveChannel", regs=[0, 1], pars=[dict(mat=[[0.5, 0], [0.5, 0.25]])])))
    S1 = [[2, 0, 0, 0], [0, 1, 0, 0], [0, 0, 0.5, 0], [0, 0, 0, 1]]
    S2 = [[1, 0, 0.5, 0], [0, 1, 0, 0], [0, 0, 1, 0], [0, 0, 0, 1]]
    cases.append((dict(cls="GaussianTransform", regs=[0, 1], pars=[dict(mat=S1)]),
                  dict(cls="GaussianTransform", regs=[0, 1], pars=[dict(mat=S2)])))
    _ = th, ph
    return cases


def oracle_law(ctx, sf, a, b):
    """`a` then `b` on a correlated state vs the operation a.merge(b) returns"""
    import strawberryfields as sfm
    from strawberryfields.program_utils import MergeFailure
    fock = a["cls"] in og.NON_GAUSSIAN or b["cls"] in og.NON_GAUSSIAN
    backend = "fock" if fock else "gaussian"
    n = 2 if fock else 3
    pre = PREFIX_F if fock else PREFIX_G
    oa, ob = og.make_op(a), og.make_op(b)
    try:
        with warnings.catch_warnings():
            warnings.simplefilter("ignore")
            m = oa.merge(ob)
    except MergeFailure:
        ctx.tally("law:fail")
        return
    except Exception as e:
        ctx.fail(f"merge-raises:{a['cls']}", f"{a['cls']}.merge raised {type(e).__name__}: {e}", dict(kind="law", a=a, b=b))
        return
    p1, _ = og.build(dict(n=n, ops=pre + [a, b]))
    p2, _ = og.build(dict(n=n, ops=pre))
    if m is not None:
        with p2.context as q:
            regs = [q[i] for i in a["regs"]]
            m | (regs if len(regs) > 1 else regs[0])
    ctx.oracle_cases += 1
    ctx.count(f"law:{a['cls']}:" + ("identity" if m is None else "merged"), ["law", a, b], True)
    try:
        why = equivalent(sf, backend, p1, p2, {})
    except Exception as e:
        try:
            run_state(sf, p1, backend, 10)
        except Exception:
            ctx.tally("law_unrunnable")
            return
        why = f"merged operation {m} cannot be executed: {type(e).__name__}: {e}"
    if why:
        ctx.fail(f"merge-law:{a['cls']}", f"{a['cls']}.merge: '{oa} then {ob}' is not '{m}': {why}",
                 dict(kind="law", a=a, b=b))
    _ = sfm


# ------------------------------------------------------------------ corpus, run, replay

def corpus_specs():
    out = []
    if CORPUS.exists():
        for f in sorted(CORPUS.glob("*.json")):
            j = json.loads(f.read_text())
            out.append(j)
    return out


def run_spec(ctx, sf, spec, batch, backend=None, compiled=True, shared_ops=False, rerun=False, pre=None):
    prog, opt = corr_optimizer(ctx, spec, batch, shared_ops)
    if opt is None:
        return
    changed = len(opt.circuit) != len(prog.circuit)
    holes = any(o["cls"] in ("Del", "New") for o in spec["ops"])
    ctx.count("corr:" + ("changed" if changed else "unchanged") + (":holes" if holes else "") + (":shared" if shared_ops else ""),
              ["spec", spec], changed and len({w for o in spec["ops"] for w in o["regs"]}) >= 2)
    ctx.tally("removed_commands", len(prog.circuit) - len(opt.circuit))
    if backend:
        try:
            oracle_program(ctx, sf, spec, backend, prog, opt, compiled, shared_ops, rerun, pre=pre)
        except Exception as e:
            ctx.fail(f"oracle-raises:{type(e).__name__}", f"executing the programs raised {type(e).__name__}: {str(e)[:200]}",
                     dict(kind="program", spec=spec, backend=backend, how="optimize", shared=shared_ops))


def run(ctx, sf):
    rng = ctx.rng
    batch = []
    # corpus first
    for item in corpus_specs():
        if item.get("kind") == "law":
            oracle_law(ctx, sf, item["a"], item["b"])
        else:
            run_spec(ctx, sf, item["spec"], batch, item.get("backend"), True, shared_ops=True, rerun=True,
                     pre=item.get("pre"))
    flush_optimizer(ctx, batch)
    # exact special values of every gate family, every simulator compiler
    oracle_special_values(ctx, sf, rng, batch)
    flush_optimizer(ctx, batch)
    # merge rules: correspondence + executed law
    corr_merge(ctx, rng, ctx.n(500, 12000))
    for a, b in law_cases(rng, ctx.n(60, 3000)):
        oracle_law(ctx, sf, a, b)
    # optimiser: correspondence only (all families, matrices, symbols, measured parameters)
    nmax = 5
    for _ in range(ctx.n(700, 20000)):
        spec = og.gen_spec(rng, rng.randint(1, nmax), rng.randint(2, 16), flavour="any", p_sym=0.25, p_measured=0.3,
                           matrices=True)
        if rng.random() < 0.3:
            spec = og.with_leading_preps(rng, spec)
        if rng.random() < 0.25:
            spec = og.with_holes(rng, spec)
        run_spec(ctx, sf, spec, batch, shared_ops=rng.random() < 0.5)
        if len(batch) >= 1500:
            flush_optimizer(ctx, batch)
    # optimiser: correspondence + execution on the gaussian backend
    for _ in range(ctx.n(400, 9000)):
        spec = og.gen_spec(rng, rng.randint(1, 4), rng.randint(2, 12), flavour="gaussian", p_sym=0.15, p_measured=0.25,
                           matrices=True, allow_complex=True)
        if rng.random() < 0.35:
            spec = og.with_leading_preps(rng, spec)
        if rng.random() < 0.3:
            spec = og.with_holes(rng, spec)
        measured = any(o["cls"].startswith("Measure") for o in spec["ops"])
        pre = og.pre_segment(rng, spec["n"]) if (rng.random() < 0.5 and not measured) else None
        run_spec(ctx, sf, spec, batch, "gaussian", compiled=rng.random() < 0.6, shared_ops=rng.random() < 0.5,
                 rerun=rng.random() < 0.35, pre=pre)
    flush_optimizer(ctx, batch)
    # ... and on the fock backend (non-Gaussian families, small parameters, cutoff 10 / 16)
    for _ in range(ctx.n(60, 1500)):
        spec = og.gen_spec(rng, rng.randint(1, 2), rng.randint(2, 8), flavour="fock", p_sym=0.1, near=False)
        if rng.random() < 0.35:
            spec = og.with_leading_preps(rng, spec, gaussian=False)
        pre = og.pre_segment(rng, spec["n"], gaussian=False) if rng.random() < 0.5 else None
        run_spec(ctx, sf, spec, batch, "fock", compiled=rng.random() < 0.4, shared_ops=rng.random() < 0.5,
                 rerun=rng.random() < 0.25, pre=pre)
    flush_optimizer(ctx, batch)
    if ctx.tier == "thorough":
        exhaustive(ctx, sf, batch)
        flush_optimizer(ctx, batch)


def exhaustive(ctx, sf, batch):
    """all words of length <= 4 over a 9-letter alphabet on 3 modes (correspondence), length <= 3 executed"""
    alpha = [dict(cls="Rgate", regs=[0], pars=[0.5]), dict(cls="Rgate", regs=[0], pars=[-0.5]),
             dict(cls="Rgate", regs=[0], pars=[0.5], dagger=True), dict(cls="Sgate", regs=[0], pars=[0.25, 0.0]),
             dict(cls="LossChannel", regs=[0], pars=[0.5]), dict(cls="Coherent", regs=[0], pars=[0.5, 0.0]),
             dict(cls="BSgate", regs=[0, 1], pars=[0.5, 0.0]), dict(cls="BSgate", regs=[1, 0], pars=[-0.5, 0.0]),
             dict(cls="Dgate", regs=[1], pars=[0.25, 0.0])]
    cnt = 0
    for L in range(1, 5):
        for word in itertools.product(alpha, repeat=L):
            spec = dict(n=3, ops=[dict(w) for w in word])
            run_spec(ctx, sf, spec, batch, "gaussian" if L <= 3 else None, compiled=False)
            cnt += 1
            if len(batch) >= 2000:
                flush_optimizer(ctx, batch)
    ctx.extra["exhaustive_words_upto4_over9"] = cnt


def search(ctx, sf):
    run(ctx, sf)


def replay(ctx, rp):
    import strawberryfields as sf
    n0 = len(ctx.failures)
    ctx.proof_ok = False
    if rp["kind"] == "law":
        oracle_law(ctx, sf, rp["a"], rp["b"])
    elif rp["kind"] == "merge-purity":
        _, mutated = real_merge(rp["a"], rp["b"])
        return mutated
    elif rp["kind"] == "purity":
        batch = []
        prog, opt = corr_optimizer(ctx, rp["spec"], batch, rp.get("shared", False))
        if rp.get("how") == "compile" and opt is not None:
            oracle_program(ctx, sf, rp["spec"], rp["backend"], prog, opt, True, rp.get("shared", False), True)
    else:
        bk = rp["backend"]
        oracle_program(ctx, sf, rp["spec"], bk if bk != "bosonic" else "gaussian", None, None, True, rp.get("shared", False), True,
                       pre=rp.get("pre"), compilers=[bk])
    return len(ctx.failures) > n0
