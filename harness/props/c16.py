"""C16 — the observables of a state object are consistent with each other and across representations, and every method
answers for exactly the subset and order of modes it is asked about.

(a) correspondence: `BaseFockState` / `BaseGaussianState` / `BaseBosonicState` methods and `state(modes)` of the three NumPy
    back ends against the Lean model `SFV.Model.States` — Gaussian-integer tensors (exact), dyadic means / covariances
    (selection exact, formulas 1e-9), integer samples for `utils/post_processing.py`.
(b) oracle: one physical state prepared on gaussian / bosonic / fock-mixed / fock-pure; every method x every mode subset and
    order, against an independent phase-space reference (lib/sim.py), against own Fock-space formulas on the state's own
    density matrix, and across representations; `state(modes)` for every ordered selection.
(c) replay of stored inputs."""
import itertools
import json
import math
from fractions import Fraction
from pathlib import Path

import numpy as np

from lib import core, sim, simcorr, progs
from lib import states16 as S

RULE = ("correspondence: random Gaussian-integer tensors (cutoff 2-3, 1-4 modes, pure and mixed), dyadic (mu, cov) on 1-5 modes, "
        "bosonic arrays with 1-3 weights, integer samples; mode arguments = every kind of list (ascending subsets, permuted, "
        "duplicated, out of range, int, full range, None).  Oracle: product (thermal x coherent x squeezed ...), entangled mixed "
        "and entangled pure Gaussian states on 1-3 modes (4 in phase space), Fock / cat preparations; all methods x all ordered "
        "mode selections.  Non-trivial = at least 2 modes and a selection other than the full ascending list; distinct by "
        "(input, method, modes).")
ASSUMPTIONS = ["phase-space quantities are compared at 1e-8 relative, integer tensors exactly",
               "Fock vs phase space: up to truncation, tolerance 1e-6 + 30 D^2 (1 - trace)",
               "reduced_dm / reduced_gaussian / reduced_bosonic may reject a non-ascending list with ValueError (documented); "
               "returning data in another order than requested is a violation",
               "BosonicBackend.state(modes) returns ascending mode order (documented in its docstring)"]
TRUSTED = ["thewalrus.quantum (density_matrix, probabilities, state_vector, fidelity, photon_number_expectation): only "
           "cross-checked numerically against the Fock representation",
           "NumPy einsum / argsort / sort / transpose semantics (entering the theorems as the model's einsumRoles / argsort)",
           "the einsum letter strings of reduced_dm / FockBackend.state are modelled by the role of each axis pair; tie = exact "
           "integer-tensor correspondence"]

HB = 2.0


# ================================================================ small helpers

def gi(z):
    return [int(round(float(np.real(z)))), int(round(float(np.imag(z))))]


def flat(t):
    return [gi(z) for z in np.asarray(t).ravel()]


def fr(x):
    f = Fraction(x)
    return [f.numerator, f.denominator]


def rat(v):
    return v[0] / v[1]


def exc_name(e):
    return type(e).__name__


def call(f, *a, **k):
    """result or ('EXC', class name)"""
    try:
        return f(*a, **k)
    except NotImplementedError:
        return ("EXC", "NotImplementedError")
    except Exception as e:  # noqa: BLE001
        return ("EXC", exc_name(e))


def is_exc(v):
    return isinstance(v, tuple) and len(v) == 2 and isinstance(v[0], str) and v[0] == "EXC"


_SEL_CYCLES = {}


def rand_modes_arg(rng, n):
    """every kind of mode argument; half of the time the next element of a cycle through ALL ordered selections of n modes"""
    if rng.random() < 0.45 and n >= 2:
        if n not in _SEL_CYCLES:
            _SEL_CYCLES[n] = itertools.cycle(S.ordered_subsets(n))
        return list(next(_SEL_CYCLES[n]))
    u = rng.random()
    if u < 0.35:
        k = rng.randint(1, n)
        return sorted(rng.sample(range(n), k))
    if u < 0.6:
        k = rng.randint(1, n)
        return rng.sample(range(n), k)
    if u < 0.7:
        return list(range(n))
    if u < 0.8:
        k = rng.randint(1, n)
        ms = sorted(rng.sample(range(n), k))
        ms.insert(rng.randint(0, len(ms)), rng.choice(ms))
        return ms if rng.random() < 0.5 else sorted(ms)
    if u < 0.9:
        k = rng.randint(0, n - 1)
        ms = sorted(rng.sample(range(n), k)) + [n + rng.randint(0, 1)]
        return ms
    return [rng.randrange(n)]


# ================================================================ (a) correspondence: Fock

def fock_state_obj(sf, data, n, pure, D):
    from strawberryfields.backends.states import BaseFockState
    return BaseFockState(np.array(data, dtype=np.complex128), n, pure, D)


def fock_backend(sf, data, n, pure, D, dels=(), n0=None):
    """a FockBackend whose register had `n0` subsystems of which `dels` were deleted (n left), holding `data`"""
    from strawberryfields.backends.fockbackend import FockBackend
    be = FockBackend()
    be.begin_circuit(n0 or n, cutoff_dim=D, pure=pure)
    for d in dels:
        be.del_mode(d)
    be.circuit._state = np.array(data, dtype=np.complex128)
    be.circuit._pure = pure
    return be


def subsystem_arg(rng, n, act, maplen):
    """a `modes` argument in subsystem indices for a register with active subsystems `act` (n of them) out of `maplen`"""
    ms = rand_modes_arg(rng, n)
    dead = [m for m in range(maplen) if m not in act]
    out = []
    for m in ms:
        if m < n:
            out.append(act[m])
        elif dead and rng.random() < 0.6:
            out.append(rng.choice(dead))            # a deleted subsystem
        else:
            out.append(maplen + (m - n))            # beyond the register
    if dead and rng.random() < 0.08:
        out.insert(rng.randint(0, len(out)), rng.choice(dead))
    if rng.random() < 0.03:
        out = []
    return out


def corr_fock(ctx, sf, n_cases):
    rng, nprng = ctx.rng, ctx.nprng(16)
    cases = []
    kinds = ["reducedDm", "reducedDm", "backendState", "backendState", "backendState", "dm", "trace", "probs", "meanPhoton",
             "numberExp", "parity", "fidelity", "reducedDmLetters"]
    for it in range(n_cases):
        kind = kinds[it % len(kinds)]
        D = rng.choice([2, 2, 3])
        pure = rng.random() < 0.5
        nmax = 4 if pure else 3
        if ctx.tier == "thorough" and D == 2:
            nmax += 1
        n = rng.randint(1, nmax)
        if kind == "dm":
            pure = True
        data = simcorr.rand_int_tensor(nprng, (D,) * (n if pure else 2 * n), -2, 2, density=rng.choice([1.0, 0.7]))
        req = dict(op="st.fock", kind=kind, D=D, n=n, pure=pure, state=flat(data))
        case = dict(kind=kind, D=D, n=n, pure=pure)
        if kind == "reducedDm":
            modes = rand_modes_arg(rng, n)
            req["modes"] = modes
            case["modes"] = modes

            def real(data=data, n=n, pure=pure, D=D, modes=modes):
                r = call(fock_state_obj(sf, data, n, pure, D).reduced_dm, list(modes))
                if is_exc(r):
                    return dict(err=r[1])
                return dict(k=np.ndim(r) // 2, t=flat(r))
            nt = n >= 2 and modes != list(range(n))
        elif kind == "backendState":
            # half of the registers have holes: n0 subsystems, some deleted, n left
            n0 = n + (rng.randint(1, 2) if rng.random() < 0.5 else 0)
            dels = sorted(rng.sample(range(n0), n0 - n))
            act = [m for m in range(n0) if m not in dels]
            modes = subsystem_arg(rng, n, act, n0) if rng.random() < 0.9 else None
            if modes is not None:
                req["modes"] = modes
            ax = iter(range(n))
            req["map"] = [None if m in dels else next(ax) for m in range(n0)]
            case.update(modes=modes, dels=dels, n0=n0)
            as_int = modes is not None and len(modes) == 1 and rng.random() < 0.5
            case["as_int"] = as_int

            def real(data=data, n=n, pure=pure, D=D, modes=modes, as_int=as_int, dels=dels, n0=n0):
                arg = modes
                if as_int:
                    arg = modes[0]          # the int form of a single mode
                be = fock_backend(sf, data, n, pure, D, dels, n0)
                r = call(be.state, arg if arg is None or isinstance(arg, int) else list(arg))
                if is_exc(r):
                    return dict(err=r[1])
                labels = [int(r.mode_names[i][2:-1]) for i in range(r.num_modes)]
                return dict(pure=bool(r.is_pure), k=int(r.num_modes), t=flat(r.data), labels=labels)
            nt = n >= 2 and modes is not None and modes != act
        elif kind == "reducedDmLetters":
            k = rng.randint(0, n)
            modes = sorted(rng.sample(range(n), k))
            req["modes"] = modes
            case["modes"] = modes

            def real(data=data, n=n, pure=pure, D=D, modes=modes):
                st = fock_state_obj(sf, data, n, pure, D)
                if modes == list(range(n)):
                    r = st.dm()
                else:
                    r = st.reduced_dm(list(modes))
                # the letter string the loop of reduced_dm builds, rebuilt from the documented recipe
                letters = [[2 * len(modes) + t] * 2 for t in range(n - len(modes))]
                ctr = 0
                for m in range(n):
                    if m in modes:
                        letters.insert(m, [2 * ctr, 2 * ctr + 1])
                        ctr += 1
                return dict(k=len(modes), t=flat(r), ind=letters)
            nt = n >= 2 and 0 < k < n
        elif kind == "dm":
            def real(data=data, n=n, pure=pure, D=D):
                return flat(fock_state_obj(sf, data, n, pure, D).dm())
            nt = n >= 2
        elif kind == "trace":
            def real(data=data, n=n, pure=pure, D=D):
                return gi(fock_state_obj(sf, data, n, pure, D).trace())
            nt = n >= 2
        elif kind == "probs":
            def real(data=data, n=n, pure=pure, D=D):
                st = fock_state_obj(sf, data, n, pure, D)
                p = st.all_fock_probs()
                # fock_prob must agree with all_fock_probs entry by entry
                for pat in itertools.product(range(D), repeat=n):
                    if abs(st.fock_prob(list(pat)) - p[pat]) > 1e-9:
                        return dict(fock_prob_mismatch=list(pat))
                return flat(p)
            nt = n >= 2
        elif kind == "meanPhoton":
            mode = rng.randrange(n)
            req["mode"] = mode
            case["mode"] = mode

            def real(data=data, n=n, pure=pure, D=D, mode=mode):
                r = call(fock_state_obj(sf, data, n, pure, D).mean_photon, mode)
                return dict(err=r[1]) if is_exc(r) else [gi(r[0]), gi(r[1])]
            nt = n >= 2
        elif kind in ("numberExp", "parity"):
            u = rng.random()
            if u < 0.8:
                modes = rng.sample(range(n), rng.randint(1, n))
            else:
                modes = [rng.randrange(n)] * 2
            req["modes"] = modes
            case["modes"] = modes

            def real(data=data, n=n, pure=pure, D=D, modes=modes, kind=kind):
                st = fock_state_obj(sf, data, n, pure, D)
                r = call(st.number_expectation if kind == "numberExp" else st.parity_expectation, list(modes))
                if is_exc(r):
                    return dict(err=r[1])
                return [gi(r[0]), gi(r[1])] if kind == "numberExp" else gi(r)
            nt = n >= 2
        else:  # fidelity
            mode = rng.randrange(n)
            other = simcorr.rand_int_tensor(nprng, (D,), -2, 2)
            req.update(mode=mode, other=flat(other))
            case["mode"] = mode

            def real(data=data, n=n, pure=pure, D=D, mode=mode, other=other):
                r = call(fock_state_obj(sf, data, n, pure, D).fidelity, other, mode)
                return dict(err=r[1]) if is_exc(r) else gi(r)
            nt = n >= 2
        cases.append((req, real, case, nt))
        if kind == "parity" and len(set(modes)) == len(modes):   # the specification side of the parity theorem
            cases.append((dict(req, kind="paritySpec"), real, dict(case, against="sum-over-all-fock-probs"), nt))
    answers = ctx.lean([c[0] for c in cases])
    for (req, real, case, nt), model in zip(cases, answers):
        impl = real()
        ctx.corr_cases += 1
        ctx.count("corr:fock:" + case["kind"] + (":spec" if case.get("against") else ""), case | dict(s=req["state"]), nt,
                  sample=case)
        if isinstance(model, dict) and "err" in model and isinstance(impl, dict) and "err" in impl:
            ctx.tally("corr:fock:err:" + model["err"])
            # reduced_dm / state(modes) reject with ValueError; anything raised by einsum is a ValueError too
            if model["err"] != impl["err"]:
                ctx.disagree("States.fock.%s error kind" % case["kind"], case, model, impl)
            continue
        if model != impl:
            ctx.disagree("States.fock.%s vs BaseFockState/FockBackend" % case["kind"], case, str(model)[:300], str(impl)[:300])


# ================================================================ (a) correspondence: Gaussian

def dyadic_gauss(rng, nprng, n):
    """dyadic means and a symmetric positive definite dyadic covariance (xxpp)"""
    A = nprng.integers(-2, 3, size=(2 * n, 2 * n)) / 4.0
    V = A @ A.T + np.eye(2 * n)
    mu = nprng.integers(-6, 7, size=2 * n) / 4.0
    return mu, V


def gauss_state_obj(sf, mu, V, n):
    from strawberryfields.backends.states import BaseGaussianState
    return BaseGaussianState((np.array(mu, dtype=float), np.array(V, dtype=float)), n)


def gauss_req(kind, n, mu, V, **kw):
    return dict(op="st.gauss", kind=kind, n=n, mu=[fr(x) for x in mu], cov=[[fr(x) for x in row] for row in V], **kw)


def model_gdata(model):
    return np.array([rat(x) for x in model["mu"]]), np.array([[rat(x) for x in row] for row in model["cov"]]).reshape(
        len(model["mu"]), len(model["mu"]))


def corr_gauss(ctx, sf, n_cases):
    rng, nprng = ctx.rng, ctx.nprng(17)
    sf.hbar = 2
    cases = []
    kinds = ["reducedGaussian", "reducedGaussian", "backendState", "backendState", "meanPhoton", "quad", "parityArgs", "polyQuad",
             "polyQuad"]
    for it in range(n_cases):
        kind = kinds[it % len(kinds)]
        n = rng.randint(1, 3 if kind == "polyQuad" else 5)     # the model's rotated covariance is not memoised
        mu, V = dyadic_gauss(rng, nprng, n)
        case = dict(kind=kind, n=n)
        if kind == "reducedGaussian":
            modes = rand_modes_arg(rng, n)
            req = gauss_req(kind, n, mu, V, modes=modes)
            case["modes"] = modes

            def real(mu=mu, V=V, n=n, modes=modes):
                r = call(gauss_state_obj(sf, mu, V, n).reduced_gaussian, list(modes))
                return dict(err=r[1]) if is_exc(r) else (np.array(r[0]), np.array(r[1]))
            nt = n >= 2 and modes != list(range(n))
        elif kind == "backendState":
            from strawberryfields.backends.gaussianbackend import GaussianBackend
            N, M, mean = simcorr.rand_nm_state(rng, n)
            be = GaussianBackend()
            be.begin_circuit(n)
            be.circuit.nmat = np.array([[complex(float(a), float(b)) for a, b in row] for row in N], dtype=complex).reshape(n, n)
            be.circuit.mmat = np.array([[complex(float(a), float(b)) for a, b in row] for row in M], dtype=complex).reshape(n, n)
            be.circuit.mean = np.array([complex(float(a), float(b)) for a, b in mean], dtype=complex)
            dels = sorted(rng.sample(range(n), rng.randint(1, n - 1))) if n >= 2 and rng.random() < 0.5 else []
            for dmode in dels:
                be.del_mode(dmode)
            act = [int(x) for x in be.get_modes()]
            u = rng.random()
            if u < 0.75:
                modes = rng.sample(act, rng.randint(1, len(act)))
            elif u < 0.8:
                modes = [rng.choice(act)] * 2                       # duplicates are not rejected by this back end
            elif u < 0.9:
                modes = None
            else:
                modes = [rng.choice(dels)] if dels and rng.random() < 0.6 else [act[0], n]
            xp_mu, xp_V = be.circuit.smean(), be.circuit.scovmat()
            req = gauss_req(kind, n, xp_mu, xp_V, active=act)
            if modes is not None:
                req["modes"] = modes
            as_int = modes is not None and len(modes) == 1 and rng.random() < 0.5
            case.update(modes=modes, dels=dels, as_int=as_int)

            def real(be=be, modes=modes, as_int=as_int):
                r = call(be.state, None if modes is None else (modes[0] if as_int else list(modes)))
                if is_exc(r):
                    return dict(err=r[1])
                return np.array(r.means()), np.array(r.cov()), [int(r.mode_names[i][2:-1]) for i in range(r.num_modes)]
            nt = n >= 2 and modes is not None and modes != list(range(n))
        elif kind == "polyQuad":
            hb = rng.choice([2, 2, 1, Fraction(1, 2)])
            A = np.zeros((2 * n, 2 * n))
            if rng.random() < 0.85:
                for _ in range(rng.randint(1, 4)):
                    i, j_ = rng.randrange(2 * n), rng.randrange(2 * n)
                    v = rng.choice([1.0, -0.5, 0.75, 0.25])
                    A[i, j_] += v
                    A[j_, i] += v
            d = np.array([rng.choice([0.0, 0.0, 1.0, -0.5, 0.25]) for _ in range(2 * n)])
            if rng.random() < 0.1:
                d[:] = 0
            kk = rng.choice([0.0, 0.5, -1.25])
            c, s_ = simcorr.circle_point(rng) if rng.random() < 0.6 else (Fraction(1), Fraction(0))
            phi = math.atan2(s_, c)
            req = gauss_req(kind, n, mu, V, A=[[fr(x) for x in row] for row in A], d=[fr(x) for x in d], k=fr(kk), hbar=fr(hb),
                            c=fr(c), s=fr(s_), rotate=bool(phi != 0))
            case.update(hbar=float(hb), A=A.tolist(), d=d.tolist(), k=kk, c=str(c), s=str(s_))

            def real(mu=mu, V=V, n=n, A=A, d=d, kk=kk, phi=phi, hb=hb):
                old = sf.hbar
                try:
                    sf.hbar = float(hb)
                    st = gauss_state_obj(sf, mu / math.sqrt(float(hb) / 2), V / (float(hb) / 2), n)
                    r = st.poly_quad_expectation(A.copy(), d.copy(), kk, phi)
                finally:
                    sf.hbar = old
                return np.array([r[0], r[1]], dtype=float)
            nt = n >= 2
        elif kind == "meanPhoton":
            mode = rng.randrange(n)
            hb = rng.choice([2, 2, 1, Fraction(1, 2)])
            req = gauss_req(kind, n, mu, V, mode=mode, hbar=fr(hb))
            case.update(mode=mode, hbar=float(hb))

            def real(mu=mu, V=V, n=n, mode=mode, hb=hb):
                old = sf.hbar
                try:
                    sf.hbar = float(hb)
                    # the constructor rescales (data are hbar = 2 quantities): hand over data that rescale to (mu, V)
                    st = gauss_state_obj(sf, mu / math.sqrt(float(hb) / 2), V / (float(hb) / 2), n)
                    r = st.mean_photon(mode)
                finally:
                    sf.hbar = old
                return np.array([r[0], r[1]])
            nt = n >= 2
        elif kind == "quad":
            mode = rng.randrange(n)
            c, s = simcorr.circle_point(rng)
            req = gauss_req(kind, n, mu, V, mode=mode, c=fr(c), s=fr(s))
            case.update(mode=mode, c=str(c), s=str(s))

            def real(mu=mu, V=V, n=n, mode=mode, c=c, s=s):
                r = gauss_state_obj(sf, mu, V, n).quad_expectation(mode, math.atan2(s, c))
                return np.array([r[0], r[1]])
            nt = n >= 2
        else:
            u = rng.random()
            modes = rng.sample(range(n), rng.randint(1, n)) if u < 0.9 else [0, 0]
            req = gauss_req(kind, n, mu, V, modes=modes)
            case["modes"] = modes

            def real(mu=mu, V=V, n=n, modes=modes):
                r = call(gauss_state_obj(sf, mu, V, n).parity_expectation, list(modes))
                return dict(err=r[1]) if is_exc(r) else float(r)
            nt = n >= 2 and len(modes) < n
        cases.append((req, real, case, nt))
    answers = ctx.lean([c[0] for c in cases])
    for (req, real, case, nt), model in zip(cases, answers):
        impl = real()
        ctx.corr_cases += 1
        ctx.count("corr:gauss:" + case["kind"], case | dict(mu=req["mu"]), nt, sample=case)
        name = "States.gauss.%s vs BaseGaussianState/GaussianBackend" % case["kind"]
        if "__error__" in model:
            ctx.disagree(name + " (driver)", case, model, None)
            continue
        if isinstance(model, dict) and "err" in model or isinstance(impl, dict):
            ctx.tally("corr:gauss:err")
            if not (isinstance(model, dict) and isinstance(impl, dict) and model.get("err") == impl.get("err")):
                ctx.disagree(name + " error kind", case, str(model)[:200], str(impl)[:200])
            continue
        if case["kind"] in ("reducedGaussian", "backendState"):
            mmu, mV = model_gdata(model)
            ok = mmu.shape == impl[0].shape and mV.shape == impl[1].shape and np.array_equal(mmu, impl[0]) and \
                np.array_equal(mV, impl[1])
            if case["kind"] == "backendState":
                ok = ok and model["labels"] == impl[2]
            if not ok:
                ctx.disagree(name, case, dict(mu=str(mmu), cov=str(mV)), dict(mu=str(impl[0]), cov=str(impl[1])))
        elif case["kind"] in ("meanPhoton", "quad", "polyQuad"):
            m = np.array([rat(model[0]), rat(model[1])])
            if np.max(np.abs(m - impl)) > 1e-9 * max(1.0, np.max(np.abs(m))):
                ctx.disagree(name, case, str(m), str(impl))
        else:
            mmu, mV = model_gdata(model)
            e = model["e"]
            want = (sf.hbar / 2) ** e * math.exp(-0.5 * mmu @ np.linalg.solve(mV, mmu)) / math.sqrt(np.linalg.det(mV))
            if abs(want - impl) > 1e-9 * max(1.0, abs(want)):
                ctx.disagree(name, case, want, impl)
            if model["k"] == 1:     # the explicit one-mode closed form of the model
                num, det = rat(model["p1"][0]), rat(model["p1"][1])
                w1 = (sf.hbar / 2) * math.exp(-0.5 * num / det) / math.sqrt(det)
                if abs(w1 - impl) > 1e-9:
                    ctx.disagree(name + " (one-mode closed form)", case, w1, impl)


# ================================================================ (a) correspondence: Gaussian dm / reduced_dm layout

def corr_gauss_dm(ctx, sf, n_cases):
    """which Fock tensor `BaseGaussianState.dm()` / `reduced_dm(modes)` hands out and in which index layout, on 1-4 modes, pure and
    mixed; thewalrus' `state_vector` / `density_matrix` are scripted to return Gaussian-integer tensors so the comparison is exact"""
    from unittest import mock
    import strawberryfields.backends.states as st_mod
    rng, nprng = ctx.rng, ctx.nprng(19)
    sf.hbar = 2
    cases = []
    sizes = itertools.cycle([3, 4, 3, 2, 3, 1, 4, 3])
    for it in range(n_cases):
        n = next(sizes)
        D = 2 if n == 4 else rng.choice([2, 3])
        pure = rng.random() < 0.6
        u = rng.random()
        if u < 0.45:
            modes, via_dm = list(range(n)), rng.random() < 0.5
        else:
            modes, via_dm = rand_modes_arg(rng, n), False
        k = len(modes)
        psi = simcorr.rand_int_tensor(nprng, (D,) * k, -2, 2) if k <= 4 else np.zeros((D,) * 4)
        T = simcorr.rand_int_tensor(nprng, (D,) * (2 * k), -2, 2) if k <= 4 else np.zeros((D,) * 8)
        req = dict(op="st.gaussdm", D=D, n=n, modes=modes, pure=pure, psi=flat(psi), T=flat(T))
        case = dict(kind="gaussDm", n=n, D=D, modes=modes, pure=pure, via_dm=via_dm)

        def real(n=n, D=D, modes=modes, pure=pure, via_dm=via_dm, psi=psi, T=T):
            cov = np.identity(2 * n) * (1.0 if pure else 2.0)
            st = gauss_state_obj(sf, np.zeros(2 * n), cov, n)
            assert bool(st.is_pure) == pure
            with mock.patch.object(st_mod.twq, "state_vector", lambda *a, **kw: psi.copy()), \
                    mock.patch.object(st_mod.twq, "density_matrix", lambda *a, **kw: T.copy()):
                r = call(st.dm, cutoff=D) if via_dm else call(st.reduced_dm, list(modes), cutoff=D)
            if is_exc(r):
                return dict(err=r[1])
            return dict(k=np.ndim(r) // 2, t=flat(r))
        cases.append((req, real, case, n >= 3 and k == n))
    answers = ctx.lean([c[0] for c in cases])
    for (req, real, case, nt), model in zip(cases, answers):
        impl = real()
        ctx.corr_cases += 1
        ctx.count("corr:gauss:dm-layout:n=%d:%s" % (case["n"], "pure" if case["pure"] else "mixed"), case | dict(p=req["psi"]), nt,
                  sample=case)
        if isinstance(model, dict) and "err" in model and "err" in impl:
            if model["err"] != impl["err"]:
                ctx.disagree("States.gaussReducedDm error kind", case, model, impl)
            continue
        if model != impl:
            ctx.disagree("States.gaussReducedDm vs BaseGaussianState.dm/reduced_dm", case, str(model)[:300], str(impl)[:300])


# ================================================================ (a) correspondence: bosonic

def bosonic_arrays(rng, nprng, n, nw):
    mus = nprng.integers(-6, 7, size=(nw, 2 * n)) / 4.0
    covs = np.empty((nw, 2 * n, 2 * n))
    for i in range(nw):
        A = nprng.integers(-2, 3, size=(2 * n, 2 * n)) / 4.0
        covs[i] = A @ A.T + np.eye(2 * n)
    w = nprng.integers(1, 5, size=nw).astype(float)
    return mus, covs, w / w.sum()


def corr_bosonic(ctx, sf, n_cases):
    from strawberryfields.backends.states import BaseBosonicState
    from strawberryfields.backends.bosonicbackend import BosonicBackend
    import thewalrus.quantum as twq
    rng, nprng = ctx.rng, ctx.nprng(18)
    sf.hbar = 2
    cases = []
    kinds = ["reducedBosonic", "backendState", "parity", "displacement", "walrus", "meanPhoton", "quad", "marginal",
             "fidelityArgs", "purityArgs", "wignerArgs"]
    for it in range(n_cases):
        kind = kinds[it % len(kinds)]
        n = rng.randint(1, 4)
        nw = rng.randint(1, 3)
        mus, covs, w = bosonic_arrays(rng, nprng, n, nw)
        st = BaseBosonicState((mus.copy(), covs.copy(), w.copy()), n, nw)
        case = dict(kind=kind, n=n, nw=nw)
        if kind == "reducedBosonic":
            modes = rand_modes_arg(rng, n)
            req = dict(op="st.bosonic", kind=kind, n=n, modes=modes)

            def real(st=st, modes=modes):
                r = call(st.reduced_bosonic, list(modes))
                return dict(err=r[1]) if is_exc(r) else (np.array(r[1]), np.array(r[2]), np.array(r[0]))
        elif kind == "backendState":
            u = rng.random()
            modes = rng.sample(range(n), rng.randint(1, n)) if u < 0.85 else [n]
            req = dict(op="st.bosonic", kind=kind, n=n, modes=modes)
            be = BosonicBackend()
            be.begin_circuit(n)
            be.circuit.means, be.circuit.covs, be.circuit.weights = mus.copy(), covs.copy(), w.copy()

            def real(be=be, modes=modes):
                r = call(be.state, list(modes))
                if is_exc(r):
                    return dict(err=r[1])
                return np.array(r.means()), np.array(r.covs()), np.array(r.weights()), \
                    [int(r.mode_names[i][2:-1]) for i in range(r.num_modes)]
        elif kind in ("parity", "displacement"):
            modes = rng.sample(range(n), rng.randint(1, n))
            req = dict(op="st.bosonic", kind="ind" if kind == "parity" else "displacementInd", n=n, modes=modes)

            def real(st=st, modes=modes, kind=kind):
                r = call(st.parity_expectation if kind == "parity" else st.displacement, list(modes))
                return dict(err=r[1]) if is_exc(r) else np.array(r)
        elif kind in ("meanPhoton", "quad", "marginal"):
            m = rng.randrange(n)
            modes = [m]
            c, s_ = simcorr.circle_point(rng)
            comps = [dict(w=fr(w[i]), mu=[fr(x) for x in mus[i][2 * m: 2 * m + 2]],
                          cov=[[fr(x) for x in row[2 * m: 2 * m + 2]] for row in covs[i][2 * m: 2 * m + 2]]) for i in range(nw)]
            req = dict(op="st.bosonic", kind=kind, n=n, modes=modes, comps=comps, hbar=fr(2), c=fr(c), s=fr(s_))
            xv = np.array([-1.5, -0.25, 0.0, 0.5, 2.0])

            def real(st=st, m=m, kind=kind, phi=math.atan2(s_, c), xv=xv):
                if kind == "meanPhoton":
                    return np.array(st.mean_photon(m), dtype=float)
                if kind == "quad":
                    return np.array(st.quad_expectation(m, phi), dtype=float)
                return np.array(st.marginal(m, xv, phi), dtype=float)
        elif kind in ("fidelityArgs", "purityArgs"):
            modes = list(range(n))
            comps = [dict(w=fr(w[i]), mu=[fr(x) for x in mus[i]], cov=[[fr(x) for x in row] for row in covs[i]]) for i in range(nw)]
            al = [complex(rng.randint(-3, 3) / 4, rng.randint(-3, 3) / 4) for _ in range(n)]
            # hbar = 2: sqrt(2 hbar) = 2 and hbar / 2 = 1 are rational
            req = dict(op="st.bosonic", kind=kind, n=n, modes=modes, comps=comps, are=[fr(a.real) for a in al],
                       aim=[fr(a.imag) for a in al], sq=fr(2), h2=fr(1))

            def real(st=st, kind=kind, al=al):
                return complex(st.fidelity_coherent(al)) if kind == "fidelityArgs" else complex(st.purity())
        elif kind == "wignerArgs":
            m = rng.randrange(n)
            modes = [m]
            comps = [dict(w=fr(w[i]), mu=[fr(x) for x in mus[i][2 * m: 2 * m + 2]],
                          cov=[[fr(x) for x in row[2 * m: 2 * m + 2]] for row in covs[i][2 * m: 2 * m + 2]]) for i in range(nw)]
            x0, p0 = rng.randint(-6, 6) / 4, rng.randint(-6, 6) / 4
            req = dict(op="st.bosonic", kind=kind, n=1, modes=modes, comps=comps, x=fr(x0), p=fr(p0))

            def real(st=st, m=m, x0=x0, p0=p0):
                # two different grid lengths: the value sits at [ip, ix]
                return complex(np.asarray(st.wigner(m, np.array([x0 - 1, x0]), np.array([p0 - 0.5, p0 + 2, p0])))[2, 1])
        else:  # the ordering handed to thewalrus by reduced_dm / fock_prob
            modes = sorted(rng.sample(range(n), rng.randint(1, min(n, 3))))       # the conversion is self-inverse up to two modes
            req = dict(op="st.bosonic", kind="walrus", n=n, modes=modes)

            def real(st=st, modes=modes):
                return np.array(st.reduced_dm(list(modes), cutoff=3 if len(modes) < 3 else 2))
        case["modes"] = modes
        cases.append((req, real, case, (mus, covs, w), n >= 2 and modes != list(range(n))))
    answers = ctx.lean([c[0] for c in cases])
    lab_reqs = [c[0] for c in cases if c[2]["kind"] == "backendState"]
    labels_model = {id(r): a for r, a in zip(lab_reqs, ctx.lean([dict(op="st.bosonic", kind="labels", n=r["n"], modes=r["modes"])
                                                                  for r in lab_reqs]))}
    for (req, real, case, (mus, covs, w), nt), model in zip(cases, answers):
        impl = real()
        ctx.corr_cases += 1
        ctx.count("corr:bosonic:" + case["kind"], case | dict(m=mus.tolist()), nt, sample=case)
        name = "States.bosonic.%s vs BaseBosonicState/BosonicBackend" % case["kind"]
        modes = case["modes"]
        if isinstance(model, dict) and "__error__" in model:
            ctx.disagree(name + " (driver)", case, model, None)
            continue
        if (isinstance(model, dict) and "err" in model) or isinstance(impl, dict):
            ctx.tally("corr:bosonic:err")
            if not (isinstance(model, dict) and isinstance(impl, dict) and model.get("err") == impl.get("err")):
                ctx.disagree(name + " error kind", case, str(model)[:200], str(impl)[:200])
            continue
        if case["kind"] in ("reducedBosonic", "backendState"):
            ind = model["ind"]
            want = (mus[:, ind], covs[:, ind, :][:, :, ind], w)
            ok = all(a.shape == b.shape and np.array_equal(a, b) for a, b in zip(want, impl))
            if case["kind"] == "backendState":
                ok = ok and labels_model[id(req)] == impl[3]
            if not ok:
                ctx.disagree(name, case, str(ind), str(impl[0])[:200])
        elif case["kind"] in ("meanPhoton", "quad"):
            m_ = np.array([rat(model[0]), rat(model[1])])
            if np.max(np.abs(m_ - impl)) > 1e-9 * max(1.0, np.max(np.abs(m_))):
                ctx.disagree(name, case, str(m_), str(impl))
        elif case["kind"] in ("fidelityArgs", "purityArgs"):
            n_ = case["n"]
            val = 0.0
            for comp in model:
                d_, S_ = model_gdata(comp)
                val += rat(comp["w"]) * math.exp(-0.5 * d_ @ np.linalg.solve(S_, d_)) / math.sqrt(np.linalg.det(S_))
            val *= sf.hbar ** n_
            if abs(val - impl) > 1e-9 * max(1.0, abs(val)):
                ctx.disagree(name, case, val, impl)
        elif case["kind"] == "wignerArgs":
            val = sum(rat(t[0]) * math.exp(-0.5 * rat(t[1]) / rat(t[2])) / (2 * math.pi * math.sqrt(rat(t[2]))) for t in model)
            if abs(val - impl) > 1e-9 * max(1.0, abs(val)):
                ctx.disagree(name, case, val, impl)
        elif case["kind"] == "marginal":
            xv = np.array([-1.5, -0.25, 0.0, 0.5, 2.0])
            want = sum(rat(t[0]) * np.exp(-0.5 * (xv - rat(t[1])) ** 2 / rat(t[2])) / math.sqrt(2 * math.pi * rat(t[2]))
                       for t in model)
            if np.max(np.abs(want - impl)) > 1e-9:
                ctx.disagree(name, case, str(want), str(impl))
        elif case["kind"] == "parity":
            ind = model
            val = 0.0
            for i in range(len(w)):
                m, c = mus[i][ind], covs[i][np.ix_(ind, ind)]
                val += w[i] * math.exp(-0.5 * m @ np.linalg.solve(c, m)) / math.sqrt(np.linalg.det(c))
            val *= (sf.hbar / 2) ** len(modes)
            if abs(val - impl) > 1e-9 * max(1.0, abs(val)):
                ctx.disagree(name, case, val, complex(impl))
        elif case["kind"] == "displacement":
            ind = model
            avg = np.sum(w[:, None] * mus[:, ind], axis=0)
            want = (avg[::2] + 1j * avg[1::2]) / math.sqrt(2 * sf.hbar)
            if want.shape != impl.shape or np.max(np.abs(want - impl)) > 1e-12:
                ctx.disagree(name, case, str(want), str(impl))
        else:
            ind = model      # xxpp order of the requested modes
            want = 0
            for i in range(len(w)):
                want = want + w[i] * twq.density_matrix(mus[i][ind], covs[i][np.ix_(ind, ind)], hbar=sf.hbar, normalize=False,
                                                        cutoff=3 if len(modes) < 3 else 2)
            if np.max(np.abs(want - impl)) > 1e-10:
                ctx.disagree(name, case, str(ind), "reduced_dm differs from thewalrus on the model's ordering by %.3g" %
                             np.max(np.abs(want - impl)))


# ================================================================ (a) correspondence + (b) oracle: post_processing

def check_post(ctx, sf, n_cases):
    from strawberryfields.utils import post_processing as pp
    rng = ctx.rng
    cases = []
    for it in range(n_cases):
        shots, nm = rng.randint(1, 7), rng.randint(1, 4)
        hi = rng.choice([1, 2, 3])
        samples = [[rng.randint(0, hi) if rng.random() < 0.8 else rng.randint(-2, 3) for _ in range(nm)] for _ in range(shots)]
        if it % 3 == 2:
            samples = [[abs(x) for x in row] for row in samples]
        modes = rng.sample(range(nm), rng.randint(1, nm))
        kind = ("expectation", "variance", "pnr")[it % 3]
        req = dict(op="st.post", kind=kind, samples=samples, modes=modes)
        if kind == "pnr":
            cutoff = max(max(r) for r in samples)
            pats = [list(p) for p in itertools.product(range(cutoff + 1), repeat=nm)]
            if len(pats) > 300:
                pats = rng.sample(pats, 300)
            req["pats"] = pats
        cases.append((req, samples, modes, kind))
    answers = ctx.lean([c[0] for c in cases]) if ctx.proof_ok else [None] * len(cases)
    for (req, samples, modes, kind), model in zip(cases, answers):
        arr = np.array(samples)
        case = dict(kind=kind, samples=samples, modes=modes)
        rp = dict(kind="post", case=case)
        ctx.count("post:" + kind, case, len(modes) >= 2, sample=case)
        ctx.oracle_cases += 1
        if kind in ("expectation", "variance"):
            impl = (pp.samples_expectation if kind == "expectation" else pp.samples_variance)(arr, modes)
            prods = [math.prod(row[m] for m in modes) for row in samples]
            mean = Fraction(sum(prods), len(prods))
            want = mean if kind == "expectation" else Fraction(sum(p * p for p in prods), len(prods)) - mean * mean
            if abs(float(want) - impl) > 1e-9 * max(1.0, abs(float(want))):
                ctx.fail(f"post:{kind}", f"samples_{kind}({samples}, {modes}) = {impl}, brute force {want}", rp)
            # the order in which the modes are listed cannot matter
            impl2 = (pp.samples_expectation if kind == "expectation" else pp.samples_variance)(arr, modes[::-1])
            if abs(impl2 - impl) > 1e-12 * max(1.0, abs(impl)):
                ctx.fail(f"post:{kind}:order", f"samples_{kind} depends on the order of modes {modes}", rp)
            if model is not None:
                ctx.corr_cases += 1
                if abs(model[0] / model[1] - impl) > 1e-9 * max(1.0, abs(impl)):
                    ctx.disagree("States.post.%s vs post_processing" % kind, case, model, impl)
        else:
            impl = pp.all_fock_probs_pnr(arr)
            shots = len(samples)
            bad = None
            if abs(impl.sum() - 1) > 1e-12:
                bad = f"probabilities sum to {impl.sum()}"
            for pat in itertools.product(range(impl.shape[0]), repeat=arr.shape[1]):
                want = sum(1 for r in samples if tuple(r) == pat) / shots
                if abs(impl[pat] - want) > 1e-12:
                    bad = f"entry {pat} is {impl[pat]}, count/shots = {want}"
                    break
            # consistency with samples_expectation: sum_n (prod n_m) p(n)
            ex = sum(math.prod(pat[m] for m in modes) * impl[pat] for pat in itertools.product(range(impl.shape[0]),
                                                                                              repeat=arr.shape[1]))
            if abs(ex - pp.samples_expectation(arr, modes)) > 1e-9 * max(1.0, abs(ex)):
                bad = bad or f"sum_n prod(n) p(n) = {ex} but samples_expectation = {pp.samples_expectation(arr, modes)}"
            if bad:
                ctx.fail("post:all_fock_probs_pnr", f"all_fock_probs_pnr({samples}): {bad}", rp)
            if model is not None:
                ctx.corr_cases += 1
                for pat, cnt in zip(req["pats"], model):
                    if abs(impl[tuple(pat)] - cnt / shots) > 1e-12:
                        ctx.disagree("States.post.pnr vs all_fock_probs_pnr", case, [pat, cnt], float(impl[tuple(pat)]))
                        break


# ================================================================ (b) oracle: one state on every representation

def close(a, b, tol):
    a, b = np.asarray(a), np.asarray(b)
    if a.shape != b.shape:
        return False
    if a.size == 0:
        return True
    return bool(np.max(np.abs(a - b)) <= tol * max(1.0, float(np.max(np.abs(b)))))


def grids(hbar):
    sc = math.sqrt(hbar / 2)
    return np.linspace(-2.5, 2.0, 6) * sc, np.linspace(-1.5, 2.5, 4) * sc


def make_args(rng, n, hbar):
    """method arguments shared by all representations of one state"""
    sc = math.sqrt(hbar / 2)
    a = dict()
    a["phis"] = [0.0, round(rng.uniform(0.2, 2.9), 3), -math.pi / 2]
    a["alphas"] = [complex(round(rng.uniform(-0.4, 0.4), 2), round(rng.uniform(-0.4, 0.4), 2)) for _ in range(n)]
    r, th = round(rng.uniform(0.05, 0.3), 3), round(rng.uniform(0, 3.1), 3)
    Smat, _ = sim.gate_symplectic("Sgate", [r, th])
    a["other_mu"] = (np.array([round(rng.uniform(-0.5, 0.5), 2), round(rng.uniform(-0.5, 0.5), 2)]) * 2 * sc).tolist()
    a["other_cov"] = ((Smat @ Smat.T) * hbar / 2).tolist()
    polys = []
    for _ in range(2):
        A = np.zeros((2 * n, 2 * n))
        for _ in range(rng.randint(1, 3)):
            i, j = rng.randrange(2 * n), rng.randrange(2 * n)
            v = rng.choice([1.0, -0.5, 0.75])
            A[i, j] += v
            A[j, i] += v
        d = np.array([rng.choice([0.0, 0.0, 1.0, -0.5]) for _ in range(2 * n)])
        polys.append(dict(A=A.tolist(), d=d.tolist(), k=rng.choice([0.0, 0.3]), phi=rng.choice([0.0, 0.0, 0.7])))
    a["polys"] = polys
    sels = S.ordered_subsets(n) if n <= 3 else [s for s in S.ordered_subsets(n) if rng.random() < 0.25]
    a["sels"] = sels
    a["qmode"] = rng.randrange(n)
    return a


def probs_cutoff(n, D):
    return {1: min(D, 8), 2: 4, 3: 3}.get(n, 3)


def dm_cutoff(k, D):
    """cutoff for thewalrus-backed density matrices / kets of k modes (hermite polynomials: cheap, but D^(2k) entries)"""
    return {1: D, 2: D, 3: min(D, 7), 4: 4}.get(k, 3)


def thunks(sf, st, rep, n, D, args):
    """every method of the state object as (key, thunk, cheap); `cheap` ones are re-run in another order / after mutations"""
    t = []
    xvec, pvec = grids(sf.hbar)
    fock = rep.startswith("fock")
    ck = {} if fock else dict(cutoff=D)

    def add(key, f, cheap=True):
        t.append((key, f, cheap))
    if rep == "gaussian":
        add("means", lambda: np.array(st.means()))
        add("cov", lambda: np.array(st.cov()))
        add("is_pure", lambda: bool(st.is_pure))
    if rep == "bosonic":
        add("purity", st.purity)
    if fock:
        add("trace", st.trace)
    for ms in S.sorted_subsets(n):
        key = ",".join(map(str, ms))
        if rep == "gaussian":
            def rg(ms=ms):
                r = st.reduced_gaussian(list(ms))
                return np.concatenate([np.ravel(r[0]), np.ravel(r[1])])
            add("reduced_gaussian:" + key, rg)
        if rep == "bosonic":
            def rb(ms=ms):
                r = st.reduced_bosonic(list(ms))
                return (np.array(r[0]), np.array(r[1]), np.array(r[2]))
            add("reduced_bosonic:" + key, rb)
        ckm = {} if fock else dict(cutoff=dm_cutoff(len(ms), D))
        add("reduced_dm:" + key, lambda ms=ms, ckm=ckm: np.array(st.reduced_dm(list(ms), **ckm)), cheap=(len(ms) == 1))
    for m in range(n):
        add(f"mean_photon:{m}", lambda m=m: np.array(st.mean_photon(m), dtype=float))
        for phi in args["phis"]:
            add(f"quad:{m}:{phi}", lambda m=m, phi=phi: np.array(st.quad_expectation(m, phi), dtype=float))
        add(f"wigner:{m}", lambda m=m: np.array(st.wigner(m, xvec, pvec)))
        add(f"wigner0:{m}", lambda m=m: complex(np.asarray(st.wigner(m, np.array([0.0]), np.array([0.0]))).reshape(-1)[0]))
        if rep == "gaussian":
            add(f"fidelity:{m}", lambda m=m: st.fidelity((np.array(args["other_mu"]), np.array(args["other_cov"])), m))
        elif fock:
            ket = S.fock_gaussian_ket(args["other_mu"], args["other_cov"], D, sf.hbar)
            add(f"fidelity:{m}", lambda m=m, ket=ket: st.fidelity(ket, m))
        if rep == "bosonic":
            add(f"marginal:{m}", lambda m=m: np.array(st.marginal(m, xvec, args["phis"][1])))
    for ms in args["sels"]:
        key = ",".join(map(str, ms))
        add("parity:" + key, lambda ms=ms: st.parity_expectation(list(ms)))
        if fock or len(ms) <= 2:          # thewalrus' <prod n^2> is a large hafnian beyond two modes
            add("number:" + key, lambda ms=ms: np.array(st.number_expectation(list(ms)), dtype=float), cheap=fock or len(ms) == 1)
        if not fock:
            add("displacement:" + key, lambda ms=ms: np.array(st.displacement(list(ms))))
    if rep == "gaussian":
        for ms in args["sels"][:6]:
            add("squeezing:" + ",".join(map(str, ms)), lambda ms=ms: np.array(st.squeezing(list(ms)), dtype=float))
        for m in range(n):
            add(f"is_coherent:{m}", lambda m=m: bool(st.is_coherent(m)))
            add(f"is_squeezed:{m}", lambda m=m: bool(st.is_squeezed(m)))
    if n <= 2:
        # marginals of the Wigner function (BaseState.x_quad_values / p_quad_values integrate wigner() with Simpson's rule)
        m = args["qmode"]
        gx = np.linspace(-7, 7, 57) * math.sqrt(sf.hbar / 2)
        gp = np.linspace(-7.5, 7.5, 61) * math.sqrt(sf.hbar / 2)
        add(f"x_quad_values:{m}", lambda: np.array(st.x_quad_values(m, gx, gp)), cheap=False)
        add(f"p_quad_values:{m}", lambda: np.array(st.p_quad_values(m, gx, gp)), cheap=False)
        # the other grid shapes (seeded C16-e1 class): equally long grids of different spacing, and more x than p points
        for tag, (hx, hp) in QUAD_GRIDS.items():
            hx, hp = hx * math.sqrt(sf.hbar / 2), hp * math.sqrt(sf.hbar / 2)
            add(f"x_quad_values{tag}:{m}", lambda hx=hx, hp=hp: np.array(st.x_quad_values(m, hx, hp)), cheap=False)
            add(f"p_quad_values{tag}:{m}", lambda hx=hx, hp=hp: np.array(st.p_quad_values(m, hx, hp)), cheap=False)
    add("fidelity_vacuum", st.fidelity_vacuum)
    add("fidelity_coherent", lambda: st.fidelity_coherent(list(args["alphas"])))
    add("fidelity_coherent0", lambda: st.fidelity_coherent([0.0] * n))
    for i, p in enumerate(args["polys"]):
        add(f"poly:{i}", lambda p=p: np.array(st.poly_quad_expectation(np.array(p["A"]), np.array(p["d"]), p["k"], p["phi"]),
                                               dtype=float), cheap=not fock)
    if fock and n <= 3:
        add("all_fock_probs", lambda: np.array(st.all_fock_probs()), cheap=(n <= 2))
    elif not fock and n <= 3:
        # thewalrus computes every probability by a (loop) hafnian: keep the block small
        add("all_fock_probs", lambda: np.array(st.all_fock_probs(cutoff=probs_cutoff(n, D))), cheap=False)
    for pat in ([0] * n, [1] + [0] * (n - 1), [0] * (n - 1) + [2], [1] * n):
        add("fock_prob:" + ",".join(map(str, pat)), lambda pat=pat: st.fock_prob(list(pat), **ck))
    # the full density matrix / ket on every number of modes (code paths that only differ from three modes on)
    ckd = {} if fock else dict(cutoff=dm_cutoff(n, D))
    add("dm", lambda: np.array(st.dm(**ckd)), cheap=(n == 1))
    if st.is_pure and rep != "bosonic":
        add("ket", lambda: np.array(st.ket(**ckd)), cheap=(n == 1))
    return t


def observe(sf, st, rep, n, D, args, only_cheap=False, order=None):
    """run the thunks -> {key: value}; exceptions are recorded"""
    t = thunks(sf, st, rep, n, D, args)
    if only_cheap:
        t = [x for x in t if x[2]]
    if order is not None:
        order.shuffle(t)
    out = {key: call(f) for key, f, _ in t}
    out["hbar"] = float(st.hbar)
    return out


def snapshot(st, rep):
    """the arrays a state object stores (deep copies)"""
    out = [np.array(x, copy=True) for x in (st.data if isinstance(st.data, (tuple, list)) else [st.data])]
    if rep == "gaussian":
        out += [np.array(st.means(), copy=True), np.array(st.cov(), copy=True), np.array(st.displacement(), copy=True)]
    if rep == "bosonic":
        out += [np.array(st.means(), copy=True), np.array(st.covs(), copy=True), np.array(st.weights(), copy=True)]
    return out


def same_values(a, b, tol=1e-12):
    if is_exc(a) or is_exc(b):
        return a == b
    if isinstance(a, tuple):
        return all(same_values(x, y, tol) for x, y in zip(a, b))
    if isinstance(a, (bool, np.bool_)):
        return bool(a) == bool(b)
    a, b = np.asarray(a), np.asarray(b)
    if a.shape != b.shape or not np.array_equal(np.isnan(a), np.isnan(b)):
        return False
    a, b = np.nan_to_num(a), np.nan_to_num(b)          # a nan answer is the same answer when it is nan again
    return a.size == 0 or bool(np.max(np.abs(a - b)) <= tol * max(1.0, float(np.max(np.abs(b)))))


# methods whose result is freshly computed on the unchanged tree (so a caller may overwrite it): mutated by the aliasing probe
FRESH = ("reduced_dm", "reduced_gaussian", "reduced_bosonic", "mean_photon", "quad", "wigner", "displacement", "squeezing",
         "all_fock_probs", "number", "marginal")


def history_independence(ctx, sf, st, rep, n, D, args, first, snap0, rp, rng):
    """the answers of a state object may not depend on what was asked before: (i) every stored array is unchanged after all
    methods ran, (ii) the cheap methods asked again in a shuffled order give the same answers, (iii) after overwriting every
    freshly computed array a method returned (and the arrays `state(modes)` objects carry) the answers are still the same"""
    snap1 = snapshot(st, rep)
    ctx.oracle_cases += 1
    if not all(x.shape == y.shape and np.array_equal(x, y, equal_nan=True) for x, y in zip(snap0, snap1)):
        ctx.fail(f"history:{rep}:stored-data-changed", f"{rep}: calling the observables changed the arrays the state object stores", rp)
        return
    second = observe(sf, st, rep, n, D, args, only_cheap=True, order=rng)
    for key, v in second.items():
        ctx.oracle_cases += 1
        if key in first and not same_values(first[key], v):
            ctx.fail(f"history:{rep}:{key.split(':')[0]}:depends-on-call-order", f"{rep} {key} answers differently when the methods "
                     "are called in another order / a second time", rp)
            return
    # the raw (un-copied) results of the reducers
    for ms in S.sorted_subsets(n):
        if len(ms) == n:
            continue                       # the full list returns the stored arrays themselves (documented shortcut)
        for name in ("reduced_gaussian", "reduced_bosonic", "reduced_dm"):
            if hasattr(st, name) and not (name == "reduced_dm" and (len(ms) > 1 or not rep.startswith("fock"))):
                r = call(getattr(st, name), list(ms))
                for arr in (r if isinstance(r, tuple) else (r,)):
                    if isinstance(arr, np.ndarray) and arr.flags.writeable and arr.size and name != "reduced_bosonic":
                        arr[...] = -3.5
                if name == "reduced_bosonic" and not is_exc(r):
                    for arr in r[1:]:       # the weights are the stored array (shared by design)
                        if arr.flags.writeable:
                            arr[...] = -3.5
    for m in range(n):
        for name, a in (("displacement", ([m],)), ("wigner", (m, np.linspace(-1, 1, 3), np.linspace(-1, 1, 3))),
                        ("all_fock_probs", ())):
            if hasattr(st, name) and (name != "all_fock_probs" or (rep.startswith("fock") and m == 0 and n <= 2)):
                r = call(getattr(st, name), *a)
                if isinstance(r, np.ndarray) and r.flags.writeable and r.size:
                    r[...] = 2.5
    third = observe(sf, st, rep, n, D, args, only_cheap=True)
    for key, v in third.items():
        ctx.oracle_cases += 1
        if key in first and not same_values(first[key], v):
            ctx.fail(f"history:{rep}:{key.split(':')[0]}:aliased-result", f"{rep} {key} changes after a caller overwrote arrays that "
                     "other methods had returned", rp)
            return


def expected_ps(ps, n, D, args, hbar):
    """what the independent phase-space reference says"""
    e = {}
    xvec, pvec = grids(hbar)
    e["means"], e["cov"] = ps.mu, ps.V
    e["is_pure"] = bool(abs(ps.purity() - 1) < 1e-9)
    e["purity"] = ps.purity()
    for ms in S.sorted_subsets(n):
        key = ",".join(map(str, ms))
        mu, V = ps.reduced(ms)
        e["reduced_gaussian:" + key] = np.concatenate([mu, V.ravel()])
        mu, V = ps.reduced_xpxp(ms)
        e["reduced_bosonic:" + key] = (np.array([1.0]), mu[None, :], V[None, :, :])
    for m in range(n):
        e[f"mean_photon:{m}"] = np.array(ps.mean_photon(m))
        for phi in args["phis"]:
            e[f"quad:{m}:{phi}"] = np.array(ps.quad(m, phi))
        e[f"wigner:{m}"] = ps.wigner(m, xvec, pvec)
        e[f"fidelity:{m}"] = ps.fidelity_mode(m, args["other_mu"], args["other_cov"])
        mean, var = ps.quad(m, args["phis"][1])
        e[f"marginal:{m}"] = np.exp(-0.5 * (xvec - mean) ** 2 / var) / math.sqrt(2 * math.pi * var)
    for ms in args["sels"]:
        key = ",".join(map(str, ms))
        e["parity:" + key] = ps.parity(ms)
        e["displacement:" + key] = ps.alpha(ms)
        if len(ms) == 1:
            e["number:" + key] = np.array(ps.mean_photon(ms[0]))
    for ms in args["sels"][:6]:
        rs = []
        for m in ms:
            _, V1 = ps.reduced([m])
            rs.append(math.acosh(max(1.0, np.trace(V1) / hbar)) / 2)
        e["squeezr:" + ",".join(map(str, ms))] = np.array(rs)
    for m in range(n):
        _, V1 = ps.reduced([m])
        dev = float(np.max(np.abs(V1 / (hbar / 2) - np.eye(2))))
        if abs(dev - 1e-10) > 1e-11:
            e[f"is_coherent:{m}"] = bool(dev <= 1e-10)
        if abs(dev - 1e-6) > 1e-7:
            e[f"is_squeezed:{m}"] = bool(dev > 1e-6)
    e["fidelity_vacuum"] = ps.fidelity_coherent([0.0] * n)
    e["fidelity_coherent"] = ps.fidelity_coherent(args["alphas"])
    e["fidelity_coherent0"] = e["fidelity_vacuum"]
    for i, p in enumerate(args["polys"]):
        e[f"polymean:{i}"] = ps.poly_mean(np.array(p["A"]), np.array(p["d"]), p["k"], p["phi"])
    return e


# further (x grid, p grid) shapes for the Wigner marginals, in units of sqrt(hbar/2): "=": equally long, different spacing;
# ">": more x points than p points (the first pair, 57 x / 61 p points, is built in place)
QUAD_GRIDS = {"=": (np.linspace(-7, 7, 59), np.linspace(-7.6, 7.6, 59)), ">": (np.linspace(-7.2, 7.2, 63), np.linspace(-7, 7, 55))}


def expected_marginals(ps, n, args, hbar):
    """x / p marginals of the Wigner function of one mode: normal densities with the moments of the reference"""
    e = {}
    if n <= 2:
        m = args["qmode"]
        gx = np.linspace(-7, 7, 57) * math.sqrt(hbar / 2)
        gp = np.linspace(-7.5, 7.5, 61) * math.sqrt(hbar / 2)
        for name, grid, phi in (("x_quad_values", gx, 0.0), ("p_quad_values", gp, math.pi / 2)):
            mean, var = ps.quad(m, phi)
            e[f"{name}:{m}"] = np.exp(-0.5 * (grid - mean) ** 2 / var) / math.sqrt(2 * math.pi * var)
        for tag, (hx, hp) in QUAD_GRIDS.items():
            hx, hp = hx * math.sqrt(hbar / 2), hp * math.sqrt(hbar / 2)
            for name, grid, phi in ((f"x_quad_values{tag}", hx, 0.0), (f"p_quad_values{tag}", hp, math.pi / 2)):
                mean, var = ps.quad(m, phi)
                e[f"{name}:{m}"] = np.exp(-0.5 * (grid - mean) ** 2 / var) / math.sqrt(2 * math.pi * var)
    return e


def expected_fk(fk, n, args):
    """what the state's own density matrix says (own partial trace / ladder operators)"""
    e = {"trace": fk.tr}
    for ms in S.sorted_subsets(n):
        e["reduced_dm:" + ",".join(map(str, ms))] = fk.reduced(ms)
    for m in range(n):
        e[f"mean_photon:{m}"] = np.array(fk.mean_photon(m))
        for phi in args["phis"]:
            e[f"quad:{m}:{phi}"] = np.array(fk.quad(m, phi))
    for ms in args["sels"]:
        key = ",".join(map(str, ms))
        e["parity:" + key] = fk.parity(ms)
        e["number:" + key] = np.array(fk.number(ms))
    e["fidelity_vacuum"] = float(np.real(fk.rho[(0,) * (2 * n)]))
    e["fidelity_coherent"] = fk.fidelity_coherent(args["alphas"])
    e["fidelity_coherent0"] = e["fidelity_vacuum"]
    e["all_fock_probs"] = fk.probs()
    e["dm"] = fk.rho
    for pat in ([0] * n, [1] + [0] * (n - 1), [0] * (n - 1) + [2], [1] * n):
        e["fock_prob:" + ",".join(map(str, pat))] = float(np.real(fk.rho[tuple(x for v in pat for x in (v, v))]))
    return e


def compare(ctx, rep, obs, exp, tol, against, rp, skip=()):
    for key, want in exp.items():
        if key.startswith("polymean:"):
            k2 = "poly:" + key.split(":")[1]
            got = obs.get(k2)
            if got is None or is_exc(got):
                continue
            got = got[0]
        elif key.startswith("squeezr:"):
            got = obs.get("squeezing:" + key.split(":")[1])
            if got is None:
                continue
            if not is_exc(got):
                if np.any(np.isnan(np.asarray(got))):
                    ctx.fail(f"squeezing:{rep}:nan", f"{rep} squeezing({key.split(':')[1]}) = {np.asarray(got).tolist()} contains nan", rp)
                got = np.asarray(got)[:, 0]
            tol = max(tol, 1e-7)
        else:
            got = obs.get(key)
        if got is None or key in skip:
            continue
        meth = key.split(":")[0]
        ctx.oracle_cases += 1
        if is_exc(got):
            if got[1] != "NotImplementedError":
                ctx.fail(f"{meth}:{rep}:raises-{got[1]}", f"{rep}.{key} raised {got[1]} on a valid argument", rp)
            continue
        if meth in ("dm", "reduced_dm") and "representation" in against and np.ndim(got) == np.ndim(want) and np.ndim(got) >= 2:
            # truncated gate matrices are inexact near the cutoff edge: compare the block four levels below it (and inside the
            # smaller of the two cutoffs)
            c = min(np.shape(got)[0], max(3, np.shape(want)[0] - 4))
            sl = tuple([slice(0, c)] * np.ndim(got))
            got, want = np.asarray(got)[sl], np.asarray(want)[sl]
        if meth == "all_fock_probs" and np.ndim(got) == np.ndim(want) and np.shape(got) != np.shape(want):
            c = min(np.shape(got)[0], np.shape(want)[0])
            sl = tuple([slice(0, c)] * np.ndim(got))
            got, want = np.asarray(got)[sl], np.asarray(want)[sl]
        if isinstance(want, tuple):
            ok = all(close(g, w, tol) for g, w in zip(got, want))
        elif isinstance(want, bool):
            ok = bool(got) == want
        else:
            ok = close(np.asarray(got), np.asarray(want), tol)
        if not ok:
            if isinstance(got, tuple):      # report the component that differs most
                bad = [(g_, w_) for g_, w_ in zip(got, want) if not close(g_, w_, tol)]
                got, want = bad[0] if bad else (got[0], want[0])
            g, w = np.asarray(got), np.asarray(want)
            d = float(np.max(np.abs(g - w))) if g.shape == w.shape and g.size else float("nan")
            ctx.fail(f"{meth}:{rep}:vs-{against}", f"{rep} {key} disagrees with the {against} (max diff {d:.3g}, shapes "
                     f"{g.shape}/{w.shape}; got {np.ravel(g)[:4]}, want {np.ravel(w)[:4]})", rp)
            ctx.failures[-1]["diff"] = d


def hbar_of(obs):
    return obs.get("hbar", 2.0)


def internal_identities(ctx, rep, obs, n, D, rp, tol):
    """identities between methods of ONE state object"""
    def val(k):
        v = obs.get(k)
        return None if v is None or is_exc(v) else v
    probs = val("all_fock_probs")
    tol0 = tol
    if probs is not None:
        probs = np.real(np.asarray(probs))
        nn = np.arange(probs.shape[0])
        if not rep.startswith("fock"):
            # thewalrus-backed probabilities are cut at a small block: identities that sum over all n hold up to the tail
            tol = tol + 30 * probs.shape[0] ** 2 * max(0.0, 1 - float(probs.sum()))
        for key in list(obs):
            if key.startswith("fock_prob:") and val(key) is not None:
                pat = tuple(int(x) for x in key.split(":")[1].split(","))
                if max(pat) >= probs.shape[0]:
                    continue
                ctx.oracle_cases += 1
                if abs(probs[pat] - val(key)) > tol0:
                    ctx.fail(f"fock_prob:{rep}:vs-all_fock_probs", f"{rep} fock_prob{list(pat)} = {val(key)} but "
                             f"all_fock_probs()[{pat}] = {probs[pat]}", rp)
        for key in list(obs):
            if tol > 1e-4:
                break
            if key.startswith("parity:") and val(key) is not None:
                ms = [int(x) for x in key.split(":")[1].split(",")]
                sign = np.ones(probs.shape)
                for m in ms:
                    shape = [1] * n
                    shape[m] = probs.shape[0]
                    sign = sign * ((-1.0) ** nn).reshape(shape)
                want = float(np.sum(sign * probs))
                ctx.oracle_cases += 1
                if abs(want - np.real(val(key))) > tol:
                    ctx.fail(f"parity:{rep}:vs-sum-over-probs", f"{rep} parity_expectation({ms}) = {val(key)} but "
                             f"sum (-1)^n p(n) over all_fock_probs() = {want}", rp)
        for m in range(n):
            if tol > 1e-4:
                break
            v = val(f"mean_photon:{m}")
            if v is not None:
                marg = probs.sum(axis=tuple(a for a in range(n) if a != m))
                want = float(nn @ marg)
                ctx.oracle_cases += 1
                if abs(want - v[0]) > tol:
                    ctx.fail(f"mean_photon:{rep}:vs-sum-over-probs", f"{rep} mean_photon({m}) = {v[0]} but sum n p(n) = {want}", rp)
            r = val(f"reduced_dm:{m}")
            if r is not None:
                marg = probs.sum(axis=tuple(a for a in range(n) if a != m))
                ctx.oracle_cases += 1
                c = min(len(marg), np.shape(r)[0])
                if not close(np.real(np.diagonal(r))[:c], marg[:c], tol):
                    ctx.fail(f"reduced_dm:{rep}:vs-marginal-probs", f"{rep} diagonal of reduced_dm({m}) is not the marginal of "
                             "all_fock_probs()", rp)
    tol = tol0
    dm = val("dm")
    if dm is not None and np.ndim(dm) == 2 * n:
        dm = np.asarray(dm)
        c = dm.shape[0]
        diag = np.real(np.einsum(dm, [i // 2 for i in range(2 * n)], list(range(n))))
        tr = float(diag.sum())
        # (a) diagonal vs fock_prob: one common factor (a pure Gaussian ket is normalised inside the cutoff), close to 1
        ratios = []
        for key in list(obs):
            if key.startswith("fock_prob:") and val(key) is not None:
                pat = tuple(int(x) for x in key.split(":")[1].split(","))
                if max(pat) < c and abs(val(key)) > 1e-7:
                    ratios.append((pat, float(diag[pat] / np.real(val(key)))))
        ctx.oracle_cases += 1
        if ratios and (max(abs(r - ratios[0][1]) for _, r in ratios) > 1e-6 * abs(ratios[0][1]) or abs(ratios[0][1] - 1) > 3e-2):
            ctx.fail(f"dm:{rep}:diagonal-vs-fock_prob", f"{rep}: diagonal of dm() over fock_prob() is not one common factor near 1: "
                     f"{ratios}", rp)
        probs2 = val("all_fock_probs")
        if probs2 is not None and ratios:
            p2 = np.real(np.asarray(probs2))
            c2 = min(c, p2.shape[0])
            sl = tuple([slice(0, c2)] * n)
            ctx.oracle_cases += 1
            if not close(diag[sl] / ratios[0][1], p2[sl], 1e-7):
                ctx.fail(f"dm:{rep}:diagonal-vs-all_fock_probs", f"{rep}: the diagonal of dm() is not all_fock_probs()", rp)
        # (b) partial traces of dm() vs reduced_dm(modes): equal up to the weight beyond the cutoff
        tail = abs(1 - tr) + (abs(ratios[0][1] - 1) if ratios else 0.0)
        for ms in S.sorted_subsets(n):
            r = val("reduced_dm:" + ",".join(map(str, ms)))
            if r is None or len(ms) == n:
                continue
            own = sim.reduced_dm(dm, n, list(ms))
            r = np.asarray(r)
            c2 = min(c, r.shape[0]) - (0 if rep.startswith("fock") else 2)
            if c2 < 2:
                continue
            sl = tuple([slice(0, c2)] * (2 * len(ms)))
            ctx.oracle_cases += 1
            if not close(own[sl] / (ratios[0][1] if ratios else 1.0), r[sl], 1e-7 + 10 * tail):
                ctx.fail(f"dm:{rep}:partial-trace-vs-reduced_dm", f"{rep}: tracing modes out of dm() does not give reduced_dm({ms}) "
                         f"(max diff {float(np.max(np.abs(own[sl] - r[sl]))):.3g}, tail {tail:.2g})", rp)
        # (c) reduced_dm of all modes is dm()
        full = val("reduced_dm:" + ",".join(map(str, range(n))))
        if full is not None:
            ctx.oracle_cases += 1
            if not close(np.asarray(full), dm, 1e-10):
                ctx.fail(f"dm:{rep}:vs-reduced_dm-of-all-modes", f"{rep}: reduced_dm(all modes) differs from dm()", rp)
    for m in range(n):
        a, b = val(f"mean_photon:{m}"), val(f"number:{m}")
        if a is not None and b is not None:
            ctx.oracle_cases += 1
            if not close(a, b, tol):
                ctx.fail(f"number_expectation:{rep}:vs-mean_photon", f"{rep} number_expectation([{m}]) = {b} but mean_photon({m}) = {a}", rp)
    for m in range(n):
        par, w0 = val(f"parity:{m}"), val(f"wigner0:{m}")
        if par is not None and w0 is not None:
            ctx.oracle_cases += 1
            if abs(np.real(par) - math.pi * hbar_of(obs) * float(np.real(w0))) > max(tol0, 1e-8):
                ctx.fail(f"parity:{rep}:vs-wigner-at-origin", f"{rep} parity_expectation([{m}]) = {par} but pi hbar W(0,0) = "
                         f"{math.pi * hbar_of(obs) * float(np.real(w0))}", rp)
    a, b = val("fidelity_vacuum"), val("fidelity_coherent0")
    if a is not None and b is not None and abs(a - b) > 1e-12:
        ctx.fail(f"fidelity_vacuum:{rep}:vs-fidelity_coherent", f"{rep} fidelity_vacuum() = {a}, fidelity_coherent(0) = {b}", rp)
    # order of the listed modes cannot matter for symmetric observables
    for key in list(obs):
        if key.split(":")[0] in ("parity", "number") and val(key) is not None:
            ms = key.split(":")[1].split(",")
            k2 = key.split(":")[0] + ":" + ",".join(sorted(ms, key=int))
            if val(k2) is not None and not close(np.asarray(val(key)), np.asarray(val(k2)), tol):
                ctx.fail(f"{key.split(':')[0]}:{rep}:order-dependent", f"{rep} {key} differs from {k2}", rp)


def backend_state_selections(ctx, sf, eng, rep, n, full, ps, rp, rng, act=None):
    """`backend.state(modes)` for every ordered selection against an own reduction of the full state"""
    sels = S.ordered_subsets(n) if n <= 3 else rng.sample(S.ordered_subsets(n), 12)
    act = list(act) if act is not None else list(range(n))      # subsystem index of position m
    subs = []
    for ms in sels:
        arg = act[ms[0]] if len(ms) == 1 and rng.random() < 0.5 else [act[m] for m in ms]
        st = call(eng.backend.state, arg)
        subs.append(st)
        ctx.oracle_cases += 1
        ctx.count(f"oracle:state(modes):{rep}", dict(rp=rp["spec"], ms=ms, rep=rep), n >= 2)
        if is_exc(st):
            ctx.fail(f"state(modes):{rep}:raises-{st[1]}", f"{rep} backend.state({arg}) raised {st[1]}", rp)
            continue
        if st.num_modes != len(ms):
            ctx.fail(f"state(modes):{rep}:num_modes", f"{rep} backend.state({ms}).num_modes = {st.num_modes}", rp)
            continue
        labels = [st.mode_names[i] for i in range(st.num_modes)]
        want_l = ["q[%d]" % act[m] for m in (sorted(ms) if rep == "bosonic" else ms)]
        if labels != want_l or dict(st.mode_indices) != {nm: i for i, nm in enumerate(want_l)}:
            ctx.fail(f"state(modes):{rep}:mode_names", f"{rep} backend.state({ms}) labels its modes {labels}, expected {want_l}", rp)
        if rep.startswith("fock"):
            want = sim.reduced_dm(full, n, list(ms))
            got = call(st.dm)
            if is_exc(got) or not close(got, want, 1e-10):
                ctx.fail(f"state(modes):{rep}:dm", f"{rep} backend.state({ms}).dm() is not the reduced state of modes {ms} in "
                         f"that order ({got[1] if is_exc(got) else 'values differ'})", rp)
                continue
            tr, mp = call(st.trace), call(st.mean_photon, 0)
            fk = S.FK(want, len(ms), sf.hbar)
            if is_exc(tr) or abs(tr - fk.tr) > 1e-9:
                ctx.fail(f"state(modes):{rep}:trace", f"{rep} backend.state({ms}).trace() = {tr}, own trace {fk.tr}", rp)
            if is_exc(mp) or abs(mp[0] - fk.mean_photon(0)[0]) > 1e-9:
                ctx.fail(f"state(modes):{rep}:mean_photon", f"{rep} backend.state({ms}).mean_photon(0) = {mp}", rp)
            pr = call(st.all_fock_probs)
            if is_exc(pr) or not close(pr, fk.probs(), 1e-9):
                ctx.fail(f"state(modes):{rep}:all_fock_probs", f"{rep} backend.state({ms}).all_fock_probs() is not the diagonal "
                         "of its density matrix", rp)
        elif rep == "gaussian":
            mu, V = ps.reduced([act[m] for m in ms])
            if not (close(st.means(), mu, 1e-9) and close(st.cov(), V, 1e-9)):
                ctx.fail(f"state(modes):{rep}:means-cov", f"gaussian backend.state({ms}) is not the reduced state of modes {ms} "
                         "in that order", rp)
            elif abs(st.mean_photon(0)[0] - ps.mean_photon(act[ms[0]])[0]) > 1e-9:
                ctx.fail(f"state(modes):{rep}:mean_photon", f"gaussian backend.state({ms}).mean_photon(0) is not that of mode {ms[0]}", rp)
        else:
            mu, V = ps.reduced_xpxp(sorted(act[m] for m in ms))     # documented: ascending
            if not (close(st.means()[0], mu, 1e-9) and close(st.covs()[0], V, 1e-9)):
                ctx.fail(f"state(modes):{rep}:means-covs", f"bosonic backend.state({ms}) is not the reduced state of modes "
                         f"{sorted(ms)} (ascending, as documented)", rp)
    # the state objects handed out for a selection own their arrays: overwriting them leaves the simulator untouched
    before = call(eng.backend.state)
    snap = None if is_exc(before) else snapshot(before, "fock" if rep.startswith("fock") else rep)
    for st in subs:
        if is_exc(st) or (rep.startswith("fock") and st.num_modes >= n):
            continue            # a Fock selection of ALL modes is a view of the simulator tensor (einsum / transpose return views)
        for arr in (st.data if isinstance(st.data, (tuple, list)) else [st.data])[: 2]:
            if isinstance(arr, np.ndarray) and arr.flags.writeable and arr.size:
                arr[...] = 1.75
    after = call(eng.backend.state)
    ctx.oracle_cases += 1
    if snap is not None and not is_exc(after):
        snap2 = snapshot(after, "fock" if rep.startswith("fock") else rep)
        if not all(x.shape == y.shape and np.allclose(x, y, atol=1e-12, rtol=0) for x, y in zip(snap, snap2)):
            ctx.fail(f"state(modes):{rep}:aliases-simulator", f"{rep}: overwriting the arrays of the objects backend.state(modes) "
                     "returned changed the state of the simulator", rp)


def pins(ctx, sf, st, eng, rep, n, D, o, rp):
    """documented behaviour of the small public members no other comparison touches: ket vs dm, equality, names, cutoff"""
    fock = rep.startswith("fock")
    ctx.oracle_cases += 1
    if st.num_modes != n or [st.mode_names[i] for i in range(n)] != ["q[%d]" % i for i in range(n)] or \
            dict(st.mode_indices) != {"q[%d]" % i: i for i in range(n)} or abs(st.hbar - sf.hbar) > 0:
        ctx.fail(f"pins:{rep}:names-or-hbar", f"{rep} state: num_modes {st.num_modes}, names {st.mode_names}, hbar {st.hbar}", rp)
    if fock and st.cutoff_dim != D:
        ctx.fail(f"pins:{rep}:cutoff_dim", f"cutoff_dim = {st.cutoff_dim}, register cutoff {D}", rp)
    ket, dm = o.get("ket"), o.get("dm")
    if ket is not None and dm is not None and not is_exc(ket) and not is_exc(dm):
        k = np.asarray(ket)
        own = np.multiply.outer(k, k.conj()).transpose([i for m in range(n) for i in (m, m + n)])
        if not close(own, dm, 1e-9):
            ctx.fail(f"ket:{rep}:vs-dm", f"{rep} ket() (x) ket()^* differs from dm()", rp)
    # equality: a second state object of the same simulator is equal, one after a small displacement is not
    again = call(eng.backend.state)
    ctx.oracle_cases += 1
    if is_exc(again) or not (st == again) or (again != st):
        ctx.fail(f"eq:{rep}:same-state-unequal", f"{rep}: two state objects of the same simulator state compare unequal", rp)
    if not fock and n == 1 and rep == "gaussian":
        d10 = call(st.dm)                     # default cutoff is documented as 10
        if is_exc(d10) or np.shape(d10) != (10, 10):
            ctx.fail("dm:gaussian:default-cutoff", f"gaussian dm() without cutoff has shape {np.shape(d10)}", rp)
    try:
        eng.backend.squeeze(0.25, 0.3, n - 1)
        squeezed = eng.backend.state()
        if st == squeezed:
            ctx.fail(f"eq:{rep}:different-states-equal", f"{rep}: the state compares equal to the state squeezed by 0.25 in mode {n - 1}", rp)
        eng.backend.displacement(0.3, 0.4, 0)
        moved = eng.backend.state()
        if squeezed == moved:
            ctx.fail(f"eq:{rep}:different-states-equal", f"{rep}: the state compares equal to the state displaced by 0.3", rp)
    except Exception as e:  # noqa: BLE001
        ctx.fail(f"eq:{rep}:raises-{exc_name(e)}", f"{rep}: comparing with a displaced state raised {exc_name(e)}", rp)


def run_rep(sf, spec, rep, D):
    if rep.startswith("fock"):
        return sim.run_spec(sf, spec, "fock", cutoff_dim=D, pure=(rep == "fock-pure"))
    return sim.run_spec(sf, spec, rep)


def is_trunc_sig(sig):
    return "-representation" in sig or (":fock-" in sig and "vs-phase-space-reference" in sig)


def escalate(ctx, n0, rerun):
    """truncation-escalation rule (DESIGN 1.6): a Fock-vs-phase-space discrepancy counts only if it is still there at a
    larger cutoff"""
    trunc = [f for f in ctx.failures[n0:] if is_trunc_sig(f["sig"]) and not f["sig"].endswith(":complex-means")]
    if not trunc:
        return
    ctx.tally("oracle:escalated-to-larger-cutoff")
    shadow = core.Ctx(ctx.pid, ctx.tier, ctx.seed)
    shadow.proof_ok = False
    rerun(shadow)
    def worst(fs):
        out = {}
        for f in fs:
            d = f.get("diff", float("inf"))
            d = float("inf") if d != d else d
            out[f["sig"]] = max(out.get(f["sig"], 0.0), d)
        return out
    before, after = worst(trunc), worst(shadow.failures)
    # it is a violation only if it does not die with the truncation error: delta(D') > max(1e-6, delta(D) / 2)
    still = {sig for sig, d in after.items() if sig in before and d > max(1e-6, before[sig] / 2)}
    ctx.failures[n0:] = [f for f in ctx.failures[n0:] if f not in trunc or f["sig"] in still]


def check_cross(ctx, sf, spec, hbar, D, seed, reps=None, escalated=False):
    n0 = len(ctx.failures)
    obs = check_cross_once(ctx, sf, spec, hbar, D, seed, reps)
    if not escalated:
        escalate(ctx, n0, lambda sh: check_cross_once(sh, sf, spec, hbar, D + (5 if spec["n"] <= 2 else 3), seed, reps))
    return obs


def check_cross_once(ctx, sf, spec, hbar, D, seed, reps=None):
    import random
    n = spec["n"]
    rp = dict(kind="cross", spec=spec, hbar=hbar, cutoff=D, seed=seed)
    rng = random.Random(seed)
    sf.hbar = hbar
    ref = sim.reference(spec, hbar)
    ps = S.PS(ref, hbar)
    args = make_args(rng, n, hbar)
    e_ps = expected_ps(ps, n, D, args, hbar)
    e_marg = expected_marginals(ps, n, args, hbar)
    fock_ok = n <= 3 and not any(o["cls"] == "ThermalLossChannel" for o in spec["ops"])
    all_reps = ["gaussian", "bosonic"] + (["fock-mixed"] if fock_ok else []) + \
        (["fock-pure"] if fock_ok and S.gate_only(spec["ops"]) else [])
    obs = {}
    for rep in (reps or all_reps):
        if rep not in all_reps:
            continue
        st, eng = run_rep(sf, spec, rep, D)
        snap0 = snapshot(st, rep)
        o = observe(sf, st, rep, n, D, args)
        obs[rep] = o
        ctx.count(f"oracle:cross:{rep}:n={n}", dict(spec=spec, rep=rep, hbar=hbar), n >= 2,
                  sample=dict(spec=spec, rep=rep, hbar=hbar, cutoff=D))
        history_independence(ctx, sf, st, rep, n, D, args, o, snap0, rp, rng)
        if rep.startswith("fock"):
            full = sim.dm_of(st)
            fk = S.FK(full, n, hbar)
            if rep == "fock-pure" and not st.is_pure:
                ctx.tally("oracle:fock-pure-became-mixed")
            compare(ctx, rep, o, expected_fk(fk, n, args), 1e-9, "own-fock-calculation", rp)
            tolF = 1e-6 + 30 * D * D * max(0.0, 1 - fk.tr)
            compare(ctx, rep, o, e_ps, tolF, "phase-space-reference", rp,
                    skip=("means", "cov", "is_pure", "purity", "trace"))
            compare(ctx, rep, o, e_marg, max(tolF, 2e-4), "phase-space-reference", rp)
            internal_identities(ctx, rep, o, n, D, rp, 1e-9)
            backend_state_selections(ctx, sf, eng, rep, n, full, ps, rp, rng)
            pins(ctx, sf, st, eng, rep, n, D, o, rp)
        else:
            compare(ctx, rep, o, e_ps, 1e-8, "phase-space-reference", rp)
            compare(ctx, rep, o, e_marg, 2e-4, "phase-space-reference", rp)     # Simpson's rule on a finite grid
            internal_identities(ctx, rep, o, n, D, rp, 1e-8)
            backend_state_selections(ctx, sf, eng, rep, n, None, ps, rp, rng)
            pins(ctx, sf, st, eng, rep, n, D, o, rp)
    # across representations: what no reference above covers (thewalrus-backed numbers, variances of polynomials)
    if "gaussian" in obs:
        for rep in [r for r in obs if r.startswith("fock")]:
            fk_tr = obs[rep].get("trace", 1.0)
            tolF = 1e-6 + 30 * D * D * max(0.0, 1 - float(fk_tr))
            keys = [k for k in obs[rep] if k.split(":")[0] in ("number", "poly", "all_fock_probs", "fock_prob", "reduced_dm", "dm")]
            sub = {k: obs[rep][k] for k in keys if not is_exc(obs[rep][k])}
            for other in ("gaussian", "bosonic"):
                if other in obs:
                    compare(ctx, other, obs[other], sub, tolF, rep + "-representation", rp)
    return obs


# ---------------------------------------------------------------- non-Gaussian states

def fock_nongauss_spec(rng, n):
    ops = []
    for m in range(n):
        c = rng.choice(["Fock", "Coherent", "Squeezed", "none"])
        if c == "Fock":
            ops.append(dict(cls="Fock", regs=[m], pars=[rng.choice([1, 2])]))
        elif c == "Coherent":
            ops.append(dict(cls="Coherent", regs=[m], pars=[round(rng.uniform(0.2, 0.6), 2), sim.angle(rng)]))
        elif c == "Squeezed":
            ops.append(dict(cls="Squeezed", regs=[m], pars=[round(rng.uniform(0.1, 0.3), 2), sim.angle(rng)]))
    for _ in range(rng.randint(1, 4)):
        u = rng.random()
        if u < 0.4 and n >= 2:
            a, b = rng.sample(range(n), 2)
            ops.append(dict(cls="BSgate", regs=[a, b], pars=[round(rng.uniform(0.3, 1.2), 3), sim.angle(rng)]))
        elif u < 0.7:
            ops.append(dict(cls=rng.choice(["Kgate", "Vgate"]), regs=[rng.randrange(n)], pars=[round(rng.uniform(-0.3, 0.3), 3)]))
        elif u < 0.85 and n >= 2:
            a, b = rng.sample(range(n), 2)
            ops.append(dict(cls="CKgate", regs=[a, b], pars=[round(rng.uniform(-0.5, 0.5), 3)]))
        else:
            ops.append(dict(cls="LossChannel", regs=[rng.randrange(n)], pars=[rng.choice([0.6, 0.9])]))
    return dict(n=n, ops=ops)


def check_fock_only(ctx, sf, spec, D, pure, seed):
    import random
    n = spec["n"]
    rp = dict(kind="fock-only", spec=spec, cutoff=D, pure=pure, seed=seed)
    rng = random.Random(seed)
    sf.hbar = HB
    rep = "fock-pure" if pure else "fock-mixed"
    st, eng = run_rep(sf, spec, rep, D)
    args = make_args(rng, n, HB)
    snap0 = snapshot(st, rep)
    o = observe(sf, st, rep, n, D, args)
    full = sim.dm_of(st)
    fk = S.FK(full, n, HB)
    ctx.count(f"oracle:fock-nongaussian:{rep}:n={n}", dict(spec=spec, rep=rep), n >= 2, sample=dict(spec=spec, rep=rep))
    compare(ctx, rep, o, expected_fk(fk, n, args), 1e-9, "own-fock-calculation", rp)
    internal_identities(ctx, rep, o, n, D, rp, 1e-9)
    history_independence(ctx, sf, st, rep, n, D, args, o, snap0, rp, rng)
    backend_state_selections(ctx, sf, eng, rep, n, full, None, rp, rng)


def bosonic_nongauss_spec(rng, n):
    ops = []
    cat_mode = rng.randrange(n)
    for m in range(n):
        if m == cat_mode:
            ops.append(dict(cls="Catstate", regs=[m], pars=[round(rng.uniform(0.5, 1.0), 2), rng.choice([0.0, 0.5]),
                                                            rng.choice([0, 1])]))
        else:
            c = rng.choice(["Coherent", "Squeezed", "Thermal"])
            if c == "Coherent":
                ops.append(dict(cls="Coherent", regs=[m], pars=[round(rng.uniform(0.2, 0.5), 2), sim.angle(rng)]))
            elif c == "Squeezed":
                ops.append(dict(cls="Squeezed", regs=[m], pars=[round(rng.uniform(0.1, 0.3), 2), sim.angle(rng)]))
            else:
                ops.append(dict(cls="Thermal", regs=[m], pars=[rng.choice([0.1, 0.3])]))
    if n >= 2 and rng.random() < 0.6:
        a, b = rng.sample(range(n), 2)
        ops.append(dict(cls="BSgate", regs=[a, b], pars=[round(rng.uniform(0.3, 1.2), 3), sim.angle(rng)]))
    if rng.random() < 0.5:
        ops.append(dict(cls="Rgate", regs=[rng.randrange(n)], pars=[sim.angle(rng)]))
    return dict(n=n, ops=ops)


def check_bosonic_vs_fock(ctx, sf, spec, D, seed):
    n0 = len(ctx.failures)
    check_bosonic_vs_fock_once(ctx, sf, spec, D, seed)
    escalate(ctx, n0, lambda sh: check_bosonic_vs_fock_once(sh, sf, spec, D + 5, seed))


def check_bosonic_vs_fock_once(ctx, sf, spec, D, seed):
    """a non-Gaussian (multi-weight) bosonic state against the Fock representation of the same preparation"""
    import random
    n = spec["n"]
    rp = dict(kind="bosonic-vs-fock", spec=spec, cutoff=D, seed=seed)
    rng = random.Random(seed)
    sf.hbar = HB
    args = make_args(rng, n, HB)
    sb, eb = run_rep(sf, spec, "bosonic", D)
    sfk, ef = run_rep(sf, spec, "fock-mixed", D)
    ob = observe(sf, sb, "bosonic", n, D, args)
    of = observe(sf, sfk, "fock-mixed", n, D, args)
    fk = S.FK(sim.dm_of(sfk), n, HB)
    ctx.count(f"oracle:bosonic-nongaussian:n={n}", dict(spec=spec), n >= 2, sample=dict(spec=spec))
    tolF = 1e-4 + 30 * D * D * max(0.0, 1 - fk.tr)
    cplx = bool(np.any(np.abs(np.imag(np.asarray(sb.means()))) > 1e-12))
    ctx.tally("oracle:bosonic-nongaussian:" + ("complex-means" if cplx else "real-means"))
    walrus = ("fock_prob", "reduced_dm", "dm")
    keys = [k for k in of if k.split(":")[0] in ("mean_photon", "quad", "parity", "wigner",
                                                  "fidelity_vacuum", "fidelity_coherent", "fidelity_coherent0")]
    sub = {k: of[k] for k in keys if not is_exc(of[k])}
    compare(ctx, "bosonic", ob, sub, tolF, "fock-mixed-representation", rp)
    # the methods that evaluate every component in the Fock basis (complex means: SF's own analytically continued routine)
    sub = {k: of[k] for k in of if k.split(":")[0] in walrus and not is_exc(of[k])}
    compare(ctx, "bosonic", ob, sub, tolF, "fock-mixed-representation", rp)
    e = {"purity": fk.purity()}
    compare(ctx, "bosonic", ob, e, max(tolF, 1e-4), "fock-mixed-representation", rp)
    internal_identities(ctx, "bosonic", ob, n, D, rp, 1e-8)
    # displacement in the requested order: <a_m> from the Fock state
    al, _, _, _ = sim.moments_fock(sfk)
    for ms in args["sels"]:
        got = ob.get("displacement:" + ",".join(map(str, ms)))
        if got is None or is_exc(got):
            continue
        ctx.oracle_cases += 1
        if not close(got, al[list(ms)], tolF):
            ctx.fail("displacement:bosonic:vs-fock-mixed-representation", f"bosonic displacement({ms}) = {got}, <a> of these modes "
                     f"in that order = {al[list(ms)]}", rp)


# ---------------------------------------------------------------- registers with holes

def holes_spec(rng, it=0):
    n0 = 3 if it % 2 == 0 else 4
    ops = [o for o in sim.correlated_prefix(rng, n0)]
    dels = rng.sample(range(n0), 1 if n0 == 3 else rng.choice([1, 2]))
    if rng.random() < 0.5:
        dels = [d for d in dels if d != n0 - 1] or [0]          # a hole that is not at the end
    ops.append(dict(cls="Del", regs=sorted(dels), pars=[]))
    new = []
    if rng.random() < 0.4 and n0 == 4:
        new = [n0]
        ops.append(dict(cls="New", regs=new, pars=[]))
        ops.append(dict(cls="Sgate", regs=[n0], pars=[0.2, 0.5]))
        alive = [m for m in range(n0) if m not in dels]
        ops.append(dict(cls="BSgate", regs=[n0, rng.choice(alive)], pars=[0.6, 0.3]))
    return dict(n=n0, ops=ops)


def check_holes(ctx, sf, spec, D, seed):
    """states of registers with deleted (and re-created) modes: the state object and `backend.state(modes)` speak about
    subsystem indices, whatever rows / axes the simulator keeps them on"""
    import random
    rp = dict(kind="holes", spec=spec, cutoff=D, seed=seed)
    rng = random.Random(seed)
    sf.hbar = HB
    ref = sim.reference(spec, HB)
    ps = S.PS(ref, HB)
    act = list(ref.active)
    k = len(act)
    for rep in ("gaussian", "bosonic", "fock-mixed"):
        if rep == "fock-mixed" and (any(o["cls"] == "ThermalLossChannel" for o in spec["ops"]) or
                                    (ctx.tier == "quick" and ps.n > 3)):
            continue            # quick tier: no numba compilation of the rank-8 kernels
        st, eng = run_rep(sf, spec, rep, D)
        ctx.count(f"oracle:holes:{rep}", dict(spec=spec, rep=rep), True, sample=dict(spec=spec, rep=rep))
        ctx.oracle_cases += 1
        labels = [st.mode_names[i] for i in range(st.num_modes)]
        if st.num_modes != k or labels != ["q[%d]" % m for m in act]:
            ctx.fail(f"holes:{rep}:modes-of-state", f"{rep}: the state after {spec['ops'][-1]} has modes {labels}, active {act}", rp)
            continue
        if rep == "gaussian":
            mu, V = ps.reduced(act)
            if not (close(st.means(), mu, 1e-9) and close(st.cov(), V, 1e-9)):
                ctx.fail("holes:gaussian:means-cov", f"gaussian state of the active modes {act} is not their reduced state", rp)
        full = None
        if rep == "fock-mixed":
            full = sim.dm_of(st)
            fk = S.FK(full, k, HB)
            tolF = 1e-6 + 30 * D * D * max(0.0, 1 - fk.tr)
            for pos, m in enumerate(act):
                got, want = st.mean_photon(pos)[0], ps.mean_photon(m)[0]
                ctx.oracle_cases += 1
                if abs(got - want) > max(tolF, 1e-3):
                    ctx.fail("holes:fock-mixed:mean_photon", f"fock: mean_photon({pos}) = {got}, subsystem {m} has {want}", rp)
        for pos, m in enumerate(act):
            got = call(lambda: st.mean_photon(pos)[0])
            ctx.oracle_cases += 1
            if rep != "fock-mixed" and (is_exc(got) or abs(got - ps.mean_photon(m)[0]) > 1e-8):
                ctx.fail(f"holes:{rep}:mean_photon", f"{rep}: mean_photon({pos}) = {got}, subsystem {m} has {ps.mean_photon(m)[0]}", rp)
        backend_state_selections(ctx, sf, eng, rep, k, full, ps, rp, rng, act=act)
        # a deleted subsystem / an index beyond the register is not a valid selection
        if rep != "bosonic":
            dead = [m for m in range(ps.n) if m not in act]
            for bad in ([dead[0]], [act[0], dead[0]], [ps.n + 1]):
                r = call(eng.backend.state, bad)
                ctx.oracle_cases += 1
                if not is_exc(r):
                    ctx.fail(f"holes:{rep}:accepts-dead-mode", f"{rep} backend.state({bad}) returned a state although {bad} is not "
                             f"a list of active subsystems (active: {act})", rp)


# ================================================================ driver of the check

def corpus_cases():
    d = core.VERIF / "corpus" / "C16"
    out = []
    if d.exists():
        for p in sorted(d.glob("*.json")):
            out.append(json.loads(p.read_text()))
    return out


def run_item(ctx, sf, rp):
    k = rp["kind"]
    if k == "cross":
        check_cross(ctx, sf, rp["spec"], rp["hbar"], rp["cutoff"], rp["seed"])
    elif k == "fock-only":
        check_fock_only(ctx, sf, rp["spec"], rp["cutoff"], rp["pure"], rp["seed"])
    elif k == "bosonic-vs-fock":
        check_bosonic_vs_fock(ctx, sf, rp["spec"], rp["cutoff"], rp["seed"])
    elif k == "holes":
        check_holes(ctx, sf, rp["spec"], rp["cutoff"], rp["seed"])
    elif k == "post":
        pass


def guarded(ctx, rp, f):
    """an exception of the code under test inside an oracle is a failing input, not a crash of the harness"""
    try:
        f()
    except core.Infra:
        raise
    except Exception as e:  # noqa: BLE001
        import traceback
        tb = traceback.extract_tb(e.__traceback__)
        where = next((f"{fr_.filename.split('/')[-1]}:{fr_.lineno}" for fr_ in reversed(tb) if "strawberryfields" in fr_.filename),
                     f"{tb[-1].filename.split('/')[-1]}:{tb[-1].lineno}")
        ctx.fail(f"raises:{rp['kind']}:{exc_name(e)}", f"{exc_name(e)}: {str(e)[:160]} (at {where})", rp)


def run(ctx, sf):
    sf.hbar = HB
    rng = ctx.rng
    for rp in corpus_cases():
        ctx.tally("corpus")
        guarded(ctx, rp, lambda: run_item(ctx, sf, rp))
    if ctx.proof_ok:
        corr_fock(ctx, sf, ctx.n(560, 6000))
        corr_gauss(ctx, sf, ctx.n(330, 3300))
        corr_bosonic(ctx, sf, ctx.n(330, 3300))
        corr_gauss_dm(ctx, sf, ctx.n(160, 1600))
    check_post(ctx, sf, ctx.n(150, 1500))
    kinds = ["product", "product+bs", "mixed", "pure"]
    for it in range(ctx.n(12, 180)):
        kind = kinds[it % 4]
        # it = 5: one mode at hbar != 2; 2, 3, 8: three modes mixed / pure / product; 7, 10: four modes pure / mixed
        n = [2, 2, 3, 3, 1, 1, 2, 4, 3, 2, 4, 2, 1, 2, 2, 2][it % 16]
        spec = S.rand_state_spec(rng, n, kind)
        hbar = HB if it % 5 else rng.choice([1.0, 0.5])
        D = {1: 14, 2: 11, 3: 7, 4: 6}[n]
        rp = dict(kind="cross", spec=spec, hbar=hbar, cutoff=D, seed=rng.getrandbits(30))
        guarded(ctx, rp, lambda: run_item(ctx, sf, rp))
    for it in range(ctx.n(10, 110)):
        n = [2, 1, 2, 3][it % 4]
        rp = dict(kind="fock-only", spec=fock_nongauss_spec(rng, n), cutoff={1: 9, 2: 7, 3: 5}[n], pure=it % 2 == 0,
                  seed=rng.getrandbits(30))
        guarded(ctx, rp, lambda: run_item(ctx, sf, rp))
    for it in range(ctx.n(5, 50)):
        n = [2, 1, 2][it % 3]
        rp = dict(kind="bosonic-vs-fock", spec=bosonic_nongauss_spec(rng, n), cutoff={1: 16, 2: 13}[n], seed=rng.getrandbits(30))
        guarded(ctx, rp, lambda: run_item(ctx, sf, rp))
    for it in range(ctx.n(4, 50)):
        spec = holes_spec(rng, it)
        rp = dict(kind="holes", spec=spec, cutoff=6 if spec["n"] == 3 else 5, seed=rng.getrandbits(30))
        guarded(ctx, rp, lambda: run_item(ctx, sf, rp))
    sf.hbar = HB


def search(ctx, sf):
    run(ctx, sf)


def replay(ctx, rp):
    import strawberryfields as sf
    n0 = len(ctx.failures)
    if rp["kind"] == "post":
        from strawberryfields.utils import post_processing as pp
        c = rp["case"]
        arr = np.array(c["samples"])
        f = dict(expectation=pp.samples_expectation, variance=pp.samples_variance).get(c["kind"])
        if f is not None:
            print("  replay post:", f(arr, c["modes"]))
        ctx.proof_ok = False
        return False
    run_item(ctx, sf, rp)
    sf.hbar = HB
    for f in ctx.failures[n0:]:
        print("   ", f["sig"], "-", f["what"][:200])
    return len(ctx.failures) > n0
